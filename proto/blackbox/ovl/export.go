package dataset

// scratch-only export seam (would be a verif-tagged file or an overlay in the real harness)
func (c *CompactionWorker) VerifCompact(datasetID string, flushAfter int) error {
	st := DeduplicationStrategy().(*deduplicationStrategy)
	st.flushAfter = flushAfter
	return c.compact(datasetID, st)
}
