package proto

import (
	"encoding/json"
	"fmt"
	"os"
	"testing"

	"github.com/DataDog/datadog-go/v5/statsd"
	"github.com/dgraph-io/badger/v4"
	"go.uber.org/zap"

	"github.com/mimiro-io/datahub/internal/conf"
	"github.com/mimiro-io/datahub/internal/server"
)

func dumpHub(s *server.Store, dsm *server.DsManager) string {
	out := map[string]any{}
	for _, n := range dsm.GetDatasetNames() {
		d := dsm.GetDataset(n.Name)
		ch, _ := d.GetChanges(0, 0, false)
		var feed []string
		for _, e := range ch.Entities {
			b, _ := json.Marshal(e)
			feed = append(feed, string(b))
		}
		r, _ := d.GetEntities("", 0)
		var lat []string
		for _, e := range r.Entities {
			b, _ := json.Marshal(e)
			lat = append(lat, string(b))
		}
		out[n.Name] = map[string]any{"feed": feed, "latest": lat, "next": ch.NextToken}
	}
	out["ns"] = s.NamespaceManager.GetContext(nil).Namespaces
	b, _ := json.MarshalIndent(out, "", " ")
	return string(b)
}

func TestBackupRestoreOracle(t *testing.T) {
	dir, _ := os.MkdirTemp("/dev/shm", "dhb")
	defer os.RemoveAll(dir)
	e := &conf.Config{Logger: zap.NewNop().Sugar(), StoreLocation: dir + "/src"}
	s := server.NewStore(e, &statsd.NoOpClient{})
	dsm := server.NewDsManager(e, s, server.NoOpBus())
	a, _ := dsm.CreateDataset("a", nil)
	db := server.NewBadgerAccess(s, dsm).GetDB()
	bfile := dir + "/backup.kv"
	var since uint64
	backup := func() {
		f, err := os.OpenFile(bfile, os.O_CREATE|os.O_WRONLY|os.O_APPEND, 0o644)
		if err != nil {
			t.Fatal(err)
		}
		defer f.Close()
		since, err = db.Backup(f, since)
		if err != nil {
			t.Fatal(err)
		}
	}
	w := func(i int, del bool) {
		en := server.NewEntity(fmt.Sprintf("ns0:e%d", i%3), 0)
		en.Properties["ns0:v"] = i
		en.References["ns0:r"] = fmt.Sprintf("ns0:e%d", (i+1)%3)
		en.IsDeleted = del
		a.StoreEntities([]*server.Entity{en})
	}
	for i := 0; i < 5; i++ {
		w(i, false)
	}
	backup()
	for i := 5; i < 9; i++ {
		w(i, i%2 == 0)
	}
	dsm.CreateDataset("b", nil)
	dsm.DeleteDataset("b")
	dsm.CreateDataset("c", nil)
	gc := server.NewGarbageCollector(s, e)
	gc.Cleandeleted()
	backup()
	w(9, false)
	backup()
	want := dumpHub(s, dsm)
	// restore
	opts := badger.DefaultOptions(dir + "/restored")
	opts.Logger = nil
	rdb, err := badger.Open(opts)
	if err != nil {
		t.Fatal(err)
	}
	f, _ := os.Open(bfile)
	if err := rdb.Load(f, 16); err != nil {
		t.Fatal(err)
	}
	f.Close()
	rdb.Close()
	e2 := &conf.Config{Logger: zap.NewNop().Sugar(), StoreLocation: dir + "/restored"}
	s2 := server.NewStore(e2, &statsd.NoOpClient{})
	dsm2 := server.NewDsManager(e2, s2, server.NoOpBus())
	got := dumpHub(s2, dsm2)
	if got != want {
		t.Fatalf("MISMATCH\nwant=%s\ngot=%s", want, got)
	}
	t.Logf("restore equals source (%d bytes of dump)", len(got))
	// writes after restore get fresh positions
	d2 := dsm2.GetDataset("a")
	en := server.NewEntity("ns0:new", 0)
	d2.StoreEntities([]*server.Entity{en})
	ch, _ := d2.GetChanges(0, 0, false)
	t.Logf("after restore write: n=%d next=%d internal=%d", len(ch.Entities), ch.NextToken, ch.Entities[len(ch.Entities)-1].InternalID)
}
