package proto

import (
	"testing"

	"github.com/mimiro-io/datahub/internal/server"
	"github.com/mimiro-io/datahub/internal/service/entity"
)

func TestDetailsHash(t *testing.T) {
	h := newHub()
	defer h.close()
	d, _ := h.dsm.CreateDataset("a", nil)
	for _, uri := range []string{"http://ex.org/s/x1", "http://ex.org/h#x2", "http://ex.org/s/a:b"} {
		c, _ := h.s.GetNamespacedIdentifier(uri, nil)
		e := server.NewEntity(c, 0)
		d.StoreEntities([]*server.Entity{e})
		l, _ := entity.NewLookup(server.NewBadgerAccess(h.s, h.dsm))
		det, err := l.Details(uri, nil)
		det2, err2 := l.Details(c, nil)
		ent, err3 := h.s.GetEntity(uri, nil, true)
		t.Logf("%s curie=%s details(uri): n=%d err=%v | details(curie): n=%d err=%v | GetEntity(uri) found=%v err=%v", uri, c, len(det), err, len(det2), err2, ent != nil && ent.Recorded > 0, err3)
	}
}
