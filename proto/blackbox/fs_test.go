package proto

import (
	"context"
	"encoding/json"
	"fmt"
	"net/http/httptest"
	"os"
	"sort"
	"strings"
	"testing"

	"pgregory.net/rapid"

	"github.com/mimiro-io/datahub/internal/server"
)

func (h *whub) post(path, body string, hdr map[string]string) int {
	req := httptest.NewRequest("POST", path, strings.NewReader(body))
	for k, v := range hdr {
		req.Header.Set(k, v)
	}
	rec := httptest.NewRecorder()
	h.e.ServeHTTP(rec, req)
	return rec.Code
}

type fsModel struct {
	ents   map[string]*struct{ v int; del bool } // latest
	nver   map[string]int                          // number of versions per id
	active bool
	id     string
	job    bool // active sync is job-driven (no id)
	seen   map[string]bool
}

func TestFullSyncModel(t *testing.T) {
	rapid.Check(t, func(t *rapid.T) {
		h := newWHub()
		defer func() { h.s.Close(); os.RemoveAll(h.dir) }()
		h.do("POST", "/datasets/d", "")
		d := h.dsm.GetDataset("d")
		m := &fsModel{ents: map[string]*struct{ v int; del bool }{}, nver: map[string]int{}}
		var hist []string
		ver := 0
		payload := func(ids []string) string {
			var sb strings.Builder
			sb.WriteString(`[{"id":"@context","namespaces":{"_":"http://ex.org/"}}`)
			for _, id := range ids {
				sb.WriteString(fmt.Sprintf(`,{"id":"%s","props":{"v":%d},"refs":{}}`, id, ver))
			}
			sb.WriteString("]")
			return sb.String()
		}
		genIDs := func(t *rapid.T) []string {
			n := rapid.IntRange(0, 3).Draw(t, "n")
			set := map[string]bool{}
			for i := 0; i < n; i++ {
				set[fmt.Sprintf("e%d", rapid.IntRange(0, 4).Draw(t, "id"))] = true
			}
			var ids []string
			for id := range set {
				ids = append(ids, id)
			}
			sort.Strings(ids)
			return ids
		}
		apply := func(ids []string) {
			for _, id := range ids {
				m.ents[id] = &struct{ v int; del bool }{ver, false}
				m.nver[id]++
				if m.active {
					m.seen[id] = true
				}
			}
		}
		complete := func() {
			for id, e := range m.ents {
				if !e.del && !m.seen[id] {
					e.del = true
					m.nver[id]++
				}
			}
			m.active = false
			m.seen = nil
			m.id = ""
			m.job = false
		}
		check := func() {
			r, err := d.GetEntities("", 0)
			if err != nil {
				t.Fatal(err)
			}
			got := map[string]string{}
			for _, e := range r.Entities {
				got[strings.TrimPrefix(e.ID, "ns3:")] = fmt.Sprintf("v=%v del=%v", e.Properties["ns3:v"], e.IsDeleted)
			}
			want := map[string]string{}
			for id, e := range m.ents {
				want[id] = fmt.Sprintf("v=%v del=%v", e.v, e.del)
			}
			gb, _ := json.Marshal(got)
			wb, _ := json.Marshal(want)
			if string(gb) != string(wb) {
				t.Fatalf("STATE got=%s want=%s\nhist=%s", gb, wb, strings.Join(hist, "\n"))
			}
			ch, _ := d.GetChanges(0, 0, false)
			cnt := map[string]int{}
			for _, e := range ch.Entities {
				cnt[strings.TrimPrefix(e.ID, "ns3:")]++
			}
			for id, n := range m.nver {
				if cnt[id] != n {
					t.Fatalf("NVER id=%s got=%d want=%d\nhist=%s", id, cnt[id], n, strings.Join(hist, "\n"))
				}
			}
		}
		syncIDs := []string{"s1", "s2"}
		t.Repeat(map[string]func(*rapid.T){
			"httpStart": func(t *rapid.T) {
				id := rapid.SampledFrom(syncIDs).Draw(t, "sid")
				ids := genIDs(t)
				ver++
				code := h.post("/datasets/d/entities", payload(ids), map[string]string{"universal-data-api-full-sync-start": "true", "universal-data-api-full-sync-id": id})
				hist = append(hist, fmt.Sprintf("httpStart %s %v -> %d", id, ids, code))
				if code != 200 {
					t.Fatalf("start rejected %d\nhist=%s", code, strings.Join(hist, "\n"))
				}
				m.active, m.id, m.job, m.seen = true, id, false, map[string]bool{}
				apply(ids)
			},
			"httpBatch": func(t *rapid.T) {
				id := rapid.SampledFrom(append([]string{""}, syncIDs...)).Draw(t, "sid")
				ids := genIDs(t)
				end := rapid.IntRange(0, 2).Draw(t, "end") == 0
				ver++
				hdr := map[string]string{}
				if id != "" {
					hdr["universal-data-api-full-sync-id"] = id
				}
				if end {
					hdr["universal-data-api-full-sync-end"] = "true"
				}
				code := h.post("/datasets/d/entities", payload(ids), hdr)
				hist = append(hist, fmt.Sprintf("httpBatch id=%q end=%v %v -> %d", id, end, ids, code))
				activeID := m.id
				switch {
				case m.active && id != activeID:
					// different (or missing) id while a sync is active: must be rejected without effect
					if code == 200 {
						t.Fatalf("foreign batch accepted\nhist=%s", strings.Join(hist, "\n"))
					}
				case m.active && id == activeID:
					// note: a job-driven sync has id "" ; an http batch without id matches it
					if code != 200 {
						t.Fatalf("matching batch rejected %d\nhist=%s", code, strings.Join(hist, "\n"))
					}
					apply(ids)
					if end {
						complete()
					}
				default: // no active sync
					if end {
						// entities are stored, then the end is refused (no lease) : accept either status, but nothing may be deleted
						apply(ids)
					} else {
						if code != 200 {
							t.Fatalf("plain batch rejected %d\nhist=%s", code, strings.Join(hist, "\n"))
						}
						apply(ids)
					}
				}
			},
			"jobStart": func(t *rapid.T) {
				hist = append(hist, "jobStart")
				d.StartFullSync()
				m.active, m.id, m.job, m.seen = true, "", true, map[string]bool{}
			},
			"jobWrite": func(t *rapid.T) {
				ids := genIDs(t)
				if len(ids) == 0 {
					t.Skip("empty")
				}
				ver++
				var es []*server.Entity
				for _, id := range ids {
					e := server.NewEntity("ns3:"+id, 0)
					e.Properties["ns3:v"] = ver
					es = append(es, e)
				}
				hist = append(hist, fmt.Sprintf("jobWrite %v", ids))
				if err := d.StoreEntities(es); err != nil {
					t.Fatal(err)
				}
				apply(ids)
			},
			"jobEnd": func(t *rapid.T) {
				if !(m.active && m.job) {
					t.Skip("job sync not the active one") // superseded job end = known finding shape, excluded here
				}
				hist = append(hist, "jobEnd")
				if err := d.CompleteFullSync(context.Background()); err != nil {
					t.Fatal(err)
				}
				complete()
			},
			"": func(t *rapid.T) { check() },
		})
	})
}
