package proto

import (
	"fmt"
	"reflect"
	"sort"
	"strings"
	"testing"

	"pgregory.net/rapid"

	"github.com/mimiro-io/datahub/internal/server"
)

type snap struct {
	T       int64
	Lookups map[string]string // key: id|scope -> version key
	Rels    map[string]string // key: id|pred|inv|scope -> set string
}

func (h *hub) takeSnap(t *rapid.T, names []string, at int64, asOf bool) *snap {
	s := &snap{T: at, Lookups: map[string]string{}, Rels: map[string]string{}}
	scopes := [][]string{nil, {"a"}, {"b"}}
	for i := 0; i <= 4; i++ {
		id := fmt.Sprintf("%s:e%d", h.pfx, i)
		for _, scope := range scopes {
			sk := strings.Join(scope, "+")
			// lookup
			var e *server.Entity
			var err error
			if !asOf {
				e, err = h.s.GetEntity(id, scope, true)
			} else {
				cur, _ := h.s.GetEntity(id, nil, true) // to learn internal id
				if cur != nil {
					e, err = h.s.GetEntityAtPointInTimeWithInternalID(cur.InternalID, at, h.s.DatasetsToInternalIDs(scope), true)
				}
			}
			if err != nil {
				t.Fatalf("lookup err %v", err)
			}
			if e != nil {
				s.Lookups[id+"|"+sk] = fromEntity(e).Key()
			} else {
				s.Lookups[id+"|"+sk] = "<nil>"
			}
			for _, pred := range []string{"*", h.pfx + ":r0", h.pfx + ":r1"} {
				for _, inv := range []bool{false, true} {
					if inv && excl["noinv"] {
						continue
					}
					var res server.RelatedEntitiesQueryResult
					if !asOf {
						res, err = h.s.GetManyRelatedEntitiesBatch([]string{id}, pred, inv, scope, 0, true)
					} else {
						var from []*server.RelatedFrom
						from, err = h.s.ToRelatedFrom([]string{id}, pred, inv, scope, at)
						if err == nil {
							res, err = h.s.GetManyRelatedEntitiesAtTime(from, 0, true)
						}
					}
					var ks []string
					if err == nil {
						for _, x := range res.Relations {
							ks = append(ks, x.PredicateURI+"|"+x.RelatedEntity.ID)
						}
					}
					sort.Strings(ks)
					s.Rels[fmt.Sprintf("%s|%s|%v|%s", id, pred, inv, sk)] = strings.Join(ks, ",")
				}
			}
		}
	}
	return s
}

func TestAsOf(t *testing.T) {
	rapid.Check(t, func(t *rapid.T) {
		h := newHub()
		defer h.close()
		names := []string{"a", "b"}
		for _, n := range names {
			h.dsm.CreateDataset(n, nil)
		}
		var hist []string
		var snaps []*snap
		t.Repeat(map[string]func(*rapid.T){
			"write": func(t *rapid.T) {
				ds := rapid.SampledFrom(names).Draw(t, "ds")
				n := rapid.IntRange(1, 3).Draw(t, "n")
				var batch []*Version
				for i := 0; i < n; i++ {
					batch = append(batch, genVersion(t, h.pfx))
				}
				var sb []string
				for _, v := range batch {
					sb = append(sb, string(verJSON(v)))
				}
				hist = append(hist, fmt.Sprintf("write ds=%s [%s]", ds, strings.Join(sb, " ; ")))
				h.write(t, ds, batch, false)
				// commit time = max recorded in feed
				ch, _ := h.dsm.GetDataset(ds).GetChanges(0, 0, false)
				var T int64
				for _, e := range ch.Entities {
					if int64(e.Recorded) > T {
						T = int64(e.Recorded)
					}
				}
				if len(snaps) > 0 && T <= snaps[len(snaps)-1].T {
					return // nothing written (all dedup'ed)
				}
				snaps = append(snaps, h.takeSnap(t, names, T, false))
			},
			"asof": func(t *rapid.T) {
				if len(snaps) < 2 {
					t.Skip("few")
				}
				k := rapid.IntRange(0, len(snaps)-2).Draw(t, "k")
				s := snaps[k]
				next := snaps[k+1].T
				var at int64
				switch rapid.IntRange(0, 2).Draw(t, "pos") {
				case 0:
					at = s.T
				case 1:
					at = s.T + (next-s.T)/2
				default:
					at = next - 1
				}
				got := h.takeSnap(t, names, at, true)
				for key, want := range s.Lookups {
					g := got.Lookups[key]
					if g != want && !(want == "<nil>") {
						// entity unknown at snapshot time but known now: as-of returns empty entity; tolerate nil vs empty
						t.Fatalf("ASOF-LOOKUP k=%d at=%d key=%s got=%s want=%s\nhist=%s", k, at, key, g, want, strings.Join(hist, "\n"))
					}
				}
				if !reflect.DeepEqual(got.Rels, s.Rels) {
					for key, want := range s.Rels {
						if got.Rels[key] != want {
							t.Fatalf("ASOF-REL k=%d at=%d (T=%d next=%d) key=%s got=[%s] want=[%s]\nhist=%s", k, at, s.T, next, key, got.Rels[key], want, strings.Join(hist, "\n"))
						}
					}
				}
			},
		})
	})
}
