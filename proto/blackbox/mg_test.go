package proto

import (
	"fmt"
	"os"
	"reflect"
	"sort"
	"strings"
	"testing"

	"github.com/DataDog/datadog-go/v5/statsd"
	"go.uber.org/zap"
	"pgregory.net/rapid"

	"github.com/mimiro-io/datahub/internal/conf"
	"github.com/mimiro-io/datahub/internal/server"
)

func (h *hub) restart() {
	h.s.Close()
	e := &conf.Config{Logger: zap.NewNop().Sugar(), StoreLocation: h.dir}
	h.s = server.NewStore(e, &statsd.NoOpClient{})
	h.dsm = server.NewDsManager(e, h.s, server.NoOpBus())
}

// TestMgmt: dataset management + GC + restart + items counter
func TestMgmt(t *testing.T) {
	rapid.Check(t, func(t *rapid.T) {
		h := newHub()
		defer func() { h.s.Close(); os.RemoveAll(h.dir) }()
		pool := []string{"a", "b", "c"}
		m := NewModel()
		ever := map[string]map[string]bool{} // ds -> ids ever stored (this incarnation)
		var hist []string
		exists := func() []string {
			var out []string
			for _, n := range pool {
				if m.DS[n] != nil {
					out = append(out, n)
				}
			}
			return out
		}
		create := func(n string) {
			h.dsm.CreateDataset(n, nil)
			m.DS[n] = &MDataset{Name: n, Latest: map[string]*Version{}}
			m.Names = append(m.Names, n)
			ever[n] = map[string]bool{}
		}
		create("a")
		create("b")
		check := func() {
			// dataset list
			var got []string
			for _, n := range h.dsm.GetDatasetNames() {
				if n.Name != "core.Dataset" {
					got = append(got, n.Name)
				}
			}
			sort.Strings(got)
			want := exists()
			sort.Strings(want)
			if !reflect.DeepEqual(got, want) && !(len(got) == 0 && len(want) == 0) {
				t.Fatalf("DSLIST got=%v want=%v\nhist=%s", got, want, strings.Join(hist, "\n"))
			}
			for _, n := range want {
				d := h.dsm.GetDataset(n)
				md := m.DS[n]
				ch, err := d.GetChanges(0, 0, false)
				if err != nil {
					t.Fatal(err)
				}
				if len(ch.Entities) != len(md.Feed) {
					t.Fatalf("FEED-LEN ds=%s impl=%d model=%d\nhist=%s", n, len(ch.Entities), len(md.Feed), strings.Join(hist, "\n"))
				}
				for i, e := range ch.Entities {
					if !sameVersion(fromEntity(e), md.Feed[i]) {
						t.Fatalf("FEED-CONTENT ds=%s i=%d\nhist=%s", n, i, strings.Join(hist, "\n"))
					}
				}
				r, _ := d.GetEntities("", 0)
				if len(r.Entities) != len(md.Latest) {
					t.Fatalf("LATEST-LEN ds=%s impl=%d model=%d\nhist=%s", n, len(r.Entities), len(md.Latest), strings.Join(hist, "\n"))
				}
				// items counter
				me, err := h.s.GetEntity("ns0:"+n, []string{"core.Dataset"}, true)
				if err != nil || me == nil {
					t.Fatalf("META missing for %s err=%v\nhist=%s", n, err, strings.Join(hist, "\n"))
				}
				items, _ := me.Properties["ns0:items"].(float64)
				if int(items) != len(ever[n]) || me.IsDeleted {
					t.Fatalf("ITEMS ds=%s meta=%v model=%d deleted=%v\nhist=%s", n, me.Properties["ns0:items"], len(ever[n]), me.IsDeleted, strings.Join(hist, "\n"))
				}
			}
			// deleted names have only deleted meta entities
			for _, n := range pool {
				if m.DS[n] == nil {
					core := h.dsm.GetDataset("core.Dataset")
					r, _ := core.GetEntities("", 0)
					for _, e := range r.Entities {
						if e.ID == "ns0:"+n && !e.IsDeleted {
							t.Fatalf("META live for deleted ds %s\nhist=%s", n, strings.Join(hist, "\n"))
						}
					}
				}
			}
			// unscoped relations + lookups vs model over existing datasets
			for i := 0; i <= 4; i++ {
				id := fmt.Sprintf("%s:e%d", h.pfx, i)
				res, err := h.s.GetManyRelatedEntitiesBatch([]string{id}, "*", false, nil, 0, true)
				got := map[string]bool{}
				if err == nil {
					for _, x := range res.Relations {
						got[x.PredicateURI+"|"+x.RelatedEntity.ID] = true
					}
				}
				wantR := m.Outgoing(id, "*", exists())
				if len(exists()) == 0 {
					wantR = map[string]bool{}
				}
				if !reflect.DeepEqual(got, wantR) && !(len(got) == 0 && len(wantR) == 0) {
					t.Fatalf("REL-OUT start=%s got=[%s] want=[%s]\nhist=%s", id, setStr(got), setStr(wantR), strings.Join(hist, "\n"))
				}
				// unscoped lookup: props keys must come only from existing datasets' latest non-deleted
				e, err := h.s.GetEntity(id, nil, true)
				if err != nil {
					t.Fatalf("lookup err %v", err)
				}
				wantKeys := map[string]bool{}
				for _, n := range exists() {
					if v := m.DS[n].Latest[id]; v != nil && !v.Deleted {
						for k := range v.Props {
							wantKeys[k] = true
						}
					}
				}
				gotKeys := map[string]bool{}
				if e != nil {
					for k := range e.Properties {
						gotKeys[k] = true
					}
				}
				if !reflect.DeepEqual(gotKeys, wantKeys) && !(len(gotKeys) == 0 && len(wantKeys) == 0) {
					t.Fatalf("LOOKUP-KEYS id=%s got=%v want=%v\nhist=%s", id, gotKeys, wantKeys, strings.Join(hist, "\n"))
				}
			}
		}
		t.Repeat(map[string]func(*rapid.T){
			"write": func(t *rapid.T) {
				ex := exists()
				if len(ex) == 0 {
					t.Skip("no ds")
				}
				ds := rapid.SampledFrom(ex).Draw(t, "ds")
				n := rapid.IntRange(1, 4).Draw(t, "n")
				var batch []*Version
				for i := 0; i < n; i++ {
					v := genVersion(t, h.pfx)
					cur := m.DS[ds].Latest[v.ID]
					var lastSame *Version
					for _, b := range batch {
						if b.ID == v.ID {
							cur = b
							lastSame = b
						}
					}
					if cur != nil && !equalContent(cur, v) && len(verJSON(cur)) == len(verJSON(v)) {
						continue
					}
					if lastSame != nil && equalContent(lastSame, v) {
						continue
					}
					batch = append(batch, v)
				}
				if len(batch) == 0 {
					t.Skip("empty")
				}
				var sb []string
				for _, v := range batch {
					sb = append(sb, string(verJSON(v)))
					ever[ds][v.ID] = true
				}
				useTxn := rapid.Bool().Draw(t, "txn")
				hist = append(hist, fmt.Sprintf("write ds=%s txn=%v [%s]", ds, useTxn, strings.Join(sb, " ; ")))
				if useTxn {
					var ents []*server.Entity
					for _, v := range batch {
						ents = append(ents, &server.Entity{ID: v.ID, Properties: canon(v.Props).(map[string]any), References: canon(v.Refs).(map[string]any), IsDeleted: v.Deleted})
					}
					if err := h.s.ExecuteTransaction(&server.Transaction{DatasetEntities: map[string][]*server.Entity{ds: ents}}); err != nil {
						t.Fatal(err)
					}
				} else {
					h.write(t, ds, batch, false)
				}
				m.Write(ds, batch)
			},
			"delete": func(t *rapid.T) {
				ex := exists()
				if len(ex) == 0 {
					t.Skip("no ds")
				}
				ds := rapid.SampledFrom(ex).Draw(t, "ds")
				hist = append(hist, "delete "+ds)
				if err := h.dsm.DeleteDataset(ds); err != nil {
					t.Fatal(err)
				}
				delete(m.DS, ds)
				var nn []string
				for _, x := range m.Names {
					if x != ds {
						nn = append(nn, x)
					}
				}
				m.Names = nn
			},
			"create": func(t *rapid.T) {
				var missing []string
				for _, n := range pool {
					if m.DS[n] == nil {
						missing = append(missing, n)
					}
				}
				if len(missing) == 0 {
					t.Skip("all exist")
				}
				ds := rapid.SampledFrom(missing).Draw(t, "ds")
				hist = append(hist, "create "+ds)
				create(ds)
			},
			"rename": func(t *rapid.T) {
				ex := exists()
				var missing []string
				for _, n := range pool {
					if m.DS[n] == nil {
						missing = append(missing, n)
					}
				}
				if len(ex) == 0 || len(missing) == 0 {
					t.Skip("n/a")
				}
				from := rapid.SampledFrom(ex).Draw(t, "from")
				to := rapid.SampledFrom(missing).Draw(t, "to")
				hist = append(hist, "rename "+from+" -> "+to)
				if _, err := h.dsm.UpdateDataset(from, &server.UpdateDatasetConfig{ID: to}); err != nil {
					t.Fatal(err)
				}
				m.DS[to] = m.DS[from]
				m.DS[to].Name = to
				delete(m.DS, from)
				ever[to] = ever[from]
				delete(ever, from)
				for i, x := range m.Names {
					if x == from {
						m.Names[i] = to
					}
				}
			},
			"gc": func(t *rapid.T) {
				hist = append(hist, "gc")
				gc := server.NewGarbageCollector(h.s, &conf.Config{Logger: zap.NewNop().Sugar()})
				if err := gc.Cleandeleted(); err != nil {
					t.Fatal(err)
				}
			},
			"restart": func(t *rapid.T) {
				hist = append(hist, "restart")
				h.restart()
			},
			"": func(t *rapid.T) { check() },
		})
	})
}
