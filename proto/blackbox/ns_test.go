package proto

import (
	"strings"
	"testing"

	"pgregory.net/rapid"

	"github.com/mimiro-io/datahub/internal/server"
	"github.com/mimiro-io/datahub/internal/service/entity"
)

func TestCurieRoundTrip(t *testing.T) {
	h := newHub()
	defer h.close()
	seen := map[string]string{} // expansion -> prefix
	rev := map[string]string{}
	lookup, _ := entity.NewLookup(server.NewBadgerAccess(h.s, h.dsm))
	_ = lookup
	rapid.Check(t, func(t *rapid.T) {
		scheme := rapid.SampledFrom([]string{"http://", "https://"}).Draw(t, "scheme")
		host := rapid.SampledFrom([]string{"ex.org", "a", "x.y:8080", "ünï.org"}).Draw(t, "host")
		nseg := rapid.IntRange(0, 3).Draw(t, "nseg")
		var sb strings.Builder
		sb.WriteString(scheme + host)
		for i := 0; i < nseg; i++ {
			sb.WriteString(rapid.SampledFrom([]string{"/", "#", "/a", "#b", "/c:d", "/e f", "/%20", "/ü", "//", "/#"}).Draw(t, "seg"))
		}
		local := rapid.SampledFrom([]string{"", "x", "a:b", "a b", "ü", "1", "x?y=z", "x&y"}).Draw(t, "local")
		sep := rapid.SampledFrom([]string{"/", "#"}).Draw(t, "sep")
		uri := sb.String() + sep + local
		curie, err := h.s.GetNamespacedIdentifier(uri, map[string]string{})
		if err != nil {
			t.Fatalf("GetNamespacedIdentifier(%q): %v", uri, err)
		}
		back, err := h.s.ExpandCurie(curie)
		if err != nil || back != uri {
			t.Fatalf("round trip %q -> %q -> %q err=%v", uri, curie, back, err)
		}
		// bijection + permanence
		i := strings.Index(curie, ":")
		prefix := curie[:i]
		expansion := uri[:len(uri)-len(curie[i+1:])]
		if p, ok := seen[expansion]; ok && p != prefix {
			t.Fatalf("expansion %q had prefix %q now %q", expansion, p, prefix)
		}
		if e, ok := rev[prefix]; ok && e != expansion {
			t.Fatalf("prefix %q had expansion %q now %q", prefix, e, expansion)
		}
		seen[expansion] = prefix
		rev[prefix] = expansion
		// the other entry point
		c2, err := h.s.GetNamespacedIdentifierFromURI(uri)
		if err != nil || c2 != curie {
			t.Fatalf("FromURI(%q)=%q,%v vs %q", uri, c2, err, curie)
		}
	})
	ctx := h.s.NamespaceManager.GetContext(nil)
	t.Logf("namespaces: %d", len(ctx.Namespaces))
}
