package proto

import (
	"encoding/json"
	"fmt"
	"reflect"
	"sort"
	"strings"
)

// Version is the observable content of one entity version.
type Version struct {
	ID      string
	Props   map[string]any
	Refs    map[string]any
	Deleted bool
}

func canon(v any) any {
	b, _ := json.Marshal(v)
	var out any
	_ = json.Unmarshal(b, &out)
	return out
}

func (v *Version) Key() string {
	b, _ := json.Marshal([]any{v.ID, canon(v.Props), canon(v.Refs), v.Deleted})
	return string(b)
}

func equalContent(a, b *Version) bool {
	return a.Deleted == b.Deleted && reflect.DeepEqual(canon(a.Props), canon(b.Props)) && reflect.DeepEqual(canon(a.Refs), canon(b.Refs))
}

type MDataset struct {
	Name   string
	Feed   []*Version
	Latest map[string]*Version
	Order  []string // first-seen order of ids (not asserted)
}

type Model struct {
	DS    map[string]*MDataset
	Names []string
}

func NewModel(names ...string) *Model {
	m := &Model{DS: map[string]*MDataset{}}
	for _, n := range names {
		m.DS[n] = &MDataset{Name: n, Latest: map[string]*Version{}}
		m.Names = append(m.Names, n)
	}
	return m
}

func (m *Model) Write(ds string, batch []*Version) {
	d := m.DS[ds]
	for _, v := range batch {
		cur := d.Latest[v.ID]
		if cur != nil && equalContent(cur, v) {
			continue
		}
		d.Feed = append(d.Feed, v)
		d.Latest[v.ID] = v
	}
}

func refTargets(v any) []string {
	switch x := v.(type) {
	case string:
		return []string{x}
	case []any:
		var out []string
		for _, e := range x {
			if s, ok := e.(string); ok {
				out = append(out, s)
			}
		}
		return out
	case []string:
		return x
	}
	return nil
}

// Outgoing returns the set of "pred|target" for start s in scope.
func (m *Model) Outgoing(s string, pred string, scope []string) map[string]bool {
	out := map[string]bool{}
	for _, n := range m.scope(scope) {
		v := m.DS[n].Latest[s]
		if v == nil || v.Deleted {
			continue
		}
		for p, tv := range v.Refs {
			if pred != "*" && pred != p {
				continue
			}
			for _, t := range refTargets(canon(tv)) {
				out[p+"|"+t] = true
			}
		}
	}
	return out
}

func (m *Model) Incoming(t string, pred string, scope []string) map[string]bool {
	out := map[string]bool{}
	for _, n := range m.scope(scope) {
		for _, v := range m.DS[n].Latest {
			if v.Deleted {
				continue
			}
			for p, tv := range v.Refs {
				if pred != "*" && pred != p {
					continue
				}
				for _, tt := range refTargets(canon(tv)) {
					if tt == t {
						out[p+"|"+v.ID] = true
					}
				}
			}
		}
	}
	return out
}

func (m *Model) scope(scope []string) []string {
	if len(scope) == 0 {
		return m.Names
	}
	return scope
}

func setStr(s map[string]bool) string {
	var k []string
	for x := range s {
		k = append(k, x)
	}
	sort.Strings(k)
	return strings.Join(k, ",")
}

func verStr(v *Version) string {
	if v == nil {
		return "<nil>"
	}
	return fmt.Sprintf("%s", v.Key())
}
