package proto

import (
	"bytes"
	"encoding/json"
	"fmt"
	"os"
	"reflect"
	"sort"
	"strings"
	"testing"

	"github.com/DataDog/datadog-go/v5/statsd"
	"go.uber.org/zap"
	"pgregory.net/rapid"

	"github.com/mimiro-io/datahub/internal/conf"
	"github.com/mimiro-io/datahub/internal/server"
)

var excl = map[string]bool{}

func init() {
	for _, x := range strings.Split(os.Getenv("EXCL"), ",") {
		excl[x] = true
	}
}

type hub struct {
	dir string
	s   *server.Store
	dsm *server.DsManager
	pfx string
}

func newHub() *hub {
	dir, _ := os.MkdirTemp("/dev/shm", "dhp")
	e := &conf.Config{Logger: zap.NewNop().Sugar(), StoreLocation: dir}
	s := server.NewStore(e, &statsd.NoOpClient{})
	dsm := server.NewDsManager(e, s, server.NoOpBus())
	pfx, _ := s.NamespaceManager.AssertPrefixMappingForExpansion("http://ex.org/a/")
	return &hub{dir, s, dsm, pfx}
}
func (h *hub) close() { h.s.Close(); os.RemoveAll(h.dir) }

var strPool = []string{"", "a", "bb", "cccc", "dddddddd", "0123456789abcde", "é\"q"}

func genScalar(t *rapid.T) any {
	switch rapid.IntRange(0, 3).Draw(t, "sk") {
	case 0:
		return rapid.SampledFrom(strPool).Draw(t, "s")
	case 1:
		return rapid.SampledFrom([]float64{0, 1, -1, 1.5, 42, 1e21, 123456789}).Draw(t, "n")
	case 2:
		return rapid.Bool().Draw(t, "b")
	default:
		return rapid.SampledFrom(strPool).Draw(t, "s2")
	}
}

func genValue(t *rapid.T, pfx string, depth int) any {
	k := rapid.IntRange(0, 9).Draw(t, "vk")
	switch {
	case k <= 5:
		return genScalar(t)
	case k <= 7:
		n := rapid.IntRange(0, 3).Draw(t, "alen")
		arr := make([]any, n)
		for i := range arr {
			if depth < 1 && rapid.IntRange(0, 4).Draw(t, "nestarr") == 0 {
				arr[i] = []any{genScalar(t)}
			} else {
				arr[i] = genScalar(t)
			}
		}
		return arr
	default:
		if depth >= 1 || excl["nested"] {
			return genScalar(t)
		}
		return map[string]any{
			"id":    pfx + ":n" + fmt.Sprint(rapid.IntRange(0, 1).Draw(t, "nid")),
			"props": map[string]any{pfx + ":q": genScalar(t)},
			"refs":  map[string]any{},
		}
	}
}

func genVersion(t *rapid.T, pfx string) *Version {
	v := &Version{ID: pfx + ":e" + fmt.Sprint(rapid.IntRange(0, 3).Draw(t, "id")), Props: map[string]any{}, Refs: map[string]any{}}
	np := rapid.IntRange(0, 2).Draw(t, "np")
	for i := 0; i < np; i++ {
		v.Props[pfx+":p"+fmt.Sprint(rapid.IntRange(0, 2).Draw(t, "pk"))] = genValue(t, pfx, 0)
	}
	nr := rapid.IntRange(0, 2).Draw(t, "nr")
	for i := 0; i < nr; i++ {
		rkMax := 1
		if excl["onepred"] {
			rkMax = 0
		}
		pk := pfx + ":r" + fmt.Sprint(rapid.IntRange(0, rkMax).Draw(t, "rk"))
		tgt := func() string { return pfx + ":e" + fmt.Sprint(rapid.IntRange(0, 4).Draw(t, "tgt")) }
		if rapid.Bool().Draw(t, "arr") {
			n := rapid.IntRange(1, 3).Draw(t, "rn")
			arr := make([]any, n)
			for j := range arr {
				arr[j] = tgt()
			}
			v.Refs[pk] = arr
		} else {
			v.Refs[pk] = tgt()
		}
	}
	v.Deleted = rapid.IntRange(0, 4).Draw(t, "del") == 0
	return v
}

func verJSON(v *Version) []byte {
	m := map[string]any{"id": v.ID, "props": v.Props, "refs": v.Refs}
	if v.Deleted {
		m["deleted"] = true
	}
	b, _ := json.Marshal(m)
	return b
}

func fromEntity(e *server.Entity) *Version {
	return &Version{ID: e.ID, Props: e.Properties, Refs: e.References, Deleted: e.IsDeleted}
}

func (h *hub) write(t *rapid.T, ds string, batch []*Version, viaParser bool) {
	d := h.dsm.GetDataset(ds)
	var ents []*server.Entity
	if viaParser {
		var buf bytes.Buffer
		buf.WriteString(`[{"id":"@context","namespaces":{"` + h.pfx + `":"http://ex.org/a/"}}`)
		for _, v := range batch {
			buf.WriteString(",")
			buf.Write(verJSON(v))
		}
		buf.WriteString("]")
		p := server.NewEntityStreamParser(h.s)
		if err := p.ParseStream(&buf, func(e *server.Entity) error { ents = append(ents, e); return nil }); err != nil {
			t.Fatalf("parse: %v", err)
		}
	} else {
		for _, v := range batch {
			e := &server.Entity{}
			if err := json.Unmarshal(verJSON(v), e); err != nil {
				t.Fatal(err)
			}
			ents = append(ents, e)
		}
	}
	if err := d.StoreEntities(ents); err != nil {
		t.Fatalf("store: %v", err)
	}
}

func sameVersion(a, b *Version) bool { return a.ID == b.ID && equalContent(a, b) }

func TestSM(t *testing.T) {
	rapid.Check(t, func(t *rapid.T) {
		h := newHub()
		defer h.close()
		names := []string{"a", "b"}
		if excl["oneds"] {
			names = []string{"a"}
		}
		for _, n := range names {
			h.dsm.CreateDataset(n, nil)
		}
		m := NewModel(names...)
		var hist []string
		check := func() {
			for _, n := range names {
				d := h.dsm.GetDataset(n)
				md := m.DS[n]
				// feed
				ch, err := d.GetChanges(0, 0, false)
				if err != nil {
					t.Fatalf("changes: %v", err)
				}
				if len(ch.Entities) != len(md.Feed) {
					t.Fatalf("FEED-LEN ds=%s impl=%d model=%d\nhist=%s", n, len(ch.Entities), len(md.Feed), strings.Join(hist, "\n"))
				}
				for i, e := range ch.Entities {
					if !sameVersion(fromEntity(e), md.Feed[i]) {
						t.Fatalf("FEED-CONTENT ds=%s i=%d impl=%s model=%s\nhist=%s", n, i, verStr(fromEntity(e)), verStr(md.Feed[i]), strings.Join(hist, "\n"))
					}
				}
				// latest
				r, err := d.GetEntities("", 0)
				if err != nil {
					t.Fatal(err)
				}
				if len(r.Entities) != len(md.Latest) {
					t.Fatalf("LATEST-LEN ds=%s impl=%d model=%d\nhist=%s", n, len(r.Entities), len(md.Latest), strings.Join(hist, "\n"))
				}
				for _, e := range r.Entities {
					mv := md.Latest[e.ID]
					if mv == nil || !sameVersion(fromEntity(e), mv) {
						t.Fatalf("LATEST-CONTENT ds=%s impl=%s model=%s\nhist=%s", n, verStr(fromEntity(e)), verStr(mv), strings.Join(hist, "\n"))
					}
				}
			}
			// relations
			for i := 0; i <= 4; i++ {
				id := fmt.Sprintf("%s:e%d", h.pfx, i)
				for _, pred := range []string{"*", h.pfx + ":r0", h.pfx + ":r1"} {
					for _, inv := range []bool{false, true} {
						if inv && excl["noinv"] {
							continue
						}
						for _, scope := range [][]string{nil, {"a"}, {"b"}} {
							if excl["oneds"] && len(scope) == 1 && scope[0] == "b" {
								continue
							}
							res, err := h.s.GetManyRelatedEntitiesBatch([]string{id}, pred, inv, scope, 0, true)
							got := map[string]bool{}
							dup := false
							if err != nil {
								if !strings.Contains(err.Error(), "could not load predicate") {
									t.Fatalf("query err %v", err)
								}
							}
							for _, x := range res.Relations {
								k := x.PredicateURI + "|" + x.RelatedEntity.ID
								if got[k] {
									dup = true
								}
								got[k] = true
							}
							var want map[string]bool
							if inv {
								want = m.Incoming(id, pred, scope)
							} else {
								want = m.Outgoing(id, pred, scope)
							}
							if !reflect.DeepEqual(got, want) && !(len(got) == 0 && len(want) == 0) {
								dir := "OUT"
								if inv {
									dir = "IN"
								}
								t.Fatalf("REL-%s start=%s pred=%s scope=%v got=[%s] want=[%s]\nhist=%s", dir, id, pred, scope, setStr(got), setStr(want), strings.Join(hist, "\n"))
							}
							if dup {
								t.Fatalf("REL-DUP start=%s pred=%s inv=%v scope=%v\nhist=%s", id, pred, inv, scope, strings.Join(hist, "\n"))
							}
						}
					}
				}
			}
		}
		t.Repeat(map[string]func(*rapid.T){
			"write": func(t *rapid.T) {
				ds := rapid.SampledFrom(names).Draw(t, "ds")
				n := rapid.IntRange(1, 4).Draw(t, "n")
				var batch []*Version
				for i := 0; i < n; i++ {
					v := genVersion(t, h.pfx)
					// exclusions by construction
					cur := m.DS[ds].Latest[v.ID]
					for _, b := range batch {
						if b.ID == v.ID {
							cur = b
						}
					}
					if excl["eqlen"] && cur != nil && !equalContent(cur, v) && len(verJSON(cur)) == len(verJSON(v)) {
						continue
					}
					if excl["inbatch"] {
						skip := false
						var lastSame *Version
						for _, b := range batch {
							if b.ID == v.ID {
								lastSame = b
							}
						}
						if lastSame != nil && equalContent(lastSame, v) {
							skip = true
						}
						if skip {
							continue
						}
					}
					batch = append(batch, v)
				}
				if len(batch) == 0 {
					t.Skip("empty")
				}
				viaParser := rapid.Bool().Draw(t, "parser")
				var sb []string
				for _, v := range batch {
					sb = append(sb, string(verJSON(v)))
				}
				hist = append(hist, fmt.Sprintf("write ds=%s parser=%v [%s]", ds, viaParser, strings.Join(sb, " ; ")))
				h.write(t, ds, batch, viaParser)
				m.Write(ds, batch)
			},
			"rewriteSame": func(t *rapid.T) {
				ds := rapid.SampledFrom(names).Draw(t, "ds")
				var ids []string
				for id := range m.DS[ds].Latest {
					ids = append(ids, id)
				}
				if len(ids) == 0 {
					t.Skip("none")
				}
				sort.Strings(ids)
				id := rapid.SampledFrom(ids).Draw(t, "id")
				v := m.DS[ds].Latest[id]
				viaParser := rapid.Bool().Draw(t, "parser")
				hist = append(hist, fmt.Sprintf("rewriteSame ds=%s parser=%v [%s]", ds, viaParser, string(verJSON(v))))
				h.write(t, ds, []*Version{v}, viaParser)
				m.Write(ds, []*Version{v})
			},
			"paged": func(t *rapid.T) {
				ds := rapid.SampledFrom(names).Draw(t, "ds")
				d := h.dsm.GetDataset(ds)
				lim := rapid.IntRange(1, 3).Draw(t, "lim")
				// listing
				seen := map[string]int{}
				tok := ""
				for i := 0; i < 100; i++ {
					r, err := d.GetEntities(tok, lim)
					if err != nil {
						t.Fatal(err)
					}
					for _, e := range r.Entities {
						seen[e.ID]++
					}
					if len(r.Entities) == 0 {
						break
					}
					tok = r.ContinuationToken
				}
				if len(seen) != len(m.DS[ds].Latest) {
					t.Fatalf("PAGED-LIST ds=%s lim=%d seen=%d model=%d\nhist=%s", ds, lim, len(seen), len(m.DS[ds].Latest), strings.Join(hist, "\n"))
				}
				for id, c := range seen {
					if c != 1 {
						t.Fatalf("PAGED-LIST-DUP %s x%d", id, c)
					}
				}
				// feed
				var since uint64
				n := 0
				for i := 0; i < 200; i++ {
					ch, err := d.GetChanges(since, lim, false)
					if err != nil {
						t.Fatal(err)
					}
					for _, e := range ch.Entities {
						if n >= len(m.DS[ds].Feed) || !sameVersion(fromEntity(e), m.DS[ds].Feed[n]) {
							t.Fatalf("PAGED-FEED ds=%s lim=%d pos=%d\nhist=%s", ds, lim, n, strings.Join(hist, "\n"))
						}
						n++
					}
					if len(ch.Entities) == 0 {
						if ch.NextToken != since {
							t.Fatalf("PAGED-FEED token moved on empty page")
						}
						break
					}
					since = ch.NextToken
				}
				if n != len(m.DS[ds].Feed) {
					t.Fatalf("PAGED-FEED-LEN ds=%s lim=%d got=%d model=%d\nhist=%s", ds, lim, n, len(m.DS[ds].Feed), strings.Join(hist, "\n"))
				}
				// latest only
				lo, _ := d.GetChanges(0, 0, true)
				var wantLO []*Version
				for _, v := range m.DS[ds].Feed {
					if m.DS[ds].Latest[v.ID] == v {
						wantLO = append(wantLO, v)
					}
				}
				if len(lo.Entities) != len(wantLO) {
					t.Fatalf("LATESTONLY-LEN ds=%s got=%d want=%d\nhist=%s", ds, len(lo.Entities), len(wantLO), strings.Join(hist, "\n"))
				}
				// paged relations
				if excl["nopagedrel"] {
					return
				}
				id := fmt.Sprintf("%s:e%d", h.pfx, rapid.IntRange(0, 4).Draw(t, "qid"))
				inv := rapid.Bool().Draw(t, "inv")
				if inv && excl["noinv"] {
					inv = false
				}
				full, _ := h.s.GetManyRelatedEntitiesBatch([]string{id}, "*", inv, nil, 0, true)
				want := map[string]bool{}
				for _, x := range full.Relations {
					want[x.PredicateURI+"|"+x.RelatedEntity.ID] = true
				}
				got := map[string]int{}
				res, err := h.s.GetManyRelatedEntitiesBatch([]string{id}, "*", inv, nil, lim, true)
				for i := 0; i < 100 && err == nil; i++ {
					for _, x := range res.Relations {
						got[x.PredicateURI+"|"+x.RelatedEntity.ID]++
					}
					if len(res.Cont) == 0 {
						break
					}
					res, err = h.s.GetManyRelatedEntitiesAtTime(res.Cont, lim, true)
				}
				gs := map[string]bool{}
				for k, c := range got {
					gs[k] = true
					if c != 1 {
						t.Fatalf("PAGED-REL-DUP %s x%d start=%s inv=%v lim=%d\nhist=%s", k, c, id, inv, lim, strings.Join(hist, "\n"))
					}
				}
				if !reflect.DeepEqual(gs, want) && !(len(gs) == 0 && len(want) == 0) {
					t.Fatalf("PAGED-REL start=%s inv=%v lim=%d paged=[%s] full=[%s]\nhist=%s", id, inv, lim, setStr(gs), setStr(want), strings.Join(hist, "\n"))
				}
			},
			"": func(t *rapid.T) { check() },
		})
	})
}

var _ = sort.Strings
