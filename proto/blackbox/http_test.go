package proto

import (
	"bytes"
	"encoding/json"
	"fmt"
	"net/http/httptest"
	"os"
	"strings"
	"testing"

	"github.com/DataDog/datadog-go/v5/statsd"
	"github.com/labstack/echo/v4"
	"go.uber.org/zap"
	"pgregory.net/rapid"

	"github.com/mimiro-io/datahub/internal/conf"
	"github.com/mimiro-io/datahub/internal/security"
	"github.com/mimiro-io/datahub/internal/server"
	"github.com/mimiro-io/datahub/internal/web"
)

type whub struct {
	dir string
	s   *server.Store
	dsm *server.DsManager
	e   *echo.Echo
}

func newWHub() *whub {
	dir, _ := os.MkdirTemp("/dev/shm", "dhh")
	log := zap.NewNop().Sugar()
	env := &conf.Config{Logger: log, StoreLocation: dir, Auth: &conf.AuthConfig{Middleware: "noop"}}
	st := server.NewStore(env, &statsd.NoOpClient{})
	dsm := server.NewDsManager(env, st, server.NoOpBus())
	pm := security.NewProviderManager(env, st, log)
	tps := security.NewTokenProviders(log, pm, nil)
	e := echo.New()
	mw := web.NewMiddleware(env, e, nil, log, &statsd.NoOpClient{})
	web.RegisterDatasetHandler(e, log, mw, dsm, st, server.NoOpBus(), tps)
	web.RegisterTxnHandler(e, log, mw, st)
	web.RegisterQueryHandler(e, log, mw, st, dsm)
	return &whub{dir, st, dsm, e}
}

func (h *whub) do(method, path, body string) (int, string) {
	req := httptest.NewRequest(method, path, strings.NewReader(body))
	rec := httptest.NewRecorder()
	h.e.ServeHTTP(rec, req)
	return rec.Code, rec.Body.String()
}

// client-side parse of a GET response, as a downstream hub would do it
func (h *whub) clientParse(t *rapid.T, body string, ctxOut *map[string]string) []*Version {
	// expand curies with the response context to full URIs
	var raw []json.RawMessage
	if err := json.Unmarshal([]byte(body), &raw); err != nil {
		t.Fatalf("response not json: %v\n%s", err, body)
	}
	var ctx struct {
		ID         string            `json:"id"`
		Namespaces map[string]string `json:"namespaces"`
	}
	json.Unmarshal(raw[0], &ctx)
	*ctxOut = ctx.Namespaces
	exp := func(c string) string {
		i := strings.Index(c, ":")
		if i < 0 {
			return c
		}
		if e, ok := ctx.Namespaces[c[:i]]; ok {
			return e + c[i+1:]
		}
		return "??" + c
	}
	var out []*Version
	for _, r := range raw[1:] {
		var e server.Entity
		json.Unmarshal(r, &e)
		if e.ID == "@continuation" {
			continue
		}
		v := &Version{ID: exp(e.ID), Props: map[string]any{}, Refs: map[string]any{}, Deleted: e.IsDeleted}
		for k, val := range e.Properties {
			v.Props[exp(k)] = val
		}
		for k, val := range e.References {
			switch x := val.(type) {
			case string:
				v.Refs[exp(k)] = exp(x)
			case []any:
				arr := make([]any, len(x))
				for i, y := range x {
					arr[i] = exp(y.(string))
				}
				v.Refs[exp(k)] = arr
			}
		}
		out = append(out, v)
	}
	return out
}

func TestHTTPRoundTrip(t *testing.T) {
	rapid.Check(t, func(t *rapid.T) {
		h := newWHub()
		defer func() { h.s.Close(); os.RemoveAll(h.dir) }()
		if c, b := h.do("POST", "/datasets/d1", ""); c != 200 {
			t.Fatalf("create %d %s", c, b)
		}
		// payload with three id styles
		n := rapid.IntRange(1, 14).Draw(t, "n")
		var want []*Version
		var buf bytes.Buffer
		buf.WriteString(`[{"id":"@context","namespaces":{"_":"http://ex.org/d/","x":"http://ex.org/a/","y":"http://ex.org/b#"}}`)
		seen := map[string]bool{}
		for i := 0; i < n; i++ {
			v := genVersion(t, "x")
			if seen[v.ID] {
				continue
			}
			seen[v.ID] = true
			// rewrite id style
			local := strings.TrimPrefix(v.ID, "x:")
			style := rapid.IntRange(0, 2).Draw(t, "style")
			var idOut, idFull string
			switch style {
			case 0:
				idOut, idFull = "x:"+local, "http://ex.org/a/"+local
			case 1:
				idOut, idFull = local, "http://ex.org/d/"+local
			default:
				idOut, idFull = "http://ex.org/b#"+local, "http://ex.org/b#"+local
			}
			m := map[string]any{"id": idOut, "props": v.Props, "refs": v.Refs}
			if v.Deleted {
				m["deleted"] = true
			}
			b, _ := json.Marshal(m)
			buf.WriteString(",")
			buf.Write(b)
			// expected, fully expanded
			w := &Version{ID: idFull, Props: map[string]any{}, Refs: map[string]any{}, Deleted: v.Deleted}
			ex := func(c string) string { return "http://ex.org/a/" + strings.TrimPrefix(c, "x:") }
			for k, val := range v.Props {
				w.Props[ex(k)] = expandNested(val, ex)
			}
			for k, val := range v.Refs {
				switch x := val.(type) {
				case string:
					w.Refs[ex(k)] = ex(x)
				case []any:
					arr := make([]any, len(x))
					for i, y := range x {
						arr[i] = ex(y.(string))
					}
					w.Refs[ex(k)] = arr
				}
			}
			want = append(want, w)
		}
		buf.WriteString("]")
		payload := buf.String()
		if c, b := h.do("POST", "/datasets/d1/entities", payload); c != 200 {
			t.Fatalf("post %d %s\n%s", c, b, payload)
		}
		c, body := h.do("GET", "/datasets/d1/changes", "")
		if c != 200 {
			t.Fatalf("get %d", c)
		}
		var ctx map[string]string
		got := h.clientParse(t, body, &ctx)
		if len(got) != len(want) {
			t.Fatalf("count got=%d want=%d\npayload=%s\nbody=%s", len(got), len(want), payload, body)
		}
		for i := range want {
			// nested entities in props keep curies in stored form; expand them client-side for comparison
			g := got[i]
			for k, val := range g.Props {
				g.Props[k] = expandNested(val, func(c string) string {
					j := strings.Index(c, ":")
					if j < 0 {
						return c
					}
					if e, ok := ctx[c[:j]]; ok {
						return e + c[j+1:]
					}
					return c
				})
			}
			if !sameVersion(g, want[i]) {
				t.Fatalf("entity %d differs\n got=%s\nwant=%s\npayload=%s", i, verStr(g), verStr(want[i]), payload)
			}
		}
	})
}

// expand ids/keys inside nested entity values
func expandNested(val any, ex func(string) string) any {
	switch x := val.(type) {
	case map[string]any:
		if _, ok := x["props"]; ok {
			out := map[string]any{"id": ex(fmt.Sprint(x["id"])), "refs": map[string]any{}}
			p := map[string]any{}
			if pm, ok := x["props"].(map[string]any); ok {
				for k, v := range pm {
					p[ex(k)] = expandNested(v, ex)
				}
			}
			out["props"] = p
			return out
		}
		return x
	case []any:
		arr := make([]any, len(x))
		for i, y := range x {
			arr[i] = expandNested(y, ex)
		}
		return arr
	}
	return val
}
