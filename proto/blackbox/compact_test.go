package proto

import (
	"encoding/json"
	"fmt"
	"reflect"
	"strings"
	"testing"

	"go.uber.org/zap"
	"pgregory.net/rapid"

	"github.com/mimiro-io/datahub/internal/server"
	ds "github.com/mimiro-io/datahub/internal/service/dataset"
)

type cdump struct {
	Feed     []string
	FeedRec  []uint64
	Latest   map[string]string
	LatestLO []string
	Snaps    []*snap
}

func (h *hub) cdump(t *rapid.T, times []int64) *cdump {
	d := h.dsm.GetDataset("a")
	out := &cdump{Latest: map[string]string{}}
	ch, err := d.GetChanges(0, 0, false)
	if err != nil {
		t.Fatalf("changes: %v", err)
	}
	for _, e := range ch.Entities {
		out.Feed = append(out.Feed, fromEntity(e).Key())
		out.FeedRec = append(out.FeedRec, e.Recorded)
	}
	r, _ := d.GetEntities("", 0)
	for _, e := range r.Entities {
		out.Latest[e.ID] = fromEntity(e).Key()
	}
	lo, _ := d.GetChanges(0, 0, true)
	for _, e := range lo.Entities {
		out.LatestLO = append(out.LatestLO, fromEntity(e).Key())
	}
	out.Snaps = append(out.Snaps, h.takeSnap(t, []string{"a"}, 0, false))
	for _, at := range times {
		out.Snaps = append(out.Snaps, h.takeSnap(t, []string{"a"}, at, true))
	}
	return out
}

func TestCompactInvisible(t *testing.T) {
	rapid.Check(t, func(t *rapid.T) {
		h := newHub()
		defer h.close()
		h.dsm.CreateDataset("a", nil)
		h.dsm.CreateDataset("b", nil) // so scopes {"b"} in takeSnap resolve
		flush := rapid.SampledFrom([]int{1, 2, 3, 100000}).Draw(t, "flush")
		var hist []string
		var times []int64
		m := NewModel("a")
		nw := rapid.IntRange(2, 12).Draw(t, "writes")
		for i := 0; i < nw; i++ {
			// small value space so that values flip back and refs are kept across prop changes
			v := &Version{ID: h.pfx + ":e" + fmt.Sprint(rapid.IntRange(0, 1).Draw(t, "id")), Props: map[string]any{}, Refs: map[string]any{}}
			v.Props[h.pfx+":p"] = rapid.SampledFrom([]string{"A", "BB", "CCC", "DDDD", "EEEEE"}).Draw(t, "pv")
			if rapid.IntRange(0, 3).Draw(t, "hasref") > 0 {
				v.Refs[h.pfx+":r0"] = h.pfx + ":e" + fmt.Sprint(rapid.IntRange(2, 3).Draw(t, "tgt"))
			}
			v.Deleted = rapid.IntRange(0, 5).Draw(t, "del") == 0
			cur := m.DS["a"].Latest[v.ID]
			if cur != nil && !equalContent(cur, v) && len(verJSON(cur)) == len(verJSON(v)) {
				continue // known eq-len shape
			}
			if excl["noflipback"] {
				dup := false
				for _, old := range m.DS["a"].Feed {
					if old.ID == v.ID && equalContent(old, v) && old != cur {
						dup = true
					}
				}
				if dup {
					continue
				}
			}
			hist = append(hist, "write "+string(verJSON(v)))
			h.write(t, "a", []*Version{v}, false)
			m.Write("a", []*Version{v})
		}
		d := h.dsm.GetDataset("a")
		ch, _ := d.GetChanges(0, 0, false)
		for _, e := range ch.Entities {
			times = append(times, int64(e.Recorded), int64(e.Recorded)+1)
		}
		before := h.cdump(t, times)
		c := ds.NewCompactor(h.s, h.dsm, zap.NewNop().Sugar())
		if err := c.VerifCompact("a", flush); err != nil {
			t.Fatalf("compact: %v", err)
		}
		after := h.cdump(t, times)
		fail := func(what string) {
			b, _ := json.Marshal(before.Feed)
			a, _ := json.Marshal(after.Feed)
			t.Fatalf("%s flush=%d\nfeed before=%s\nfeed after =%s\nhist=%s", what, flush, b, a, strings.Join(hist, "\n"))
		}
		if !reflect.DeepEqual(before.Latest, after.Latest) {
			fail("LATEST changed")
		}
		if !reflect.DeepEqual(before.LatestLO, after.LatestLO) {
			fail("LATESTONLY changed")
		}
		// feed: no write-path duplicates exist here, so feed must be unchanged (subset with only dups removed => identical)
		if !reflect.DeepEqual(before.Feed, after.Feed) {
			fail("FEED changed")
		}
		for i := range before.Snaps {
			if !reflect.DeepEqual(before.Snaps[i].Rels, after.Snaps[i].Rels) {
				for k, w := range before.Snaps[i].Rels {
					if after.Snaps[i].Rels[k] != w {
						fail(fmt.Sprintf("REL snap %d (at=%d) key=%s before=[%s] after=[%s]", i, before.Snaps[i].T, k, w, after.Snaps[i].Rels[k]))
					}
				}
			}
			if !reflect.DeepEqual(before.Snaps[i].Lookups, after.Snaps[i].Lookups) {
				for k, w := range before.Snaps[i].Lookups {
					if after.Snaps[i].Lookups[k] != w {
						fail(fmt.Sprintf("LOOKUP snap %d (at=%d) key=%s before=%s after=%s", i, before.Snaps[i].T, k, w, after.Snaps[i].Lookups[k]))
					}
				}
			}
		}
	})
}

var _ = server.NewEntity
