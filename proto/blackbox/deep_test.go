package proto

import (
	"os"
	"strconv"
	"strings"
	"testing"

	"github.com/mimiro-io/datahub/internal/server"
)

func TestDeep(t *testing.T) {
	d := os.Getenv("DEPTH")
	if d == "" {
		t.Skip()
	}
	n, _ := strconv.Atoi(d)
	h := newHub()
	defer h.close()
	payload := `[{"id":"@context","namespaces":{"_":"http://ex.org/"}},{"id":"a","props":{"p":` + strings.Repeat("[", n) + strings.Repeat("]", n) + `}}]`
	p := server.NewEntityStreamParser(h.s)
	cnt := 0
	err := p.ParseStream(strings.NewReader(payload), func(e *server.Entity) error { cnt++; return nil })
	t.Logf("depth=%d err=%v entities=%d", n, err, cnt)
}
