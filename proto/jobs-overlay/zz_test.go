package jobs

import (
	"testing"

	"pgregory.net/rapid"
)

func TestVerifOverlay(t *testing.T) {
	rapid.Check(t, func(t *rapid.T) {
		n := rapid.IntRange(0, 5).Draw(t, "n")
		w := &wrappedSink{s: &devNullSink{}}
		if err := w.processEntities(nil, nil); err != nil || n < 0 {
			t.Fatal(err)
		}
	})
}
