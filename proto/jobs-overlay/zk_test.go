package jobs

import (
	"encoding/base64"
	"fmt"
	"testing"

	"github.com/mimiro-io/datahub/internal/server"
)

func TestVerifLogHandlerTransform(t *testing.T) {
	js := base64.StdEncoding.EncodeToString([]byte(`function transform_entities(entities) { return entities; }`))
	s, _, dsm, done := vhub(t)
	defer done()
	src, _ := dsm.CreateDataset("src", nil)
	dsm.CreateDataset("sink", nil)
	e := server.NewEntity("ns0:e1", 0)
	src.StoreEntities([]*server.Entity{e})
	cfgJSON := fmt.Sprintf(`{"id":"j1","title":"j1","triggers":[{"triggerType":"cron","jobType":"incremental","schedule":"@every 1h","onError":[{"errorHandler":"log","maxItems":5}]}],
	 "source":{"Type":"DatasetSource","Name":"src"},
	 "transform":{"Type":"JavascriptTransform","Code":"%s"},
	 "sink":{"Type":"DatasetSink","Name":"sink"}}`, js)
	cfg, _ := s.Parse([]byte(cfgJSON))
	if err := s.AddJob(cfg); err != nil {
		t.Fatal(err)
	}
	jobs, err := s.toTriggeredJobs(cfg)
	if err != nil {
		t.Fatal(err)
	}
	t.Logf("handlers: %d type=%q feh=%v", len(jobs[0].errorHandlers), jobs[0].errorHandlers[0].Type, jobs[0].errorHandlers[0].failingEntityHandler != nil)
	jobs[0].Run()
	t.Logf("survived")
}
