package server_test

import (
	"testing"

	"github.com/mimiro-io/datahub/internal/verifkit"
)

func TestVerifKit(t *testing.T) {
	if verifkit.Hello() != "hi" {
		t.Fatal("x")
	}
}
