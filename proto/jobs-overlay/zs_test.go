package jobs

import (
	"errors"
	"context"
	"fmt"
	"testing"

	"go.uber.org/zap"

	"github.com/mimiro-io/datahub/internal/server"
)

type scriptSink struct {
	fail      map[string]bool
	delivered []string
	calls     int
	events    []string
}

func (s *scriptSink) GetConfig() map[string]interface{} { return map[string]interface{}{"Type": "DevNullSink"} }
func (s *scriptSink) processEntities(runner *Runner, entities []*server.Entity) error {
	s.calls++
	for _, e := range entities {
		if s.fail[e.ID] {
			return errors.New("sink rejects " + e.ID)
		}
	}
	for _, e := range entities {
		s.delivered = append(s.delivered, e.ID)
		s.events = append(s.events, "D:"+e.ID)
	}
	return nil
}
func (s *scriptSink) startFullSync(runner *Runner) error                    { return nil }
func (s *scriptSink) endFullSync(ctx context.Context, runner *Runner) error { return nil }

type recHandler struct {
	inner  failingEntityHandler
	report []string
	sink   *scriptSink
}

func (r *recHandler) handleFailingEntity(runner *Runner, entity *server.Entity, jobId string) error {
	r.report = append(r.report, entity.ID)
	r.sink.events = append(r.sink.events, "R:"+entity.ID)
	return r.inner.handleFailingEntity(runner, entity, jobId)
}
func (r *recHandler) reset() { r.inner.reset() }

func TestVerifBisect(t *testing.T) {
	runner := &Runner{logger: zap.NewNop().Sugar()}
	cases, bad := 0, 0
	for n := 1; n <= 7; n++ {
		for mask := 0; mask < 1<<n; mask++ {
			for maxItems := 0; maxItems <= n+1; maxItems++ {
				cases++
				var batch []*server.Entity
				fail := map[string]bool{}
				nf := 0
				for i := 0; i < n; i++ {
					id := fmt.Sprintf("e%d", i)
					batch = append(batch, server.NewEntity(id, 0))
					if mask&(1<<i) != 0 {
						fail[id] = true
						nf++
					}
				}
				sink := &scriptSink{fail: fail}
				h := &recHandler{inner: &LogFailingEntityHandler{MaxItems: maxItems}, sink: sink}
				w := &wrappedSink{s: sink, failingEntityHandlers: []failingEntityHandler{h}, jobId: "j"}
				err := w.processEntities(runner, batch)
				// oracle
				stop := maxItems > 0 && nf >= maxItems
				problem := ""
				seenRep := map[string]int{}
				for _, id := range h.report {
					seenRep[id]++
					if !fail[id] {
						problem = "reported non-failing " + id
					}
					if seenRep[id] > 1 {
						problem = "reported twice " + id
					}
				}
				del := map[string]int{}
				for _, id := range sink.delivered {
					del[id]++
					if fail[id] {
						problem = "delivered failing " + id
					}
					if del[id] > 1 {
						problem = "delivered twice " + id
					}
				}
				if !stop {
					if err != nil {
						problem = fmt.Sprintf("unexpected err %v", err)
					}
					if len(h.report) != nf {
						problem = fmt.Sprintf("reports=%d want=%d", len(h.report), nf)
					}
					if len(del) != n-nf {
						problem = fmt.Sprintf("delivered=%d want=%d", len(del), n-nf)
					}
					if nf > 0 && w.lastError == nil {
						problem = "lastError not set"
					}
				} else {
					if !errors.Is(err, MaxItemsExceededError) {
						problem = fmt.Sprintf("want MaxItemsExceeded got %v", err)
					}
					if len(h.report) != maxItems {
						problem = fmt.Sprintf("reports=%d want maxItems=%d", len(h.report), maxItems)
					}
					// nothing delivered after the maxItems-th report
					cnt := 0
					after := false
					for _, ev := range sink.events {
						if ev[0] == 'R' {
							cnt++
							if cnt == maxItems {
								after = true
							}
						} else if after {
							problem = "delivered after stop: " + ev
						}
					}
					if w.lastError == nil {
						problem = "lastError not set on stop"
					}
				}
				if problem != "" {
					bad++
					if bad <= 5 {
						t.Logf("n=%d mask=%b maxItems=%d: %s (events=%v err=%v)", n, mask, maxItems, problem, sink.events, err)
					}
				}
			}
		}
	}
	t.Logf("cases=%d bad=%d", cases, bad)
}
