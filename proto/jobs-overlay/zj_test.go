package jobs

import (
	"encoding/base64"
	"fmt"
	"os"
	"testing"

	"github.com/DataDog/datadog-go/v5/statsd"
	"go.uber.org/zap"

	"github.com/mimiro-io/datahub/internal/conf"
	"github.com/mimiro-io/datahub/internal/security"
	"github.com/mimiro-io/datahub/internal/server"
)

func vhub(t any) (*Scheduler, *server.Store, *server.DsManager, func()) {
	dir, _ := os.MkdirTemp("/dev/shm", "dhj")
	lg := zap.NewNop().Sugar()
	e := &conf.Config{Logger: lg, StoreLocation: dir, RunnerConfig: &conf.RunnerConfig{PoolIncremental: 10, PoolFull: 5}}
	devNull, _ := os.Open("/dev/null")
	old := os.Stdout
	os.Stdout = devNull
	store := server.NewStore(e, &statsd.NoOpClient{})
	pm := security.NewProviderManager(e, store, lg)
	tps := security.NewTokenProviders(lg, pm, nil)
	runner := NewRunner(e, store, tps, server.NoOpBus(), &statsd.NoOpClient{})
	dsm := server.NewDsManager(e, store, server.NoOpBus())
	s := NewScheduler(e, store, dsm, runner)
	os.Stdout = old
	return s, store, dsm, func() { runner.Stop(); store.Close(); os.RemoveAll(dir) }
}

func TestVerifChunk(t *testing.T) {
	js := base64.StdEncoding.EncodeToString([]byte(`function transform_entities(entities) { return entities; }`))
	for _, c := range [][2]int{{19, 10}, {7, 3}, {4, 3}, {9, 4}, {10, 7}, {5, 2}} {
		n, p := c[0], c[1]
		func() {
			s, _, dsm, done := vhub(t)
			defer done()
			src, _ := dsm.CreateDataset("src", nil)
			sink, _ := dsm.CreateDataset("sink", nil)
			var es []*server.Entity
			for i := 0; i < n; i++ {
				e := server.NewEntity(fmt.Sprintf("ns0:e%d", i), 0)
				e.Properties["ns0:v"] = i
				es = append(es, e)
			}
			src.StoreEntities(es)
			cfgJSON := fmt.Sprintf(`{"id":"j1","title":"j1","triggers":[{"triggerType":"cron","jobType":"incremental","schedule":"@every 1h"}],
			 "source":{"Type":"DatasetSource","Name":"src"},
			 "transform":{"Type":"JavascriptTransform","Code":"%s","Parallelism":%d},
			 "sink":{"Type":"DatasetSink","Name":"sink"}}`, js, p)
			cfg, err := s.Parse([]byte(cfgJSON))
			if err != nil {
				t.Fatal(err)
			}
			jobs, err := s.toTriggeredJobs(cfg)
			if err != nil {
				t.Fatal(err)
			}
			func() {
				defer func() {
					if r := recover(); r != nil {
						t.Logf("n=%d p=%d PANIC %v", n, p, r)
					}
				}()
				jobs[0].Run()
			}()
			r, _ := sink.GetEntities("", 0)
			hist := s.GetJobHistory()
			le := ""
			if len(hist) > 0 {
				le = hist[0].LastError
			}
			t.Logf("n=%d p=%d sink=%d lastErr=%q tickets=%d running=%d", n, p, len(r.Entities), le, s.Runner.raffle.ticketsIncr, len(s.Runner.raffle.runningJobs))
		}()
	}
}
