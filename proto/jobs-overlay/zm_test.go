package jobs

import (
	"context"
	"encoding/json"
	"fmt"
	"sort"
	"strings"
	"testing"

	"pgregory.net/rapid"

	"github.com/mimiro-io/datahub/internal/server"
)

type recSink struct{ got []string }

func (r *recSink) GetConfig() map[string]interface{} { return map[string]interface{}{"Type": "DevNullSink"} }
func (r *recSink) processEntities(runner *Runner, entities []*server.Entity) error {
	for _, e := range entities {
		r.got = append(r.got, e.ID)
	}
	return nil
}
func (r *recSink) startFullSync(runner *Runner) error                    { return nil }
func (r *recSink) endFullSync(ctx context.Context, runner *Runner) error { return nil }

type mEnt struct {
	refs    map[string]string // pred -> target id
	deleted bool
}

func TestVerifMulti(t *testing.T) {
	rapid.Check(t, func(t *rapid.T) {
		s, _, dsm, done := vhub(nil)
		defer done()
		mainDs, _ := dsm.CreateDataset("main", nil)
		depDs, _ := dsm.CreateDataset("dep", nil)
		shape := rapid.SampledFrom([]string{"A", "B", "C"}).Draw(t, "shape")
		linkDs, _ := dsm.CreateDataset("link", nil)
		batch := rapid.IntRange(1, 4).Draw(t, "batch")
		var deps string
		if shape == "A" { // main --p--> dep ; from dep follow p inverse into main
			deps = `[{"dataset":"dep","joins":[{"dataset":"main","predicate":"ns0:p","inverse":true}]}]`
		} else if shape == "C" { // dep <--r-- link --s--> main
			deps = `[{"dataset":"dep","joins":[{"dataset":"link","predicate":"ns0:r","inverse":true},{"dataset":"main","predicate":"ns0:s","inverse":false}]}]`
		} else { // dep --q--> main ; from dep follow q outgoing into main
			deps = `[{"dataset":"dep","joins":[{"dataset":"main","predicate":"ns0:q","inverse":false}]}]`
		}
		cfgJSON := fmt.Sprintf(`{"id":"j1","title":"j1","batchSize":%d,"triggers":[{"triggerType":"cron","jobType":"incremental","schedule":"@every 1h"}],
		 "source":{"Type":"MultiSource","Name":"main","Dependencies":%s},
		 "sink":{"Type":"DevNullSink"}}`, batch, deps)
		cfg, err := s.Parse([]byte(cfgJSON))
		if err != nil {
			t.Fatal(err)
		}
		jobs, err := s.toTriggeredJobs(cfg)
		if err != nil {
			t.Fatal(err)
		}
		j := jobs[0]
		rec := &recSink{}
		j.pipeline.spec().sink = rec

		mainM := map[string]*mEnt{}
		depM := map[string]*mEnt{}
		prevDepM := map[string]*mEnt{} // dep state at previous fixpoint
		linkM := map[string]*mEnt{}
		prevLinkM := map[string]*mEnt{}
		changedLink := map[string]bool{}
		changedMain := map[string]bool{}
		changedDep := map[string]bool{}
		var hist []string

		store := func(ds *server.Dataset, id string, e *mEnt, v int) {
			en := server.NewEntity(id, 0)
			en.Properties["ns0:v"] = v
			for p, tgt := range e.refs {
				en.References[p] = tgt
			}
			en.IsDeleted = e.deleted
			b, _ := json.Marshal(en)
			en2 := &server.Entity{}
			json.Unmarshal(b, en2)
			if err := ds.StoreEntities([]*server.Entity{en2}); err != nil {
				t.Fatal(err)
			}
		}
		ver := 0
		// exclusion: dependency dataset must not be empty at the first run (GetChangesWatermark defect)
		store(depDs, "ns0:seed", &mEnt{refs: map[string]string{}}, 0)
		store(linkDs, "ns0:seedl", &mEnt{refs: map[string]string{}}, 0)
		t.Repeat(map[string]func(*rapid.T){
			"writeMain": func(t *rapid.T) {
				id := fmt.Sprintf("ns0:m%d", rapid.IntRange(0, 3).Draw(t, "m"))
				e := &mEnt{refs: map[string]string{}}
				if shape == "A" && rapid.IntRange(0, 3).Draw(t, "hasref") > 0 {
					e.refs["ns0:p"] = fmt.Sprintf("ns0:d%d", rapid.IntRange(0, 3).Draw(t, "d"))
				}
				e.deleted = rapid.IntRange(0, 5).Draw(t, "del") == 0
				ver++
				hist = append(hist, fmt.Sprintf("writeMain %s refs=%v del=%v", id, e.refs, e.deleted))
				store(mainDs, id, e, ver)
				mainM[id] = e
				changedMain[id] = true
			},
			"writeDep": func(t *rapid.T) {
				id := fmt.Sprintf("ns0:d%d", rapid.IntRange(0, 3).Draw(t, "d"))
				e := &mEnt{refs: map[string]string{}}
				if shape == "B" && rapid.IntRange(0, 3).Draw(t, "hasref") > 0 {
					e.refs["ns0:q"] = fmt.Sprintf("ns0:m%d", rapid.IntRange(0, 3).Draw(t, "m"))
				}
				e.deleted = rapid.IntRange(0, 5).Draw(t, "del") == 0
				ver++
				hist = append(hist, fmt.Sprintf("writeDep %s refs=%v del=%v", id, e.refs, e.deleted))
				store(depDs, id, e, ver)
				depM[id] = e
				changedDep[id] = true
			},
			"writeLink": func(t *rapid.T) {
				if shape != "C" {
					t.Skip("n/a")
				}
				id := fmt.Sprintf("ns0:l%d", rapid.IntRange(0, 3).Draw(t, "l"))
				e := &mEnt{refs: map[string]string{}}
				if rapid.IntRange(0, 3).Draw(t, "hasr") > 0 {
					e.refs["ns0:r"] = fmt.Sprintf("ns0:d%d", rapid.IntRange(0, 3).Draw(t, "d"))
				}
				if rapid.IntRange(0, 3).Draw(t, "hass") > 0 {
					e.refs["ns0:s"] = fmt.Sprintf("ns0:m%d", rapid.IntRange(0, 3).Draw(t, "m"))
				}
				e.deleted = rapid.IntRange(0, 5).Draw(t, "del") == 0
				ver++
				hist = append(hist, fmt.Sprintf("writeLink %s refs=%v del=%v", id, e.refs, e.deleted))
				store(linkDs, id, e, ver)
				linkM[id] = e
				changedLink[id] = true
			},
			"runToFixpoint": func(t *rapid.T) {
				rec.got = nil
				lastTok := "<none>"
				runs := 0
				for ; runs < 40; runs++ {
					j.Run()
					st, _ := s.GetJobState("j1")
					if st.ContinuationToken == lastTok {
						break
					}
					lastTok = st.ContinuationToken
				}
				if runs >= 40 {
					t.Fatalf("no fixpoint")
				}
				emitted := map[string]bool{}
				for _, id := range rec.got {
					emitted[id] = true
					if !strings.HasPrefix(id, "ns0:m") {
						t.Fatalf("EMIT-NOT-MAIN %s\nhist=%s", id, strings.Join(hist, "\n"))
					}
				}
				live := func(id string) bool { e := mainM[id]; return e != nil && !e.deleted }
				expected := map[string]string{}
				for id := range changedMain {
					expected[id] = "changed main"
				}
				for d := range changedDep {
					if shape == "C" {
						for _, le := range linkM {
							if !le.deleted && le.refs["ns0:r"] == d {
								if tgt, ok := le.refs["ns0:s"]; ok && live(tgt) {
									expected[tgt] = "via link from changed dep " + d
								}
							}
						}
					} else if shape == "A" {
						for mid, me := range mainM {
							if !me.deleted && me.refs["ns0:p"] == d {
								expected[mid] = "refs changed dep " + d
							}
						}
					} else {
						if de := depM[d]; de != nil && !de.deleted {
							if tgt, ok := de.refs["ns0:q"]; ok && live(tgt) {
								expected[tgt] = "target of changed dep " + d
							}
						}
						if pe := prevDepM[d]; pe != nil && !pe.deleted {
							if tgt, ok := pe.refs["ns0:q"]; ok && live(tgt) {
								expected[tgt] = "previous target of changed dep " + d
							}
						}
					}
				}
				for l := range changedLink {
					if le := linkM[l]; le != nil && !le.deleted {
						if tgt, ok := le.refs["ns0:s"]; ok && live(tgt) {
							expected[tgt] = "target of changed link " + l
						}
					}
					if pe := prevLinkM[l]; pe != nil && !pe.deleted {
						if tgt, ok := pe.refs["ns0:s"]; ok && live(tgt) {
							expected[tgt] = "previous target of changed link " + l
						}
					}
				}
				var missing []string
				for id, why := range expected {
					if !emitted[id] {
						missing = append(missing, id+" ("+why+")")
					}
				}
				sort.Strings(missing)
				hist = append(hist, fmt.Sprintf("run x%d emitted=%v", runs+1, rec.got))
				if len(missing) > 0 {
					t.Fatalf("MISSING %v shape=%s batch=%d\nhist=%s", missing, shape, batch, strings.Join(hist, "\n"))
				}
				changedMain = map[string]bool{}
				changedDep = map[string]bool{}
				prevDepM = map[string]*mEnt{}
				for k, v := range depM {
					prevDepM[k] = v
				}
				changedLink = map[string]bool{}
				prevLinkM = map[string]*mEnt{}
				for k, v := range linkM {
					prevLinkM[k] = v
				}
			},
		})
	})
}
