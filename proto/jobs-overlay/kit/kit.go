package verifkit

func Hello() string { return "hi" }
