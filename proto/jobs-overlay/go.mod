module github.com/mimiro-io/datahub

go 1.23.1

require (
	github.com/DataDog/datadog-go/v5 v5.5.0
	github.com/bamzi/jobrunner v1.0.0
	github.com/dgraph-io/badger/v4 v4.2.0
	github.com/dgraph-io/ristretto v0.1.1
	github.com/gofrs/uuid v4.4.0+incompatible
	github.com/gojektech/heimdall/v6 v6.1.0
	github.com/golang-jwt/jwt/v4 v4.5.0
	github.com/google/uuid v1.6.0
	github.com/labstack/echo/v4 v4.12.0
	github.com/lestrrat-go/jwx/v2 v2.1.1
	github.com/mimiro-io/entity-graph-data-model v0.7.9
	github.com/mimiro-io/goja v1.1.1
	github.com/mustafaturan/bus v1.0.2
	github.com/mustafaturan/monoton v1.0.0
	github.com/onsi/ginkgo/v2 v2.20.2
	github.com/onsi/gomega v1.34.2
	github.com/pkg/errors v0.9.1
	github.com/robfig/cron/v3 v3.0.1
	github.com/spf13/viper v1.19.0
	go.uber.org/zap v1.27.0
	golang.org/x/oauth2 v0.23.0
	golang.org/x/sync v0.8.0
)

require (
	github.com/Microsoft/go-winio v0.6.2 // indirect
	github.com/cespare/xxhash/v2 v2.3.0 // indirect
	github.com/davecgh/go-spew v1.1.2-0.20180830191138-d8f796af33cc // indirect
	github.com/decred/dcrd/dcrec/secp256k1/v4 v4.3.0 // indirect
	github.com/dlclark/regexp2 v1.11.4 // indirect
	github.com/dustin/go-humanize v1.0.1 // indirect
	github.com/fsnotify/fsnotify v1.7.0 // indirect
	github.com/go-logr/logr v1.4.2 // indirect
	github.com/go-sourcemap/sourcemap v2.1.4+incompatible // indirect
	github.com/go-task/slim-sprig/v3 v3.0.0 // indirect
	github.com/goccy/go-json v0.10.3 // indirect
	github.com/gogo/protobuf v1.3.2 // indirect
	github.com/gojektech/valkyrie v0.0.0-20190210220504-8f62c1e7ba45 // indirect
	github.com/golang-jwt/jwt v3.2.2+incompatible // indirect
	github.com/golang/glog v1.0.0 // indirect
	github.com/golang/groupcache v0.0.0-20210331224755-41bb18bfe9da // indirect
	github.com/golang/protobuf v1.5.4 // indirect
	github.com/golang/snappy v0.0.3 // indirect
	github.com/google/flatbuffers v24.3.25+incompatible // indirect
	github.com/google/go-cmp v0.6.0 // indirect
	github.com/google/pprof v0.0.0-20240910150728-a0b0bb1d4134 // indirect
	github.com/hashicorp/hcl v1.0.0 // indirect
	github.com/klauspost/compress v1.17.9 // indirect
	github.com/labstack/gommon v0.4.2 // indirect
	github.com/lestrrat-go/blackmagic v1.0.2 // indirect
	github.com/lestrrat-go/httpcc v1.0.1 // indirect
	github.com/lestrrat-go/httprc v1.0.6 // indirect
	github.com/lestrrat-go/iter v1.0.2 // indirect
	github.com/lestrrat-go/option v1.0.1 // indirect
	github.com/magiconair/properties v1.8.7 // indirect
	github.com/mattn/go-colorable v0.1.13 // indirect
	github.com/mattn/go-isatty v0.0.20 // indirect
	github.com/mitchellh/mapstructure v1.5.0 // indirect
	github.com/pelletier/go-toml/v2 v2.2.3 // indirect
	github.com/pmezard/go-difflib v1.0.1-0.20181226105442-5d4384ee4fb2 // indirect
	github.com/sagikazarmark/locafero v0.6.0 // indirect
	github.com/sagikazarmark/slog-shim v0.1.0 // indirect
	github.com/segmentio/asm v1.2.0 // indirect
	github.com/sourcegraph/conc v0.3.0 // indirect
	github.com/spf13/afero v1.11.0 // indirect
	github.com/spf13/cast v1.7.0 // indirect
	github.com/spf13/pflag v1.0.5 // indirect
	github.com/stretchr/objx v0.5.2 // indirect
	github.com/stretchr/testify v1.9.0 // indirect
	github.com/subosito/gotenv v1.6.0 // indirect
	github.com/valyala/bytebufferpool v1.0.0 // indirect
	github.com/valyala/fasttemplate v1.2.2 // indirect
	go.opencensus.io v0.24.0 // indirect
	go.uber.org/multierr v1.11.0 // indirect
	golang.org/x/crypto v0.27.0 // indirect
	golang.org/x/exp v0.0.0-20240909161429-701f63a606c0 // indirect
	golang.org/x/net v0.29.0 // indirect
	golang.org/x/sys v0.25.0 // indirect
	golang.org/x/text v0.18.0 // indirect
	golang.org/x/time v0.6.0 // indirect
	golang.org/x/tools v0.25.0 // indirect
	google.golang.org/protobuf v1.34.2 // indirect
	gopkg.in/ini.v1 v1.67.0 // indirect
	gopkg.in/yaml.v3 v3.0.1 // indirect
	pgregory.net/rapid v1.3.0
)
