package dataset

import (
	"encoding/json"
	"os"
	"testing"

	"github.com/DataDog/datadog-go/v5/statsd"
	"go.uber.org/zap"

	"github.com/mimiro-io/datahub/internal/conf"
	"github.com/mimiro-io/datahub/internal/server"
)

func TestVerifCompactPrev(t *testing.T) {
	dir, _ := os.MkdirTemp("/dev/shm", "dhc")
	defer os.RemoveAll(dir)
	e := &conf.Config{Logger: zap.NewNop().Sugar(), StoreLocation: dir}
	s := server.NewStore(e, &statsd.NoOpClient{})
	dsm := server.NewDsManager(e, s, server.NoOpBus())
	ds, _ := dsm.CreateDataset("a", nil)
	mk := func(v string) *server.Entity {
		en := server.NewEntity("ns0:x", 0)
		en.Properties["ns0:p"] = v
		en.References["ns0:r"] = "ns0:t"
		return en
	}
	ds.StoreEntities([]*server.Entity{mk("A")})
	ds.StoreEntities([]*server.Entity{mk("B")})
	ds.StoreEntities([]*server.Entity{mk("A")})
	dump := func(label string) {
		ch, _ := ds.GetChanges(0, 0, false)
		for _, en := range ch.Entities {
			b, _ := json.Marshal(en)
			t.Logf("%s feed: %s", label, b)
		}
		r, _ := ds.GetEntities("", 0)
		for _, en := range r.Entities {
			b, _ := json.Marshal(en)
			t.Logf("%s latest: %s", label, b)
		}
		lo, _ := ds.GetChanges(0, 0, true)
		t.Logf("%s latestOnly n=%d", label, len(lo.Entities))
		q, _ := s.GetManyRelatedEntities([]string{"ns0:t"}, "*", true, nil, true)
		t.Logf("%s incoming(t) n=%d", label, len(q))
	}
	dump("before")
	c := NewCompactor(s, dsm, zap.NewNop().Sugar())
	st := DeduplicationStrategy()
	if err := c.compact("a", st); err != nil {
		t.Fatal(err)
	}
	dump("after")
}
