package jobs

import (
	"encoding/json"
	"fmt"
	"reflect"
	"strings"
	"testing"

	"pgregory.net/rapid"

	"github.com/mimiro-io/datahub/internal/server"
)

func entKey(e *server.Entity) string {
	b, _ := json.Marshal([]any{e.ID, e.Properties, e.References, e.IsDeleted})
	return string(b)
}

func TestVerifCopy(t *testing.T) {
	rapid.Check(t, func(t *rapid.T) {
		s, _, dsm, done := vhub(nil)
		defer done()
		src, _ := dsm.CreateDataset("src", nil)
		sink, _ := dsm.CreateDataset("sink", nil)
		batch := rapid.IntRange(1, 5).Draw(t, "batch")
		latestOnly := rapid.Bool().Draw(t, "latestOnly")
		jobType := rapid.SampledFrom([]string{"incremental", "fullsync"}).Draw(t, "jobType")
		cfgJSON := fmt.Sprintf(`{"id":"j1","title":"j1","batchSize":%d,"triggers":[{"triggerType":"cron","jobType":"%s","schedule":"@every 1h"}],
		 "source":{"Type":"DatasetSource","Name":"src","LatestOnly":%v},
		 "sink":{"Type":"DatasetSink","Name":"sink"}}`, batch, jobType, latestOnly)
		cfg, err := s.Parse([]byte(cfgJSON))
		if err != nil {
			t.Fatal(err)
		}
		jobs, err := s.toTriggeredJobs(cfg)
		if err != nil {
			t.Fatal(err)
		}
		j := jobs[0]
		var hist []string
		ver := 0
		t.Repeat(map[string]func(*rapid.T){
			"write": func(t *rapid.T) {
				n := rapid.IntRange(1, 4).Draw(t, "n")
				var es []*server.Entity
				var sb []string
				used := map[string]bool{}
				for i := 0; i < n; i++ {
					ver++
					e := server.NewEntity(fmt.Sprintf("ns0:e%d", rapid.IntRange(0, 3).Draw(t, "id")), 0)
					if used[e.ID] {
						continue
					}
					used[e.ID] = true
					e.Properties["ns0:v"] = float64(rapid.IntRange(0, 2).Draw(t, "v"))
					if rapid.Bool().Draw(t, "ref") {
						e.References["ns0:r"] = fmt.Sprintf("ns0:e%d", rapid.IntRange(0, 3).Draw(t, "t"))
					}
					e.IsDeleted = rapid.IntRange(0, 4).Draw(t, "del") == 0
					es = append(es, e)
					sb = append(sb, entKey(e))
				}
				hist = append(hist, "write "+strings.Join(sb, " ; "))
				if err := src.StoreEntities(es); err != nil {
					t.Fatal(err)
				}
			},
			"run": func(t *rapid.T) {
				j.Run()
				h := s.GetJobHistory()
				if len(h) == 0 || h[0].LastError != "" {
					t.Fatalf("run failed: %+v", h)
				}
				hist = append(hist, "run")
				a, _ := src.GetEntities("", 0)
				b, _ := sink.GetEntities("", 0)
				am := map[string]string{}
				bm := map[string]string{}
				for _, e := range a.Entities {
					am[e.ID] = entKey(e)
				}
				for _, e := range b.Entities {
					bm[e.ID] = entKey(e)
				}
				if !reflect.DeepEqual(am, bm) && !(len(am) == 0 && len(bm) == 0) {
					t.Fatalf("DIVERGED batch=%d latestOnly=%v type=%s\nsrc=%v\nsink=%v\nhist=%s", batch, latestOnly, jobType, am, bm, strings.Join(hist, "\n"))
				}
				if !latestOnly && jobType == "incremental" {
					ca, _ := src.GetChanges(0, 0, false)
					cb, _ := sink.GetChanges(0, 0, false)
					if len(ca.Entities) != len(cb.Entities) {
						t.Fatalf("FEEDLEN src=%d sink=%d\nhist=%s", len(ca.Entities), len(cb.Entities), strings.Join(hist, "\n"))
					}
					for i := range ca.Entities {
						if entKey(ca.Entities[i]) != entKey(cb.Entities[i]) {
							t.Fatalf("FEED differs at %d\nhist=%s", i, strings.Join(hist, "\n"))
						}
					}
				}
				// idempotent rerun
				before, _ := sink.GetChanges(0, 0, false)
				st1, _ := s.GetJobState("j1")
				j.Run()
				after, _ := sink.GetChanges(0, 0, false)
				st2, _ := s.GetJobState("j1")
				if (jobType == "incremental" || latestOnly) && (len(after.Entities) != len(before.Entities) || st1.ContinuationToken != st2.ContinuationToken) {
					t.Fatalf("RERUN changed sink %d->%d token %q->%q type=%s latestOnly=%v\nhist=%s", len(before.Entities), len(after.Entities), st1.ContinuationToken, st2.ContinuationToken, jobType, latestOnly, strings.Join(hist, "\n"))
				}
			},
		})
	})
}
