package verifchecks

// C15 part "pull": the downstream direction. A hub's job pulls a remote
// collection through HttpDatasetSource (the way one hub follows another hub's
// change feed) and stores it through a DatasetSink. The remote end is a local
// HTTP server that serves GENERATED valid payloads page by page: every page
// carries its own @context (the same local prefixes stand for other expansions
// on the next page, as they would after the remote hub was rebuilt, or when the
// endpoint is not a datahub at all), its entities and a continuation element.
// Oracle: what the sink dataset serves afterwards denotes exactly what the
// pages denote under their own contexts, in page order (a version identical to
// the id's current version adds nothing).

import (
	"context"
	"fmt"
	"net/http"
	"net/http/httptest"
	"strconv"
	"sync"
	"testing"
	"time"

	"github.com/DataDog/datadog-go/v5/statsd"
	"go.uber.org/zap"
	"pgregory.net/rapid"

	"github.com/mimiro-io/datahub/internal/jobs"
	"github.com/mimiro-io/datahub/internal/security"
	"github.com/mimiro-io/datahub/internal/server"
	kit "github.com/mimiro-io/datahub/internal/verifkit"
)

type c15PullCase struct {
	Runs      [][]string `json:"runs"` // per run: the pages served (bodies)
	BatchSize int        `json:"batchSize"`
	Want      []string   `json:"want"`
}

type c15Remote struct {
	mu    sync.Mutex
	pages []string // page i is served for since == strconv.Itoa(i) ("" = 0)
	bad   []string
	atEnd bool // the "nothing new" page was asked for: the puller has seen everything
}

func (r *c15Remote) ServeHTTP(w http.ResponseWriter, req *http.Request) {
	r.mu.Lock()
	defer r.mu.Unlock()
	i := 0
	if s := req.URL.Query().Get("since"); s != "" {
		n, err := strconv.Atoi(s)
		if err != nil {
			r.bad = append(r.bad, "since="+s)
			http.Error(w, "bad since", 400)
			return
		}
		i = n
	}
	w.Header().Set("Content-Type", "application/json")
	if i >= len(r.pages) {
		// nothing new: context and the unchanged token
		r.atEnd = true
		_, _ = w.Write([]byte(`[{"id":"@context","namespaces":{}},{"id":"@continuation","token":"` + strconv.Itoa(i) + `"}]`))
		return
	}
	_, _ = w.Write([]byte(r.pages[i]))
}

func TestVerif_C15_pull(t *testing.T) {
	defer kit.S().Flush()
	defer kit.CleanupScratch()
	down := c15Downstream()
	defer down.Close()
	remote := &c15Remote{}
	srv := httptest.NewServer(remote)
	defer srv.Close()
	rapid.Check(t, func(t *rapid.T) {
		w := c15NewHub(t)
		defer w.Close()
		log := zap.NewNop().Sugar()
		pm := security.NewProviderManager(w.Env, w.Store, log)
		tps := security.NewTokenProviders(log, pm, nil)
		runner := jobs.NewRunner(w.Env, w.Store, tps, server.NoOpBus(), &statsd.NoOpClient{})
		sched := jobs.NewScheduler(w.Env, w.Store, w.Dsm, runner)
		defer func() { _ = sched.Stop(context.Background()) }()
		c15CreateDataset(t, w, "sink")

		cs := &c15PullCase{BatchSize: rapid.SampledFrom([]int{1, 2, 3, 10, 100}).Draw(t, "batchSize")}
		remote.mu.Lock()
		remote.pages, remote.bad = nil, nil
		remote.mu.Unlock()
		cfg := fmt.Sprintf(`{"id":"pull","title":"pull","batchSize":%d,"triggers":[{"triggerType":"cron","jobType":"incremental","schedule":"@every 24h"}],
			"source":{"Type":"HttpDatasetSource","Url":%q},"sink":{"Type":"DatasetSink","Name":"sink"}}`, cs.BatchSize, srv.URL+"/datasets/remote/changes")
		jc, err := sched.Parse([]byte(cfg))
		if err != nil {
			t.Fatalf("VERIF-INFRA job config: %v", err)
		}
		if err := sched.AddJob(jc); err != nil {
			t.Fatalf("VERIF-INFRA AddJob: %v", err)
		}
		var want []*c15Full
		cur := map[string]string{} // id -> key of its current version in the sink
		cls := map[string]bool{}
		rots := map[int]bool{}
		nruns := rapid.IntRange(1, 3).Draw(t, "runs")
		for r := 0; r < nruns; r++ {
			npages := rapid.IntRange(1, 3).Draw(t, "pages")
			var bodies []string
			for p := 0; p < npages; p++ {
				c := c15GenColl(t, 1, 7) // an empty page means "nothing new" to the pipeline: a remote with more to give never serves one
				rots[c15NSRot] = true
				for k := range c.Cls {
					cls[k] = true
				}
				remote.mu.Lock()
				next := len(remote.pages) + 1
				elems := append(c.Elems(-1, nil), `{"id":"@continuation","token":"`+strconv.Itoa(next)+`"}`)
				body := c15Stream(elems, c.Sep)
				remote.pages = append(remote.pages, body)
				remote.mu.Unlock()
				bodies = append(bodies, body)
				for _, f := range c.Fulls() {
					if cur[f.ID] == f.Key() {
						continue
					}
					cur[f.ID] = f.Key()
					want = append(want, f)
				}
			}
			cs.Runs = append(cs.Runs, bodies)
			cs.Want = c15Keys(want)
			kit.Journal(cs)
			// A run may stop before the remote's last page (a page whose size is a multiple of the
			// batch size ends the run; the next run carries on from the stored token): the job is
			// run until it has asked the remote for more and got nothing new.
			remote.mu.Lock()
			remote.atEnd = false
			remote.mu.Unlock()
			caughtUp := false
			for attempt := 0; attempt < 12 && !caughtUp; attempt++ {
				t0 := time.Now()
				if _, err := sched.RunJob("pull", jobs.JobTypeIncremental); err != nil {
					c15Fail(t, cs, "RunJob: %v", err)
				}
				// wait for the recorded outcome of this run (bounded; inconclusive beyond)
				done, lastErr := false, ""
				for time.Since(t0) < 30*time.Second && !done {
					for _, h := range sched.GetJobHistory() {
						if h.ID == "pull" && !h.End.Before(t0) && sched.GetRunningJob("pull") == nil {
							done, lastErr = true, h.LastError
						}
					}
					if !done {
						time.Sleep(2 * time.Millisecond)
					}
				}
				if !done {
					kit.S().Inconcl()
					kit.JournalDone()
					t.Skip("job did not finish within the watchdog (inconclusive)")
				}
				kit.S().AddExtra("pull job runs", 1)
				if lastErr != "" {
					c15Fail(t, cs, "run %d: the job pulling valid payloads failed: %s", r+1, lastErr)
				}
				remote.mu.Lock()
				bad := remote.bad
				caughtUp = remote.atEnd
				remote.mu.Unlock()
				if len(bad) > 0 {
					c15Fail(t, cs, "run %d: the source sent a continuation token the remote never handed out: %v", r+1, bad)
				}
			}
			if !caughtUp {
				c15Fail(t, cs, "phase %d: after 12 runs the job still has not asked the remote for the pages after its last one", r+1)
			}
			limit := rapid.SampledFrom([]int{0, 0, 2}).Draw(t, "limit")
			got, err := c15ReadBack(w, "sink", "changes", limit)
			if err != nil {
				c15Fail(t, cs, "%v", err)
			}
			if d := c15CheckBodiesX(down, got, want, true, true); d != "" {
				c15Fail(t, cs, "after run %d the sink's change feed does not denote what the pulled pages denote under their own contexts: %s", r+1, d)
			}
			kit.JournalDone()
		}
		var cl []string
		for k := range cls {
			cl = append(cl, k)
		}
		cl = append(cl, fmt.Sprintf("pull-runs-%d", nruns), fmt.Sprintf("pull-batch-%d", cs.BatchSize))
		if len(rots) > 1 {
			cl = append(cl, "pull-prefix-meaning-changes-between-pages")
		}
		kit.S().Case(cs.Runs, len(rots) > 1 && len(want) > 1, cl...)
	})
}
