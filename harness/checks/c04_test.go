package verifchecks

import (
	"fmt"
	"os"
	"path/filepath"
	"strings"
	"testing"
	"time"

	"github.com/dgraph-io/badger/v4"
	"pgregory.net/rapid"

	kit "github.com/mimiro-io/datahub/internal/verifkit"
)

// C04: batches and transactions are all-or-nothing and durable across a crash.
// For every generated history a counting run records every hook point hit;
// then the history is re-executed once per (point, hit) with the child killed
// there (fault enumeration), the directory is reopened and compared with the
// model after the last acknowledged op or that model plus the in-flight op.
func TestVerif_C04(t *testing.T) {
	defer kit.S().Flush()
	defer kit.CleanupScratch()
	maxPlans := kit.EnvInt("VERIF_C04_MAXPLANS", 60)
	rapid.Check(t, func(t *rapid.T) {
		g := newModelGM(t, t, nil, kit.GenCfg{MaxRefs: 2})
		g.maxBatch = 10
		// every history starts with the creation of two datasets (crashable too)
		g.applyOp(Op{K: "create", Name: "a", Via: "dsm"})
		g.applyOp(Op{K: "create", Name: "b", Via: "dsm"})
		acts := g.mgmtActions(false, false)
		acts["token"] = func(t *rapid.T) {
			g.t = t
			g.applyOp(Op{K: "token", Name: rapid.SampledFrom([]string{"job1", "job2"}).Draw(t, "job"), N: rapid.IntRange(1, 1000).Draw(t, "val")})
		}
		t.Repeat(acts)
		ops := append([]Op{}, g.hist...)
		if len(ops) < 3 {
			t.Skip("history too short")
		}
		runCrashCase(t, ops, maxPlans, c04Classes)
	})
}

var c04Classes = []string{"store.", "txn.", "create.", "delete.", "rename."}

type rapidT interface {
	Fatalf(format string, args ...any)
}

// countPlans runs the history once without a crash and returns every hit of a
// hook point with one of the prefixes.
func countPlans(f rapidT, root string, ops []Op, prefixes []string) (plans []pointHit, inconclusive bool) {
	plans, _, inconclusive = countPlansTimed(f, root, ops, prefixes)
	return
}

// countPlansTimed additionally returns how long the ops took in the counting
// run (from "hub is open" to the end of the child), the range from which the
// delays of kills at arbitrary instants are drawn.
func countPlansTimed(f rapidT, root string, ops []Op, prefixes []string) (plans []pointHit, opsTime time.Duration, inconclusive bool) {
	cdir := filepath.Join(root, "count")
	_ = os.MkdirAll(cdir, 0o755)
	countFile := filepath.Join(root, "points")
	res := runWriterChild(crashScript{Dir: cdir, Ops: ops}, []string{"VERIF_POINT_COUNTS=" + countFile, "VERIF_MEMTABLE_MB=8"}, 60*time.Second)
	if res.timeout {
		return nil, 0, true
	}
	opsTime = res.opsTime
	if res.exit != 0 || res.acked != len(ops)-1 {
		failCase(f, ops, nil, "the history does not run to completion without a crash: exit=%d acked=%d of %d\n%s", res.exit, res.acked, len(ops), tail(res.out))
	}
	for _, h := range readPointHits(countFile) {
		for _, p := range prefixes {
			if strings.HasPrefix(h.Point, p) {
				plans = append(plans, h)
				break
			}
		}
	}
	_ = os.RemoveAll(cdir)
	return plans, opsTime, false
}

// execTimedKills re-executes the history and kills the child from outside at
// drawn instants of the op sequence (permille of the counting run's duration).
// Such a case is schedule dependent: the replay file carries the script, the
// drawn delay and the acknowledged prefix that was observed, not a guarantee
// that the same instruction is hit again.
func execTimedKills(f rapidT, root string, ops []Op, opsTime time.Duration, permilles []int) {
	for i, pm := range permilles {
		dir := filepath.Join(root, fmt.Sprintf("k%d", i))
		_ = os.MkdirAll(dir, 0o755)
		delay := time.Duration(int64(opsTime) * int64(pm) / 1000)
		r := runWriterChildKill(crashScript{Dir: dir, Ops: ops}, []string{"VERIF_MEMTABLE_MB=8"}, 60*time.Second, delay)
		if r.timeout {
			kit.S().Inconcl()
			_ = os.RemoveAll(dir)
			continue
		}
		if !r.killed {
			// the child finished before the kill arrived
			kit.S().Class("timed-kill-after-completion", 1)
			_ = os.RemoveAll(dir)
			continue
		}
		inflight := r.acked + 1
		msg := verifyCrashed(dir, ops, r.acked)
		kit.S().Case(map[string]any{"ops": ops, "timedKillPermille": pm, "delay": delay.String(), "acked": r.acked}, inflight < len(ops), "timed-kill", "inflight:"+opKind(ops, inflight))
		kit.S().AddExtra("timed_kill_cases", 1)
		_ = os.RemoveAll(dir)
		if msg != "" {
			failCase(f, ops, nil, "after a kill from outside %v after the hub was open (permille %d of the op sequence; last acknowledged op %d; schedule dependent):\n%s", delay, pm, r.acked, msg)
		}
	}
}

// runCrashCase enumerates crash plans for one history.
func runCrashCase(t *rapid.T, ops []Op, maxPlans int, prefixes []string) {
	root := kit.NewDir("crash")
	defer os.RemoveAll(root)
	kit.Journal(ops)
	defer kit.JournalDone()
	plans, opsTime, inconcl := countPlansTimed(t, root, ops, prefixes)
	if inconcl {
		kit.S().Inconcl()
		return
	}
	if len(plans) == 0 {
		t.Skip("no hook point hit")
	}
	// kills at arbitrary instants (thorough: more of them)
	var timedPermilles []int
	if n := kit.EnvInt("VERIF_TIMED_KILLS", 2); n > 0 && opsTime > 0 {
		timedPermilles = rapid.SliceOfN(rapid.IntRange(0, 1000), n, n).Draw(t, "timedKills")
	}
	// exhaustive when small, otherwise a drawn subset (kept inside rapid so it shrinks/replays)
	if len(plans) > maxPlans {
		idx := rapid.Permutation(seq(len(plans))).Draw(t, "plans")[:maxPlans]
		sel := make([]pointHit, 0, maxPlans)
		for _, i := range idx {
			sel = append(sel, plans[i])
		}
		plans = sel
		kit.S().Class("plans-sampled", 1)
	} else {
		kit.S().Class("plans-exhaustive", 1)
	}
	execPlans(t, root, ops, plans, true)
	if len(timedPermilles) > 0 {
		execTimedKills(t, root, ops, opsTime, timedPermilles)
	}
}

// execPlans re-executes the history once per plan with the child killed there
// and verifies the reopened directory.
func execPlans(f rapidT, root string, ops []Op, plans []pointHit, stats bool) {
	for i, pl := range plans {
		dir := filepath.Join(root, fmt.Sprintf("c%d", i))
		_ = os.MkdirAll(dir, 0o755)
		r := runWriterChild(crashScript{Dir: dir, Ops: ops}, []string{fmt.Sprintf("VERIF_CRASH=%s:%d", pl.Point, pl.N), "VERIF_MEMTABLE_MB=8"}, 60*time.Second)
		if r.timeout {
			kit.S().Inconcl()
			_ = os.RemoveAll(dir)
			continue
		}
		if !r.killed {
			// the point was not reached in this run - not a violation
			kit.S().Class("crash-point-not-reached", 1)
			_ = os.RemoveAll(dir)
			continue
		}
		inflight := r.acked + 1
		multi := inflight < len(ops) && (ops[inflight].K == "txn" && len(ops[inflight].Parts) > 1 || ops[inflight].K == "batch" && len(ops[inflight].Ents) > 1 || ops[inflight].K == "delete" || ops[inflight].K == "rename" || ops[inflight].K == "create")
		msg := verifyCrashed(dir, ops, r.acked)
		if stats {
			kit.S().Case(map[string]any{"ops": ops, "crash": pl}, multi, "point:"+pl.Point, "inflight:"+opKind(ops, inflight))
			kit.S().AddExtra("crash_cases", 1)
		}
		_ = os.RemoveAll(dir)
		if msg != "" {
			failCase(f, ops, &pl, "after a kill at %s (hit %d, during op %d, last acknowledged op %d):\n%s", pl.Point, pl.N, pl.Op, r.acked, msg)
		}
	}
}

func opKind(ops []Op, i int) string {
	if i < 0 || i >= len(ops) {
		return "none"
	}
	return ops[i].K
}

func seq(n int) []int {
	out := make([]int, n)
	for i := range out {
		out[i] = i
	}
	return out
}

func tail(s string) string {
	if len(s) > 3000 {
		return s[len(s)-3000:]
	}
	return s
}

func failCase(t rapidT, ops []Op, pl *pointHit, format string, a ...any) {
	g := &gm{hist: ops}
	extra := ""
	if pl != nil {
		extra = fmt.Sprintf("crash plan: %+v\n", *pl)
	}
	t.Fatalf("%s\nVERIF-CASE-BEGIN\n%s%s\nVERIF-CASE-END", fmt.Sprintf(format, a...), extra, g.histJSON())
}

// verifyCrashed reopens the directory in-process and checks it against the two
// admissible models; then checks raw index consistency and that the hub
// accepts new writes with fresh ids and increasing change positions.
func verifyCrashed(dir string, ops []Op, acked int) string {
	if kit.Known("F27") && hasEmptyMemtableFile(dir) {
		// known finding F27 (input shape: the killed process left an empty memtable file): the first
		// start fails and sizes the file; carry on with the start after it
		kit.S().Exclude("F27")
		if h0, msg := openCrashed(dir); msg == "" {
			_ = h0.Store.Close()
		}
	}
	h, openErr := openCrashed(dir)
	if openErr != "" {
		return openErr
	}
	defer func() { _ = h.Store.Close() }()
	candA := modelAfter(ops, acked+1)
	msgA := crashOracle(h, candA)
	chosen := candA
	if msgA != "" {
		if acked+2 > len(ops) {
			return "state differs from the model after the last acknowledged op (no op was in flight):\n" + msgA
		}
		candB := modelAfter(ops, acked+2)
		msgB := crashOracle(h, candB)
		if msgB != "" {
			return "state is neither 'in-flight op absent' nor 'in-flight op fully present':\n--- vs model without the in-flight op:\n" + msgA + "\n--- vs model with the in-flight op:\n" + msgB
		}
		chosen = candB
	}
	if v := kit.RawScan(h.Hub, true); len(v) > 0 {
		return "index families disagree after restart:\n  " + strings.Join(v, "\n  ")
	}
	// the hub accepts writes again: fresh identifiers, increasing change positions
	chosen.h = h
	chosen.f = softFataler{}
	msg := try(func() {
		seenIDs := map[uint64]string{}
		for _, id := range chosen.pool.IDs {
			if e, err := h.Lookup(id, nil); err == nil && e != nil {
				if prev, dup := seenIDs[e.InternalID]; dup {
					chosen.fail("INTERNAL-ID-SHARED %s and %s both have internal id %d", prev, id, e.InternalID)
				}
				seenIDs[e.InternalID] = id
			}
		}
		for i, ds := range chosen.live() {
			_, before, err := h.Feed(ds, 0, nil, false)
			if err != nil {
				chosen.fail("feed: %v", err)
			}
			pid := fmt.Sprintf("%s:probe%d", h.P[0], i)
			probe := &kit.Ent{ID: pid, Props: map[string]any{h.P[0] + ":p0": "probe"}, Refs: map[string]any{h.P[0] + ":r0": chosen.pool.IDs[0]}}
			chosen.applyBatch(Op{K: "batch", DS: ds, Via: "store", Ents: []*kit.Ent{probe}})
			_, after, err := h.Feed(ds, 0, nil, false)
			if err != nil {
				chosen.fail("feed: %v", err)
			}
			if after <= before {
				chosen.fail("CHANGE-POSITION-NOT-INCREASING ds=%s token before probe write %d, after %d", ds, before, after)
			}
			e, err := h.Lookup(pid, []string{ds})
			if err != nil || e == nil {
				chosen.fail("probe entity not found after write: %v", err)
			}
			if prev, dup := seenIDs[e.InternalID]; dup {
				chosen.fail("INTERNAL-ID-REUSED fresh identifier %s got internal id %d of %s", pid, e.InternalID, prev)
			}
			seenIDs[e.InternalID] = pid
		}
		c07Oracle(chosen)
		// a dataset created after the restart gets an internal id no other dataset has or had, and is empty
		taken := map[uint32]string{}
		for _, n := range h.DatasetNames() {
			if d := h.Dsm.GetDataset(n); d != nil {
				taken[d.InternalID] = n
			}
		}
		nd, err := h.Dsm.CreateDataset("zz-probe-after-restart", nil)
		if err != nil || nd == nil {
			chosen.fail("CREATE-AFTER-RESTART failed: %v", err)
		}
		if prev, dup := taken[nd.InternalID]; dup {
			chosen.fail("DATASET-ID-REUSED a dataset created after the restart got internal id %d, which %s has", nd.InternalID, prev)
		}
		if es, _, err := h.Feed("zz-probe-after-restart", 0, nil, false); err != nil || len(es) != 0 {
			chosen.fail("NEW-DATASET-NOT-EMPTY a dataset created after the restart has %d changes (%v)", len(es), err)
		}
		// (the id of a deleted dataset would hide whatever is written to the new one)
		npid := h.P[0] + ":probe-in-new-dataset"
		if err := h.StoreBatch("zz-probe-after-restart", []*kit.Ent{{ID: npid, Props: map[string]any{h.P[0] + ":p0": "probe"}, Refs: map[string]any{}}}, "store"); err != nil {
			chosen.fail("write to the dataset created after the restart: %v", err)
		}
		if e, err := h.Lookup(npid, nil); err != nil || e == nil || e.Properties[h.P[0]+":p0"] != "probe" {
			chosen.fail("NEW-DATASET-HIDDEN an entity written to the dataset created after the restart is not returned by an unscoped lookup (%v, %v)", e, err)
		}
		if es, _, err := h.Feed("zz-probe-after-restart", 0, nil, false); err != nil || len(es) != 1 {
			chosen.fail("NEW-DATASET-FEED the dataset created after the restart has %d changes after one write (%v)", len(es), err)
		}
	})
	chosen.h = nil
	if msg != "" {
		return "after restart, probe writes: " + msg
	}
	if v := kit.RawScan(h.Hub, true); len(v) > 0 {
		return "index families disagree after probe writes:\n  " + strings.Join(v, "\n  ")
	}
	return ""
}

// F06 (fixed): a kill inside DeleteDataset between removing the dataset record
// and persisting the deleted-datasets set left the dataset's data visible to
// unscoped queries after restart.
func TestVerifProbe_F06(t *testing.T) {
	defer kit.CleanupScratch()
	a := poolPrefixes()[0]
	ops := []Op{
		{K: "create", Name: "a", Via: "dsm"},
		{K: "create", Name: "b", Via: "dsm"},
		{K: "batch", DS: "b", Via: "store", Ents: []*kit.Ent{ent(a+":e1", map[string]any{a + ":p0": "x"}, map[string]any{a + ":r0": a + ":e0"}, false)}},
		{K: "batch", DS: "a", Via: "store", Ents: []*kit.Ent{ent(a+":e0", map[string]any{a + ":p0": "y"}, nil, false)}},
		{K: "delete", Name: "b", Via: "dsm"},
	}
	root := kit.NewDir("probeF06")
	plans, inconcl := countPlans(t, root, ops, []string{"delete."})
	if inconcl {
		t.Skip("VERIF-INFRA counting run timed out")
	}
	if len(plans) == 0 {
		t.Fatalf("no delete.* hook point was hit")
	}
	execPlans(t, root, ops, plans, false)
}

func hasEmptyMemtableFile(dir string) bool {
	mems, _ := filepath.Glob(filepath.Join(dir, "store", "*.mem"))
	for _, m := range mems {
		if fi, err := os.Stat(m); err == nil && fi.Size() == 0 {
			return true
		}
	}
	return false
}

// openCrashed reopens a hub on a directory a killed process left behind. The
// hub logs and ignores a failed badger.Open and then dereferences the nil
// handle, so a store that does not open shows as a panic here; the badger
// error is fetched with a direct Open for the report.
func openCrashed(dir string) (h *WHub, msg string) {
	defer func() {
		if r := recover(); r != nil {
			berr := "badger opens the directory when tried directly"
			opts := badger.DefaultOptions(filepath.Join(dir, "store"))
			opts.Logger = nil
			if db, err := badger.Open(opts); err != nil {
				berr = "badger.Open: " + err.Error()
			} else {
				_ = db.Close()
			}
			var names []string
			if es, err := os.ReadDir(filepath.Join(dir, "store")); err == nil {
				for _, e := range es {
					if fi, err := e.Info(); err == nil {
						names = append(names, fmt.Sprintf("%s(%d)", e.Name(), fi.Size()))
					}
				}
			}
			h, msg = nil, fmt.Sprintf("STORE-DOES-NOT-OPEN after the kill: %v\n  %s\n  files: %v", r, berr, names)
		}
	}()
	return NewWHub(kit.HubOpts{Dir: dir}), ""
}

// F27 (known): a kill at the instant at which badger has created the file of a
// new memtable but not yet sized it leaves an empty <n>.mem behind. badger
// v4.2.0 reports "while opening memtables ... Create a new file" for it on the
// next Open (and sizes the file while doing so, so the Open after that works).
// The hub logs the failed Open, carries on with a nil database handle and
// panics: the first restart after such a kill fails. The probe constructs the
// file state directly.
func TestVerifProbe_F27(t *testing.T) {
	defer kit.CleanupScratch()
	dir := kit.NewDir("probeF27")
	h := NewWHub(kit.HubOpts{Dir: dir})
	if _, err := h.Dsm.CreateDataset("a", nil); err != nil {
		t.Fatalf("VERIF-INFRA %v", err)
	}
	_ = h.Store.Close()
	// what the killed process leaves: the next memtable file, created and still empty
	mems, _ := filepath.Glob(filepath.Join(dir, "store", "*.mem"))
	if len(mems) != 0 {
		t.Fatalf("VERIF-INFRA a cleanly closed store still has memtable files: %v", mems)
	}
	if err := os.WriteFile(filepath.Join(dir, "store", "00001.mem"), nil, 0o644); err != nil {
		t.Fatalf("VERIF-INFRA %v", err)
	}
	h2, msg := openCrashed(dir)
	if msg != "" {
		t.Fatalf("F27 present: %s", msg)
	}
	_ = h2.Store.Close()
}
