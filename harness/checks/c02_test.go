package verifchecks

import (
	"fmt"
	"testing"

	"pgregory.net/rapid"

	kit "github.com/mimiro-io/datahub/internal/verifkit"
)

// cursor is a token-carrying reader of one dataset's change feed.
type cursor struct {
	ds      string
	http    bool
	lo      bool
	tok     uint64
	htok    string
	acc     []*kit.Ent
	pages   int
	crossed bool // a write happened between two of its pages
	lastLen int
}

// C02: change feed is the complete ordered version history; tokens resume exactly.
func TestVerif_C02(t *testing.T) {
	defer kit.S().Flush()
	defer kit.CleanupScratch()
	if ops := loadReplayOps(t); ops != nil {
		replayGraph(t, ops, c02Oracle)
		return
	}
	rapid.Check(t, func(t *rapid.T) {
		g := newGM(t, []string{"a", "b"}, kit.GenCfg{Nulls: true})
		defer g.close()
		var curs []*cursor
		for i := 0; i < 4; i++ {
			curs = append(curs, &cursor{ds: g.names[i%2], http: i == 1, lo: i >= 2})
		}
		defer func() {
			straddle := false
			for _, c := range curs {
				if c.crossed && c.pages >= 3 {
					straddle = true
				}
			}
			nt := g.has("redundant-write", "page-boundary-inside-commit") || straddle
			if straddle {
				g.cls["cursor-straddles-write"] = true
			}
			kit.S().Case(g.hist, nt && len(g.hist) > 1, g.classes()...)
			kit.JournalDone()
		}()
		wrote := func() {
			for _, c := range curs {
				if c.pages > 0 {
					c.crossed = true
				}
			}
		}
		t.Repeat(map[string]func(*rapid.T){
			"batch":         func(t *rapid.T) { g.t = t; g.applyBatch(g.genBatchOp()); wrote() },
			"rejectedBatch": func(t *rapid.T) { g.rejectedBatchAction()(t); wrote() },
			"txn":           func(t *rapid.T) { g.t = t; g.applyTxn(g.genTxnOp()); wrote() },
			"readerStep": func(t *rapid.T) {
				g.t = t
				i := rapid.IntRange(0, len(curs)-1).Draw(t, "cursor")
				lim := rapid.SampledFrom([]int{0, 1, 1, 2, 3, 5}).Draw(t, "limit")
				g.record(Op{K: "readerStep", N: i, Limits: []int{lim}})
				g.readerStep(curs[i], lim)
			},
			"readerStep2": func(t *rapid.T) {
				g.t = t
				i := rapid.IntRange(0, len(curs)-1).Draw(t, "cursor")
				lim := rapid.SampledFrom([]int{1, 1, 2}).Draw(t, "limit")
				g.record(Op{K: "readerStep", N: i, Limits: []int{lim}})
				g.readerStep(curs[i], lim)
			},
			"pagedFeed": func(t *rapid.T) {
				g.t = t
				op := Op{K: "pagedFeed", DS: rapid.SampledFrom(g.names).Draw(t, "ds"), Limits: kit.GenLimits(t, false), Inv: rapid.Bool().Draw(t, "http")}
				g.record(op)
				g.checkFeed(op.DS, op.Limits, op.Inv)
				if len(op.Limits) > 0 && op.Limits[0] > 0 && len(g.m.DS[op.DS].Feed) > op.Limits[0] {
					g.cls["paged-feed"] = true
				}
			},
			"reverse": func(t *rapid.T) {
				g.t = t
				op := Op{K: "reverse", DS: rapid.SampledFrom(g.names).Draw(t, "ds"), Limits: kit.GenLimits(t, false)}
				g.record(op)
				g.checkReverse(op.DS, op.Limits)
			},
			"beyondEnd": func(t *rapid.T) {
				g.t = t
				ds := rapid.SampledFrom(g.names).Draw(t, "ds")
				off := rapid.SampledFrom([]uint64{0, 1, 7, 1000, 1 << 40}).Draw(t, "off")
				g.record(Op{K: "beyondEnd", DS: ds, N: int(off % 100000)})
				g.checkBeyondEnd(ds, off)
			},
			"": func(t *rapid.T) { g.t = t; c02Oracle(g) },
		})
	})
}

func c02Oracle(g *gm) {
	for _, ds := range g.names {
		g.checkFeed(ds, nil, false)
	}
}

func (g *gm) readerStep(c *cursor, lim int) {
	md := g.m.DS[c.ds]
	var page []*kit.Ent
	if c.http {
		lims := []int{lim}
		path := fmt.Sprintf("/datasets/%s/changes?", c.ds)
		if c.htok != "" {
			path += "since=" + urlEsc(c.htok) + "&"
		}
		if lim > 0 {
			path += fmt.Sprintf("limit=%d&", lim)
		}
		if c.lo {
			path += "latestOnly=true"
		}
		_ = lims
		code, body := g.h.Do("GET", path, "", nil)
		if code != 200 {
			g.fail("GET %s -> %d %s", path, code, body)
		}
		es, tok, _, err := parseCollection(body)
		if err != nil {
			g.fail("changes response: %v", err)
		}
		if len(es) == 0 && c.htok != "" && tok != c.htok {
			g.fail("FEED-TOKEN-MOVED-ON-EMPTY-PAGE ds=%s http token %q -> %q", c.ds, c.htok, tok)
		}
		page, c.htok = es, tok
	} else {
		d := g.h.Dsm.GetDataset(c.ds)
		ch, err := d.GetChanges(c.tok, lim, c.lo)
		if err != nil {
			g.fail("GetChanges: %v", err)
		}
		page = kit.FromEntities(ch.Entities)
		if len(page) == 0 && ch.NextToken != c.tok {
			g.fail("FEED-TOKEN-MOVED-ON-EMPTY-PAGE ds=%s token %d -> %d", c.ds, c.tok, ch.NextToken)
		}
		c.tok = ch.NextToken
	}
	c.pages++
	if lim > 0 && len(page) > lim {
		g.fail("FEED-PAGE-OVER-LIMIT ds=%s limit=%d got=%d", c.ds, lim, len(page))
	}
	caughtUp := lim == 0 || len(page) < lim
	if !c.lo {
		base := len(c.acc)
		for i, e := range page {
			pos := base + i
			if pos >= len(md.Feed) {
				g.fail("FEED-CURSOR-EXTRA ds=%s cursor delivered entry %d=%s beyond the %d stored versions (repeat?)", c.ds, pos, e.Key(), len(md.Feed))
			}
			if !kit.SameVersion(e, md.Feed[pos]) {
				g.fail("FEED-CURSOR-ORDER ds=%s cursor position %d\n impl =%s\n model=%s (skipped or repeated entry)", c.ds, pos, e.Key(), md.Feed[pos].Key())
			}
		}
		c.acc = append(c.acc, page...)
		if caughtUp && len(c.acc) != len(md.Feed) {
			g.fail("FEED-CURSOR-INCOMPLETE ds=%s: short page (limit=%d, got %d) but cursor has %d of %d versions", c.ds, lim, len(page), len(c.acc), len(md.Feed))
		}
		if lim > 0 && len(page) == lim && base+lim < len(md.Feed) {
			g.cls["page-boundary-inside-commit"] = true
		}
		return
	}
	// latest-only cursor: everything delivered was the latest version when delivered
	for _, e := range page {
		mv := md.Latest[e.ID]
		if mv == nil || !kit.SameVersion(e, mv) {
			g.fail("FEED-LATESTONLY-STALE ds=%s delivered %s but latest is %s", c.ds, e.Key(), mv.Key())
		}
	}
	c.acc = append(c.acc, page...)
	if caughtUp {
		for id, mv := range md.Latest {
			found := false
			for _, e := range c.acc {
				if e.ID == id && kit.SameVersion(e, mv) {
					found = true
					break
				}
			}
			if !found {
				g.fail("FEED-LATESTONLY-MISSING ds=%s: cursor caught up but never delivered the final version of %s = %s", c.ds, id, mv.Key())
			}
		}
	}
}

// checkReverse: reverse=true paging yields exactly the reverse of the forward feed.
func (g *gm) checkReverse(ds string, limits []int) {
	md := g.m.DS[ds]
	var got []*kit.Ent
	tok := ""
	for i := 0; i < 100000; i++ {
		lim := 0
		if len(limits) > 0 {
			lim = limits[i%len(limits)]
		}
		path := "/datasets/" + ds + "/changes?reverse=true&"
		if tok != "" {
			path += "since=" + urlEsc(tok) + "&"
		}
		if lim > 0 {
			path += fmt.Sprintf("limit=%d", lim)
		}
		code, body := g.h.Do("GET", path, "", nil)
		if code != 200 {
			g.fail("GET %s -> %d %s", path, code, body)
		}
		es, nt, _, err := parseCollection(body)
		if err != nil {
			g.fail("reverse changes response: %v", err)
		}
		got = append(got, es...)
		if nt == "" || len(es) == 0 || lim == 0 {
			break
		}
		tok = nt
	}
	want := make([]*kit.Ent, len(md.Feed))
	for i, v := range md.Feed {
		want[len(md.Feed)-1-i] = v
	}
	g.cmpSeq("FEED-REVERSE", ds, limits, true, got, want)
	if len(limits) > 0 && len(want) > limits[0] {
		g.cls["reverse-paged"] = true
	}
}

func (g *gm) checkBeyondEnd(ds string, off uint64) {
	d := g.h.Dsm.GetDataset(ds)
	// the end token
	_, end, err := g.h.Feed(ds, 0, nil, false)
	if err != nil {
		g.fail("feed: %v", err)
	}
	since := end + off
	ch, err := d.GetChanges(since, 0, false)
	if err != nil {
		g.fail("GetChanges(since=%d): %v", since, err)
	}
	if len(ch.Entities) != 0 || ch.NextToken != since {
		g.fail("FEED-BEYOND-END ds=%s since=%d (end=%d) returned %d entities and token %d", ds, since, end, len(ch.Entities), ch.NextToken)
	}
	code, body := g.h.Do("GET", "/datasets/"+ds+"/changes?since="+urlEsc(sinceToken(since)), "", nil)
	if code != 200 {
		g.fail("GET changes since beyond end -> %d %s", code, body)
	}
	es, tok, _, err := parseCollection(body)
	if err != nil || len(es) != 0 || tok != sinceToken(since) {
		g.fail("FEED-BEYOND-END-HTTP ds=%s since=%d returned %d entities token=%q err=%v", ds, since, len(es), tok, err)
	}
	g.cls["since-beyond-end"] = true
}

// C02 at a size the small pool cannot reach (see largeCase): the feed and the
// latest-only feed read with page limits that put token positions on arbitrary
// change numbers equal the model's, from the store and over HTTP.
func TestVerif_C02_large(t *testing.T) {
	defer kit.S().Flush()
	defer kit.CleanupScratch()
	rapid.Check(t, func(t *rapid.T) {
		g := newGM(t, []string{"a", "b"}, kit.GenCfg{})
		defer g.close()
		lim := largeCase(t, g)
		kit.Journal(map[string]any{"large": true, "limits": lim, "ops": len(g.hist)})
		defer kit.JournalDone()
		g.checkFeed("a", nil, false)
		g.checkFeed("a", lim, false)
		g.checkFeed("a", lim, true)
		g.checkFeed("b", lim, false)
		kit.S().Case(map[string]any{"large": len(g.m.DS["a"].Latest), "limits": lim, "feed": len(g.m.DS["a"].Feed)}, len(g.m.DS["a"].Feed) > 256, g.classes()...)
	})
}
