package verifchecks

// C16: no request is served beyond what the caller's token and ACL grant.
//
// In-process echo with the real middlewares (web.NewMiddleware, Auth.Middleware
// "on") and the real web.Register*Handler functions, driven through httptest.
// The (method, path) table is read from e.Routes(); only the AUTH DECISION is
// compared (401 / 403 / anything else) - handlers run on a throw-away hub.
//
// Reference decision (statement + DOCUMENTATION.md "Securing Data Hub with ACLs"):
// needed action = read for GET/HEAD/OPTIONS, write for every other method; an
// entry matches exactly or by trailing-* prefix; write implies read. Asserted
// only where unambiguous (DESIGN C16 (1)-(7)); cases with a matching deny entry
// for the OTHER action are counted as ambiguous.

import (
	"bytes"
	"crypto/rand"
	"crypto/rsa"
	"crypto/sha256"
	"encoding/json"
	"fmt"
	"net/http/httptest"
	"net/url"
	"os"
	"path/filepath"
	"sort"
	"strings"
	"sync"
	"testing"
	"time"

	"github.com/DataDog/datadog-go/v5/statsd"
	"github.com/golang-jwt/jwt/v4"
	"github.com/labstack/echo/v4"
	"go.uber.org/zap"
	"pgregory.net/rapid"

	kit "github.com/mimiro-io/datahub/internal/verifkit"

	"github.com/mimiro-io/datahub/internal/conf"
	"github.com/mimiro-io/datahub/internal/content"
	"github.com/mimiro-io/datahub/internal/jobs"
	"github.com/mimiro-io/datahub/internal/security"
	"github.com/mimiro-io/datahub/internal/server"
	"github.com/mimiro-io/datahub/internal/web"
)

const (
	c16Admin  = "admin"
	c16Pw     = "s3cret-pw"
	c16Node   = "node1"
	c16Client = "client1"
)

// ---- security fixture --------------------------------------------------------------

var c16Keys struct {
	once      sync.Once
	priv, pub []byte          // node key files, generated once per process (RSA-4096 keygen takes seconds)
	clientKey *rsa.PrivateKey // key pair of the registered client / "wrong key"
	clientPem []byte
	err       error
}

func c16InitKeys() error {
	c16Keys.once.Do(func() {
		dir := kit.NewDir("sec0")
		core := security.NewServiceCore(&conf.Config{SecurityStorageLocation: dir, AdminUserName: c16Admin, AdminPassword: c16Pw, NodeID: c16Node})
		if core.NodeInfo == nil || len(core.NodeInfo.KeyPairs) == 0 {
			c16Keys.err = fmt.Errorf("ServiceCore did not create a key pair")
			return
		}
		c16Keys.priv, c16Keys.err = os.ReadFile(filepath.Join(dir, "node_key"))
		if c16Keys.err != nil {
			return
		}
		c16Keys.pub, c16Keys.err = os.ReadFile(filepath.Join(dir, "node_key.pub"))
		if c16Keys.err != nil {
			return
		}
		c16Keys.clientKey, c16Keys.err = rsa.GenerateKey(rand.Reader, 2048)
		if c16Keys.err != nil {
			return
		}
		pem, err := security.ExportRsaPublicKeyAsPem(&c16Keys.clientKey.PublicKey)
		c16Keys.clientPem, c16Keys.err = []byte(pem), err
	})
	return c16Keys.err
}

func c16NewSecDir() string {
	dir := kit.NewDir("sec")
	_ = os.WriteFile(filepath.Join(dir, "node_key"), c16Keys.priv, 0o600)
	_ = os.WriteFile(filepath.Join(dir, "node_key.pub"), c16Keys.pub, 0o600)
	return dir
}

func c16SecEnv(base *conf.Config, secDir string) *conf.Config {
	env := *base
	env.Auth = &conf.AuthConfig{Middleware: "on"}
	env.AdminUserName, env.AdminPassword, env.NodeID = c16Admin, c16Pw, c16Node
	env.SecurityStorageLocation = secDir
	return &env
}

// c16Sec is a secured web layer over a hub: what app.go / web.NewWebService wire.
type c16Sec struct {
	H    *kit.Hub
	E    *echo.Echo
	Core *security.ServiceCore
	Dir  string
	Env  *conf.Config
	sch  *jobs.Scheduler
	run  *jobs.Runner
}

var c16RunnerOnce sync.Once

// c16Wire registers every handler the application registers, with security on.
func c16Wire(h *kit.Hub, secDir string, sch *jobs.Scheduler, run *jobs.Runner) *c16Sec {
	log := zap.NewNop().Sugar()
	env := c16SecEnv(h.Env, secDir)
	core := security.NewServiceCore(env)
	pm := security.NewProviderManager(env, h.Store, log)
	tps := security.NewTokenProviders(log, pm, core)
	if sch == nil {
		run = jobs.NewRunner(env, h.Store, tps, server.NoOpBus(), &statsd.NoOpClient{})
		sch = jobs.NewScheduler(env, h.Store, h.Dsm, run)
	}
	e := echo.New()
	e.HideBanner = true
	web.NewStatusHandler(e, "0")
	mw := web.NewMiddleware(env, e, core, log, &statsd.NoOpClient{})
	web.RegisterContentHandler(e, log, mw, content.NewContentService(env, h.Store, &statsd.NoOpClient{}))
	web.RegisterDatasetHandler(e, log, mw, h.Dsm, h.Store, server.NoOpBus(), tps)
	web.RegisterTxnHandler(e, log, mw, h.Store)
	web.RegisterQueryHandler(e, log, mw, h.Store, h.Dsm)
	web.RegisterJobOperationHandler(e, log, mw, sch)
	web.RegisterJobsHandler(e, log, mw, sch)
	web.RegisterNamespaceHandler(e, log, mw, h.Store)
	web.RegisterProviderHandler(e, log, mw, tps)
	web.RegisterSecurityHandler(e, log, mw, core)
	web.RegisterStatisticsHandler(e, log, mw, h.Store)
	web.RegisterCompactionHandler(e, log, mw, h.Dsm, h.Store)
	web.RegisterLineageHandler(e, log, mw, h.Store, h.Dsm)
	return &c16Sec{H: h, E: e, Core: core, Dir: secDir, Env: env, sch: sch, run: run}
}

// Rewire builds a second web layer on the same hub with a ServiceCore freshly
// initialised from the security directory: what a restart of the process does.
func (s *c16Sec) Rewire() *c16Sec { return c16Wire(s.H, s.Dir, s.sch, s.run) }

type c16Resp struct {
	Code  int
	Body  string
	Panic string
}

func (s *c16Sec) do(method, path, body, ctype, token string) (r c16Resp) {
	req := httptest.NewRequest(method, path, strings.NewReader(body))
	if ctype != "" {
		req.Header.Set("Content-Type", ctype)
	}
	if token != "" {
		req.Header.Set("Authorization", token)
	}
	rec := httptest.NewRecorder()
	defer func() {
		// a panic outside the recover middleware: net/http would drop the connection
		if p := recover(); p != nil {
			r = c16Resp{Code: -1, Panic: fmt.Sprint(p)}
		}
	}()
	s.E.ServeHTTP(rec, req)
	return c16Resp{Code: rec.Code, Body: rec.Body.String()}
}

func (r c16Resp) decision() string {
	switch r.Code {
	case 401:
		return "unauthenticated"
	case 403:
		return "forbidden"
	case -1:
		return "panic"
	}
	return "passed"
}

// tokens ---------------------------------------------------------------------------------

func (s *c16Sec) adminToken() (string, error) {
	form := url.Values{"grant_type": {"client_credentials"}, "client_id": {c16Admin}, "client_secret": {c16Pw}}
	r := s.do("POST", "/security/token", form.Encode(), "application/x-www-form-urlencoded", "")
	var tr struct {
		AccessToken string `json:"access_token"`
	}
	if r.Code != 200 || json.Unmarshal([]byte(r.Body), &tr) != nil || tr.AccessToken == "" {
		return "", fmt.Errorf("admin token request: %d %s %s", r.Code, r.Body, r.Panic)
	}
	return "Bearer " + tr.AccessToken, nil
}

// registerClient registers the client's public key through the admin API.
func (s *c16Sec) registerClient(admin, id string, deleted bool) error {
	b, _ := json.Marshal(security.ClientInfo{ClientID: id, PublicKey: c16Keys.clientPem, Deleted: deleted})
	if r := s.do("POST", "/security/clients", string(b), "application/json", admin); r.Code != 200 {
		return fmt.Errorf("register client: %d %s %s", r.Code, r.Body, r.Panic)
	}
	return nil
}

// clientToken does the documented client-credentials exchange with a signed assertion.
func (s *c16Sec) clientToken(id string) (string, error) {
	assertion, err := security.CreateJWTForTokenRequest(id, "node:"+c16Node, c16Keys.clientKey)
	if err != nil {
		return "", err
	}
	form := url.Values{"grant_type": {"client_credentials"}, "client_assertion_type": {"urn:ietf:params:oauth:grant-type:jwt-bearer"}, "client_assertion": {assertion}}
	r := s.do("POST", "/security/token", form.Encode(), "application/x-www-form-urlencoded", "")
	var tr struct {
		AccessToken string `json:"access_token"`
	}
	if r.Code != 200 || json.Unmarshal([]byte(r.Body), &tr) != nil || tr.AccessToken == "" {
		return "", fmt.Errorf("client token request: %d %s %s", r.Code, r.Body, r.Panic)
	}
	return "Bearer " + tr.AccessToken, nil
}

// c16BadTokens: tokens with exactly one defect. All carry the admin role, i.e.
// they would open everything if the defect went unnoticed.
func (s *c16Sec) badTokens() (map[string]string, error) {
	nodeKey := s.Core.NodeInfo.KeyPairs[0].PrivateKey
	mk := func(mod func(c *security.CustomClaims), method jwt.SigningMethod, key any) (string, error) {
		c := security.CustomClaims{Roles: []string{"admin"}}
		c.RegisteredClaims = jwt.RegisteredClaims{
			ExpiresAt: jwt.NewNumericDate(time.Now().Add(15 * time.Minute)),
			Issuer:    "node:" + c16Node,
			Audience:  jwt.ClaimStrings{"node:" + c16Node},
			Subject:   c16Admin,
		}
		if mod != nil {
			mod(&c)
		}
		tok, err := jwt.NewWithClaims(method, c).SignedString(key)
		return "Bearer " + tok, err
	}
	out := map[string]string{}
	var err error
	set := func(name string, tok string, e error) {
		if e != nil && err == nil {
			err = fmt.Errorf("%s: %v", name, e)
		}
		out[name] = tok
	}
	tok, e := mk(func(c *security.CustomClaims) { c.ExpiresAt = jwt.NewNumericDate(time.Now().Add(-time.Hour)) }, jwt.SigningMethodRS256, nodeKey)
	set("expired", tok, e)
	tok, e = mk(func(c *security.CustomClaims) { c.NotBefore = jwt.NewNumericDate(time.Now().Add(time.Hour)) }, jwt.SigningMethodRS256, nodeKey)
	set("not-yet-valid", tok, e)
	tok, e = mk(nil, jwt.SigningMethodRS256, c16Keys.clientKey)
	set("wrong-key", tok, e)
	tok, e = mk(func(c *security.CustomClaims) { c.Issuer = "node:other" }, jwt.SigningMethodRS256, nodeKey)
	set("wrong-issuer", tok, e)
	tok, e = mk(func(c *security.CustomClaims) { c.Audience = jwt.ClaimStrings{"node:other"} }, jwt.SigningMethodRS256, nodeKey)
	set("wrong-audience", tok, e)
	tok, e = mk(nil, jwt.SigningMethodHS256, c16Keys.pub)
	set("hs256-signed-with-public-key", tok, e)
	tok, e = mk(nil, jwt.SigningMethodNone, jwt.UnsafeAllowNoneSignatureType)
	set("alg-none", tok, e)
	good, e := mk(nil, jwt.SigningMethodRS256, nodeKey)
	if e == nil {
		// valid token with a corrupted signature, and one with a tampered payload
		out["bad-signature"] = good[:len(good)-6] + "AAAAAA"
		parts := strings.Split(strings.TrimPrefix(good, "Bearer "), ".")
		other, _ := mk(func(c *security.CustomClaims) { c.Subject = "someone-else" }, jwt.SigningMethodRS256, c16Keys.clientKey)
		op := strings.Split(strings.TrimPrefix(other, "Bearer "), ".")
		out["tampered-payload"] = "Bearer " + parts[0] + "." + op[1] + "." + parts[2]
		out["no-bearer-scheme"] = strings.TrimPrefix(good, "Bearer ")
		out["self-check-valid"] = good
	}
	set("good", good, e)
	delete(out, "good")
	out["garbage"] = "Bearer abc.def.ghi"
	out["empty-bearer"] = "Bearer "
	out["absent"] = ""
	return out, err
}

// shortLived: a correctly signed admin token that expires at the returned instant.
func (s *c16Sec) shortLived(life time.Duration) (string, time.Time, error) {
	exp := time.Now().Add(life).Truncate(time.Second)
	c := security.CustomClaims{Roles: []string{"admin"}}
	c.RegisteredClaims = jwt.RegisteredClaims{
		ExpiresAt: jwt.NewNumericDate(exp),
		Issuer:    "node:" + c16Node,
		Audience:  jwt.ClaimStrings{"node:" + c16Node},
		Subject:   c16Admin,
	}
	tok, err := jwt.NewWithClaims(jwt.SigningMethodRS256, c).SignedString(s.Core.NodeInfo.KeyPairs[0].PrivateKey)
	return "Bearer " + tok, exp, err
}

// ---- route table -------------------------------------------------------------------

type c16Route struct {
	Method string
	Tmpl   string // registered path template
	Path   string // instantiated
	Reg    bool   // registered (method, path)
}

var c16Params = map[string]string{":dataset": "people", ":ds": "people", ":jobid": "job1", ":contentId": "c1", ":providerName": "prov1", ":clientid": "other"}

// routes served without a token (middleware.go skipper: /health, the icons, /api,
// /static, /security/token - only two of them have handlers in this router) and
// routes that authenticate but carry no authorizer (the service-info root).
var (
	c16OpenRoutes   = map[string]bool{"GET /health": true, "POST /security/token": true}
	c16NoACLRoutes  = map[string]bool{"GET /": true}
	c16SkipPrefixes = []string{"/health", "/mimiro-favicon.png", "/favicon.ico", "/api", "/static", "/security/token"}
)

func c16Routes(e *echo.Echo) (reg []c16Route, unreg []c16Route) {
	seen := map[string]bool{}
	paths := map[string]string{}
	for _, r := range e.Routes() {
		p := r.Path
		for k, v := range c16Params {
			p = strings.ReplaceAll(p, k, v)
		}
		if strings.Contains(p, ":") || strings.Contains(p, "*") {
			continue // a parameter this table does not know: reported by the caller through the count
		}
		key := r.Method + " " + p
		if seen[key] {
			continue
		}
		seen[key] = true
		paths[p] = r.Path
		reg = append(reg, c16Route{Method: r.Method, Tmpl: r.Path, Path: p, Reg: true})
	}
	sort.Slice(reg, func(i, j int) bool { return reg[i].Method+" "+reg[i].Path < reg[j].Method+" "+reg[j].Path })
	var ps []string
	for p := range paths {
		ps = append(ps, p)
	}
	sort.Strings(ps)
	for _, p := range ps {
		for _, m := range []string{"GET", "POST", "PUT", "PATCH", "DELETE", "HEAD"} {
			if !seen[m+" "+p] {
				unreg = append(unreg, c16Route{Method: m, Tmpl: paths[p], Path: p})
			}
		}
	}
	unreg = append(unreg, c16Route{Method: "GET", Path: "/nosuch"}, c16Route{Method: "POST", Path: "/datasets/people/nosuch"}, c16Route{Method: "DELETE", Path: "/security"})
	return
}

func (r c16Route) key() string { return r.Method + " " + r.Path }

func (r c16Route) skipped() bool {
	for _, p := range c16SkipPrefixes {
		if strings.HasPrefix(r.Path, p) {
			return true
		}
	}
	return false
}

// ---- reference decision ------------------------------------------------------------

type c16AC struct {
	Resource string
	Action   string
	Deny     bool
}

func c16Needed(method string) string {
	switch method {
	case "GET", "HEAD", "OPTIONS":
		return "read"
	}
	return "write"
}

func (a c16AC) matches(path string) bool {
	if a.Resource == path {
		return true
	}
	return strings.HasSuffix(a.Resource, "*") && strings.HasPrefix(path, a.Resource[:len(a.Resource)-1])
}

func (a c16AC) covers(needed string) bool {
	return a.Action == needed || (needed == "read" && a.Action == "write")
}

type c16Verdict struct {
	Decision  string // allow | deny | ambiguous
	Rule      string
	Matching  int
	F17a      bool // input shape: PUT/PATCH with a matching read-only allow
	F17b      bool // input shape: covering allow next to a matching deny for the needed action
	DupAllows int
}

func c16Decide(method, path string, acl []c16AC) c16Verdict {
	needed := c16Needed(method)
	v := c16Verdict{}
	hasAllow, denyNeeded, denyOther, readAllow := false, false, false, false
	for _, a := range acl {
		if !a.matches(path) {
			continue
		}
		v.Matching++
		switch {
		case a.Deny && a.Action == needed:
			denyNeeded = true
		case a.Deny:
			denyOther = true
		case a.covers(needed):
			hasAllow = true
			v.DupAllows++
		case a.Action == "read":
			readAllow = true
		}
	}
	v.F17a = (method == "PUT" || method == "PATCH") && readAllow && !hasAllow
	v.F17b = hasAllow && denyNeeded
	switch {
	case !hasAllow:
		v.Decision, v.Rule = "deny", "(3) no matching allow entry covers the action"
	case denyNeeded:
		v.Decision, v.Rule = "deny", "(4) a matching deny entry for the needed action"
	case denyOther:
		v.Decision, v.Rule = "ambiguous", "matching deny entry for the other action"
	default:
		v.Decision, v.Rule = "allow", "(5) covering allow, no matching deny"
	}
	return v
}

func c16ToSecurity(acl []c16AC) []*security.AccessControl {
	out := make([]*security.AccessControl, len(acl))
	for i, a := range acl {
		out[i] = &security.AccessControl{Resource: a.Resource, Action: a.Action, Deny: a.Deny}
	}
	return out
}

// c16Lattice: the ACL entries relative to a target path. The first five
// resources are the design's lattice; the last two are near misses that must
// never match (a suffix of the path as pattern, a longer exact path).
func c16Resources(path string, extended bool) []string {
	parent := path
	if i := strings.LastIndex(path, "/"); i >= 0 {
		parent = path[:i]
	}
	rs := []string{path, path + "*", parent + "/*", "/*", "/zzz/unrelated*"}
	if extended {
		rs = append(rs, strings.TrimPrefix(path, "/")+"*", path+"x")
		if len(path) > 2 {
			rs = append(rs, path[:len(path)-2]+"*")
		}
	}
	// dedupe, order preserved
	seen := map[string]bool{}
	var out []string
	for _, r := range rs {
		if !seen[r] {
			seen[r] = true
			out = append(out, r)
		}
	}
	return out
}

func c16Lattice(path string, extended bool) []c16AC {
	var out []c16AC
	for _, r := range c16Resources(path, extended) {
		for _, act := range []string{"read", "write"} {
			for _, deny := range []bool{false, true} {
				out = append(out, c16AC{r, act, deny})
			}
		}
	}
	return out
}

// ---- the check ------------------------------------------------------------------------

type c16Case struct {
	Method   string  `json:"method"`
	Path     string  `json:"path"`
	Token    string  `json:"token"`
	ACL      []c16AC `json:"acl"`
	Expected string  `json:"expected,omitempty"`
	Rule     string  `json:"rule,omitempty"`
	Got      int     `json:"status,omitempty"`
}

type c16Fixture struct {
	sec    *c16Sec // matrix hub: handlers may destroy it
	list   *c16Sec // clean hub for the dataset list oracle
	admin  string
	client string
	ladmin string
	lcli   string
	minted time.Time
}

var c16ListDatasets = []string{"people", "people2", "places", "pl"}

func c16Setup(t interface{ Fatalf(string, ...any) }) *c16Fixture {
	if err := c16InitKeys(); err != nil {
		t.Fatalf("VERIF-INFRA security key setup: %v", err)
	}
	f := &c16Fixture{}
	f.sec = c16Wire(kit.NewHub(kit.HubOpts{}), c16NewSecDir(), nil, nil)
	f.list = c16Wire(kit.NewHub(kit.HubOpts{}), c16NewSecDir(), f.sec.sch, f.sec.run)
	for _, s := range []*c16Sec{f.sec, f.list} {
		for _, ds := range c16ListDatasets {
			if _, err := s.H.Dsm.CreateDataset(ds, nil); err != nil {
				t.Fatalf("VERIF-INFRA create dataset: %v", err)
			}
		}
	}
	f.mint(t)
	return f
}

// mint obtains fresh tokens through the real token endpoint (they live 15 minutes).
func (f *c16Fixture) mint(t interface{ Fatalf(string, ...any) }) {
	var err error
	get := func(s *c16Sec) (string, string) {
		admin, e := s.adminToken()
		if e != nil {
			err = e
			return "", ""
		}
		if e := s.registerClient(admin, c16Client, false); e != nil {
			err = e
		}
		cli, e := s.clientToken(c16Client)
		if e != nil {
			err = e
		}
		return admin, cli
	}
	f.admin, f.client = get(f.sec)
	f.ladmin, f.lcli = get(f.list)
	if err != nil {
		t.Fatalf("VERIF-INFRA cannot obtain tokens: %v", err)
	}
	f.minted = time.Now()
}

func (f *c16Fixture) fresh(t interface{ Fatalf(string, ...any) }) {
	if time.Since(f.minted) > 5*time.Minute {
		f.mint(t)
	}
}

func (f *c16Fixture) close() {
	f.sec.H.Close()
	f.list.H.Close()
}

func c16Fail(t interface{ Fatalf(string, ...any) }, c any, format string, a ...any) {
	b, _ := json.MarshalIndent(c, "", " ")
	t.Fatalf("%s\nVERIF-CASE-BEGIN\n%s\nVERIF-CASE-END", fmt.Sprintf(format, a...), b)
}

// aclRequest: one client request under an ACL list, compared with the reference.
func (f *c16Fixture) aclRequest(t interface{ Fatalf(string, ...any) }, s *c16Sec, token string, r c16Route, acl []c16AC, viaAPI bool, classes ...string) {
	v := c16Decide(r.Method, r.Path, acl)
	cs := c16Case{Method: r.Method, Path: r.Path, Token: "valid-client", ACL: acl, Expected: v.Decision, Rule: v.Rule}
	kit.Journal(cs)
	cls := append([]string{"acl-request", "ref-" + v.Decision, "method-" + r.Method, fmt.Sprintf("acl-len-%d", len(acl))}, classes...)
	kit.S().Case(cs, v.Matching >= 2, cls...)
	if viaAPI {
		b, _ := json.Marshal(c16ToSecurity(acl))
		admin := f.admin
		if s == f.list {
			admin = f.ladmin
		}
		if resp := s.do("POST", "/security/clients/"+c16Client+"/acl", string(b), "application/json", admin); resp.Code != 200 {
			t.Fatalf("VERIF-INFRA cannot set ACL through the admin API: %d %s %s", resp.Code, resp.Body, resp.Panic)
		}
	} else {
		s.Core.SetClientAccessControls(c16Client, c16ToSecurity(acl))
	}
	if v.Decision == "ambiguous" {
		kit.S().AddExtra("ambiguous_not_asserted", 1)
	}
	if kit.Known("F17") && (v.F17a || v.F17b) {
		kit.S().Exclude("F17")
		return
	}
	resp := s.do(r.Method, r.Path, "", "", token)
	cs.Got = resp.Code
	d := resp.decision()
	switch v.Decision {
	case "deny":
		if d != "forbidden" {
			c16Fail(t, cs, "%s %s was not refused (HTTP %d %s, want 403) although %s", r.Method, r.Path, resp.Code, resp.Panic, v.Rule)
		}
	case "allow":
		if d != "passed" {
			c16Fail(t, cs, "%s %s was refused (HTTP %d %s %.200s) although %s", r.Method, r.Path, resp.Code, resp.Panic, resp.Body, v.Rule)
		}
	default:
		if d == "unauthenticated" || d == "panic" {
			c16Fail(t, cs, "%s %s with a valid client token: HTTP %d %s", r.Method, r.Path, resp.Code, resp.Panic)
		}
	}
	// the same request with one character of a path parameter percent-encoded is the same request:
	// an ACL entry (a deny in particular) applies to the resource, not to one spelling of it
	if enc := c16EncodeOne(r); enc != r.Path && (v.Decision == "deny" || v.Decision == "allow") {
		resp := s.do(r.Method, enc, "", "", token)
		cs.Path, cs.Got = enc, resp.Code
		kit.S().Class("percent-encoded-spelling", 1)
		switch d := resp.decision(); {
		case v.Decision == "deny" && d != "forbidden":
			c16Fail(t, cs, "%s %s (= %s) was not refused (HTTP %d %s, want 403) although %s", r.Method, enc, r.Path, resp.Code, resp.Panic, v.Rule)
		case v.Decision == "allow" && d != "passed":
			c16Fail(t, cs, "%s %s (= %s) was refused (HTTP %d %s %.200s) although %s", r.Method, enc, r.Path, resp.Code, resp.Panic, resp.Body, v.Rule)
		}
	}
}

// c16EncodeOne percent-encodes the first letter of the second path segment when
// that segment is a path PARAMETER of the registered route (a dataset name, a
// job id ...): the router matches any spelling of a parameter, while a static
// segment spelled differently is simply an unknown path (404 before any
// authorisation, nothing is served).
func c16EncodeOne(r c16Route) string {
	path := r.Path
	tsegs := strings.Split(r.Tmpl, "/")
	if !r.Reg || len(tsegs) < 3 || !strings.HasPrefix(tsegs[2], ":") {
		return path
	}
	i := strings.Index(path[1:], "/")
	if i < 0 || i+2 >= len(path) {
		return path
	}
	at := i + 2
	c := path[at]
	if !(c >= 'a' && c <= 'z' || c >= 'A' && c <= 'Z') {
		return path
	}
	return path[:at] + fmt.Sprintf("%%%02x", c) + path[at+1:]
}

func TestVerif_C16(t *testing.T) {
	defer kit.S().Flush()
	defer kit.CleanupScratch()
	shard, shards := kit.EnvInt("VERIF_SHARD", 0), kit.EnvInt("VERIF_SHARDS", 1)
	thorough := kit.Tier() == "thorough"
	f := c16Setup(t)
	defer f.close()
	reg, unreg := c16Routes(f.sec.E)
	if shard == 0 {
		kit.S().SetExtra("registered_routes", len(reg))
		kit.S().SetExtra("unregistered_method_path_pairs", len(unreg))
	}
	if len(reg) < 50 || len(reg) != len(f.sec.E.Routes()) {
		t.Fatalf("VERIF-INFRA route table: %d instantiated of %d registered (unknown path parameter?)", len(reg), len(f.sec.E.Routes()))
	}

	// ---- part 0: the documented decisions (access_matrix_integration_test.go, "valid nodeSec" rows:
	// bob has write on /datasets and /datasets/places) must come out of the reference and the hub alike
	if shard == 0 {
		acl := []c16AC{{"/datasets", "write", false}, {"/datasets/places", "write", false}}
		for _, row := range []struct {
			path string
			want string
		}{{"/datasets", "allow"}, {"/jobs", "deny"}, {"/datasets/places/changes", "deny"}} {
			if v := c16Decide("GET", row.path, acl); v.Decision != row.want {
				t.Fatalf("VERIF-INFRA reference decision disagrees with the documented access matrix: GET %s -> %s, documented %s", row.path, v.Decision, row.want)
			}
			f.aclRequest(t, f.list, f.lcli, c16Route{Method: "GET", Path: row.path, Reg: true}, acl, true, "documented-matrix")
		}
		resp := f.list.do("GET", "/datasets", "", "", f.lcli)
		if resp.Code != 200 || strings.TrimSpace(resp.Body) != `[{"Name":"places"}]` {
			c16Fail(t, c16Case{Method: "GET", Path: "/datasets", Token: "valid-client", ACL: acl, Got: resp.Code}, "documented access matrix: GET /datasets must answer 200 [{\"Name\":\"places\"}], got %d %s", resp.Code, resp.Body)
		}
		if resp := f.list.do("GET", "/datasets", "", "", ""); resp.Code != 401 || !strings.Contains(resp.Body, "missing or malformed jwt") {
			c16Fail(t, c16Case{Method: "GET", Path: "/datasets", Token: "absent", Got: resp.Code}, "documented access matrix: no token must answer 401 missing or malformed jwt, got %d %s", resp.Code, resp.Body)
		}
	}

	// ---- part 1b: a token that expires BETWEEN two requests. It is presented while still valid
	// (served), then again after its expiry: that second request must be refused like any expired
	// token, whatever the hub remembered about the first one. Checked after part 1 (the wait is
	// spent there); three GET routes per shard.
	type expiring struct {
		route c16Route
		tok   string
		exp   time.Time
		ok    bool
	}
	var exps []expiring
	for i, r := range reg {
		if r.Method != "GET" || c16OpenRoutes[r.key()] || i%shards != shard || len(exps) >= 3 {
			continue
		}
		tok, exp, err := f.sec.shortLived(4 * time.Second)
		if err != nil {
			t.Fatalf("VERIF-INFRA cannot build a short-lived token: %v", err)
		}
		resp := f.sec.do(r.Method, r.Path, "", "", tok)
		// under load the token may have expired before the first use: such a case proves nothing
		exps = append(exps, expiring{r, tok, exp, resp.decision() == "passed" && time.Now().Before(exp)})
	}

	// ---- part 1: tokens (rules 1, 2) - every route x every token kind -----------------
	bad, err := f.sec.badTokens()
	if err != nil {
		t.Fatalf("VERIF-INFRA cannot build tokens: %v", err)
	}
	// self-check of the token factory: the unmodified token must be accepted
	if r := f.sec.do("GET", "/datasets", "", "", bad["self-check-valid"]); r.decision() != "passed" {
		t.Fatalf("VERIF-INFRA token factory produces tokens the hub rejects: %d %s", r.Code, r.Body)
	}
	delete(bad, "self-check-valid")
	kinds := kit.SortedKeys(bad)
	idx := 0
	for _, r := range append(append([]c16Route{}, reg...), unreg...) {
		for _, k := range kinds {
			idx++
			if idx%shards != shard {
				continue
			}
			cs := c16Case{Method: r.Method, Path: r.Path, Token: k}
			kit.Journal(cs)
			cls := []string{"token-request", "token-" + k}
			if !r.Reg {
				cls = append(cls, "unregistered-method-or-path")
			}
			kit.S().Case(cs, k != "absent", cls...)
			resp := f.sec.do(r.Method, r.Path, "", "", bad[k])
			cs.Got = resp.Code
			open := c16OpenRoutes[r.key()] || (!r.Reg && r.skipped())
			switch {
			case open && r.Reg && k == "absent":
				if resp.Code == 401 || resp.Code == 403 {
					c16Fail(t, cs, "documented open route %s answered %d without a token", r.key(), resp.Code)
				}
			case open:
				// open routes do not look at the token
			case resp.Code != 401:
				c16Fail(t, cs, "%s with token defect %q: HTTP %d %s %.300s (want 401)", r.key(), k, resp.Code, resp.Panic, resp.Body)
			}
		}
		// a valid admin token is served everywhere (registered routes)
		if r.Reg {
			idx++
			if idx%shards == shard {
				f.fresh(t)
				cs := c16Case{Method: r.Method, Path: r.Path, Token: "valid-admin"}
				kit.S().Case(cs, true, "token-request", "token-valid-admin")
				if r.key() == "DELETE /datasets" {
					continue // wipes the hub; its decision is taken by the same middleware chain as every other route
				}
				resp := f.sec.do(r.Method, r.Path, "", "", f.admin)
				if d := resp.decision(); d != "passed" {
					cs.Got = resp.Code
					c16Fail(t, cs, "valid admin token refused on %s: HTTP %d %s %.300s", r.key(), resp.Code, resp.Panic, resp.Body)
				}
			}
		}
	}
	for _, x := range exps {
		cs := c16Case{Method: x.route.Method, Path: x.route.Path, Token: "expires-between-two-requests"}
		if !x.ok {
			kit.S().Inconcl()
			continue
		}
		if d := time.Until(x.exp.Add(1200 * time.Millisecond)); d > 0 {
			time.Sleep(d)
		}
		kit.Journal(cs)
		resp := f.sec.do(x.route.Method, x.route.Path, "", "", x.tok)
		cs.Got = resp.Code
		kit.S().Case(cs, true, "token-request", "token-expires-between-two-requests")
		if resp.Code != 401 {
			c16Fail(t, cs, "%s: a token that was served while valid is still served %v after its expiry: HTTP %d %.200s (want 401)", x.route.key(), time.Since(x.exp).Round(time.Millisecond), resp.Code, resp.Body)
		}
	}

	// ---- part 2: ACL lattice, all ordered lists of length <= 2, every route ------------
	for _, r := range reg {
		if c16OpenRoutes[r.key()] {
			continue
		}
		if c16NoACLRoutes[r.key()] {
			if shard == 0 {
				kit.S().AddExtra("routes_without_authorizer_not_asserted", 1)
			}
			continue
		}
		// all ordered lists of length <= 2 over the extended lattice (the design's five
		// resources plus three near misses); thorough: also every list of length 3 over the five
		lat := c16Lattice(r.Path, true)
		lists := [][]c16AC{{}}
		for _, a := range lat {
			lists = append(lists, []c16AC{a})
		}
		for _, a := range lat {
			for _, b := range lat {
				lists = append(lists, []c16AC{a, b})
			}
		}
		if thorough {
			base := c16Lattice(r.Path, false)
			for _, a := range base {
				for _, b := range base {
					for _, c := range base {
						lists = append(lists, []c16AC{a, b, c})
					}
				}
			}
		}
		for _, acl := range lists {
			idx++
			if idx%shards != shard {
				continue
			}
			f.fresh(t)
			f.aclRequest(t, f.sec, f.client, r, acl, false, "exhaustive")
		}
	}
	kit.JournalDone()

	// ---- part 3 (generated): longer lists, dataset list filtering, restart --------------
	aclRoutes := []c16Route{}
	for _, r := range reg {
		if !c16OpenRoutes[r.key()] && !c16NoACLRoutes[r.key()] && r.key() != "DELETE /datasets" {
			aclRoutes = append(aclRoutes, r)
		}
	}
	rapid.Check(t, func(t *rapid.T) {
		f.fresh(t)
		defer kit.JournalDone()
		switch rapid.SampledFrom([]string{"long-acl", "long-acl", "dataset-list", "dataset-list", "restart"}).Draw(t, "part") {
		case "long-acl":
			r := rapid.SampledFrom(aclRoutes).Draw(t, "route")
			lat := c16Lattice(r.Path, true)
			n := rapid.IntRange(3, 4).Draw(t, "n")
			acl := make([]c16AC, n)
			for i := range acl {
				acl[i] = rapid.SampledFrom(lat).Draw(t, "ac")
			}
			f.aclRequest(t, f.sec, f.client, r, acl, true, "sampled-long")
		case "dataset-list":
			c16DatasetList(t, f)
		default:
			c16Restart(t, f, aclRoutes)
		}
	})
}

// (6) GET /datasets lists a dataset iff the ACL grants read on /datasets/<name>, each once.
func c16DatasetList(t *rapid.T, f *c16Fixture) {
	pool := []string{"/datasets", "/datasets*", "/datasets/*", "/*", "/datasets/people", "/datasets/people*", "/datasets/pe*", "/datasets/p*",
		"/datasets/places", "/datasets/pl", "/datasets/pl*", "/datasets/people2", "/datasets/core.Dataset", "/datasets/core.*", "/datasets/places/changes", "/jobs*", "datasets/people*"}
	n := rapid.IntRange(1, 4).Draw(t, "n")
	acl := make([]c16AC, n)
	for i := range acl {
		acl[i] = c16AC{rapid.SampledFrom(pool).Draw(t, "res"), rapid.SampledFrom([]string{"read", "read", "write"}).Draw(t, "act"), rapid.IntRange(0, 3).Draw(t, "deny") == 0}
	}
	s := f.list
	cs := c16Case{Method: "GET", Path: "/datasets", Token: "valid-client", ACL: acl}
	kit.Journal(cs)
	top := c16Decide("GET", "/datasets", acl)
	names := append([]string{"core.Dataset"}, c16ListDatasets...)
	granted := 0
	for _, ds := range names {
		if c16Decide("GET", "/datasets/"+ds, acl).Decision == "allow" {
			granted++
		}
	}
	kit.S().Case(cs, top.Decision == "allow" && granted >= 1 && granted < len(names), "dataset-list", "list-ref-"+top.Decision)
	b, _ := json.Marshal(c16ToSecurity(acl))
	if resp := s.do("POST", "/security/clients/"+c16Client+"/acl", string(b), "application/json", f.ladmin); resp.Code != 200 {
		t.Fatalf("VERIF-INFRA cannot set ACL: %d %s", resp.Code, resp.Body)
	}
	if kit.Known("F17") && (top.F17a || top.F17b) {
		kit.S().Exclude("F17")
		return
	}
	resp := s.do("GET", "/datasets", "", "", f.lcli)
	cs.Got = resp.Code
	switch top.Decision {
	case "deny":
		if resp.Code != 403 {
			c16Fail(t, cs, "GET /datasets not refused (HTTP %d) although %s", resp.Code, top.Rule)
		}
		return
	case "ambiguous":
		kit.S().AddExtra("ambiguous_not_asserted", 1)
		if resp.Code != 200 {
			return
		}
	default:
		if resp.Code != 200 {
			c16Fail(t, cs, "GET /datasets refused (HTTP %d %.200s) although %s", resp.Code, resp.Body, top.Rule)
		}
	}
	var listed []struct{ Name string }
	if err := json.Unmarshal([]byte(resp.Body), &listed); err != nil {
		c16Fail(t, cs, "GET /datasets: unreadable body %.300s", resp.Body)
	}
	count := map[string]int{}
	for _, l := range listed {
		count[l.Name]++
	}
	for _, ds := range names {
		v := c16Decide("GET", "/datasets/"+ds, acl)
		if kit.Known("F17") && (v.F17b || v.DupAllows >= 2) {
			kit.S().Exclude("F17")
			continue
		}
		switch v.Decision {
		case "allow":
			if count[ds] != 1 {
				c16Fail(t, cs, "GET /datasets lists %q %d times; the ACL grants read on /datasets/%s (%s), so exactly once. body=%s", ds, count[ds], ds, v.Rule, resp.Body)
			}
		case "deny":
			if count[ds] != 0 {
				c16Fail(t, cs, "GET /datasets lists %q although read on /datasets/%s is not granted: %s. body=%s", ds, ds, v.Rule, resp.Body)
			}
		default:
			kit.S().AddExtra("ambiguous_not_asserted", 1)
		}
	}
	for name := range count {
		known := false
		for _, ds := range names {
			known = known || ds == name
		}
		if !known {
			c16Fail(t, cs, "GET /datasets lists unknown dataset %q", name)
		}
	}
}

// (7) client registrations and ACLs survive a restart unchanged, same answers afterwards.
type c16AdminOp struct {
	Op      string  `json:"op"` // register | unregister | set-acl | delete-acl
	Subject string  `json:"subject"`
	ACL     []c16AC `json:"acl,omitempty"`
}

func c16SecState(core *security.ServiceCore) string {
	type st struct {
		Clients map[string]*security.ClientInfo
		ACLs    map[string][]*security.AccessControl
	}
	s := st{Clients: map[string]*security.ClientInfo{}, ACLs: map[string][]*security.AccessControl{}}
	for k, c := range core.GetClients() {
		sum := sha256.Sum256(c.PublicKey)
		s.Clients[k] = &security.ClientInfo{ClientID: c.ClientID, PublicKey: sum[:6], Deleted: c.Deleted}
	}
	for k, v := range core.GetAllAccessControls() {
		if len(v) > 0 { // an empty list grants nothing, like no list
			s.ACLs[k] = v
		}
	}
	b, _ := json.Marshal(s)
	return string(b)
}

func c16Restart(t *rapid.T, f *c16Fixture, routes []c16Route) {
	h := f.sec.H
	s := c16Wire(h, c16NewSecDir(), f.sec.sch, f.sec.run)
	admin, err := s.adminToken()
	if err != nil {
		t.Fatalf("VERIF-INFRA %v", err)
	}
	subjects := []string{c16Client, "client2", "oauth|bob"}
	resPool := []string{"/datasets*", "/datasets/people", "/datasets/people/*", "/jobs*", "/*", "/datasets"}
	n := rapid.IntRange(1, 6).Draw(t, "nops")
	var ops []c16AdminOp
	hasDelete, registered := false, false
	for i := 0; i < n; i++ {
		op := c16AdminOp{Op: rapid.SampledFrom([]string{"register", "set-acl", "set-acl", "set-acl", "delete-acl", "unregister"}).Draw(t, "op"), Subject: rapid.SampledFrom(subjects).Draw(t, "subject")}
		if op.Op == "set-acl" {
			m := rapid.IntRange(0, 3).Draw(t, "nacl")
			for j := 0; j < m; j++ {
				op.ACL = append(op.ACL, c16AC{rapid.SampledFrom(resPool).Draw(t, "res"), rapid.SampledFrom([]string{"read", "write"}).Draw(t, "act"), rapid.IntRange(0, 3).Draw(t, "deny") == 0})
			}
		}
		ops = append(ops, op)
		hasDelete = hasDelete || op.Op == "delete-acl" || op.Op == "unregister"
		registered = registered || op.Op == "register" || op.Op == "unregister"
	}
	kit.Journal(ops)
	kit.S().Case(ops, len(ops) >= 2, "restart")
	if kit.Known("F14") && hasDelete {
		kit.S().Exclude("F14")
		return
	}
	if kit.Known("F14b") && !registered {
		kit.S().Exclude("F14b")
		return
	}
	// the model: what the admin API calls mean
	clients := map[string]bool{}
	acls := map[string][]c16AC{}
	for _, op := range ops {
		var resp c16Resp
		switch op.Op {
		case "register":
			if err := s.registerClient(admin, op.Subject, false); err != nil {
				t.Fatalf("VERIF-INFRA %v", err)
			}
			clients[op.Subject] = true
		case "unregister":
			if err := s.registerClient(admin, op.Subject, true); err != nil {
				t.Fatalf("VERIF-INFRA %v", err)
			}
			delete(clients, op.Subject)
			delete(acls, op.Subject)
		case "set-acl":
			b, _ := json.Marshal(c16ToSecurity(op.ACL))
			resp = s.do("POST", "/security/clients/"+url.PathEscape(op.Subject)+"/acl", string(b), "application/json", admin)
			acls[op.Subject] = op.ACL
		case "delete-acl":
			resp = s.do("DELETE", "/security/clients/"+url.PathEscape(op.Subject)+"/acl", "", "", admin)
			delete(acls, op.Subject)
		}
		if resp.Code != 0 && resp.Code != 200 {
			t.Fatalf("VERIF-INFRA admin op %+v: %d %s", op, resp.Code, resp.Body)
		}
	}
	// live state == model
	wantClients := kit.SortedKeys(clients)
	gotClients := kit.SortedKeys(s.Core.GetClients())
	if strings.Join(wantClients, ",") != strings.Join(gotClients, ",") {
		c16Fail(t, ops, "registered clients %v, want %v", gotClients, wantClients)
	}
	for _, sub := range subjects {
		got, _ := json.Marshal(s.Core.GetAccessControls(sub))
		want, _ := json.Marshal(c16ToSecurity(acls[sub]))
		if len(acls[sub]) == 0 && (string(got) == "null" || string(got) == "[]") {
			continue
		}
		if !bytes.Equal(got, want) {
			c16Fail(t, ops, "ACL of %s is %s, want %s", sub, got, want)
		}
	}
	// restart: a fresh ServiceCore from the same directory
	before := c16SecState(s.Core)
	s2 := s.Rewire()
	after := c16SecState(s2.Core)
	if before != after {
		c16Fail(t, ops, "client registrations / ACLs changed by a restart\nbefore=%s\n after=%s", before, after)
	}
	// same matrix, same answers (the client token is issued by the same node key)
	if clients[c16Client] {
		tok, err := s.clientToken(c16Client)
		if err != nil {
			t.Fatalf("VERIF-INFRA %v", err)
		}
		for i := 0; i < 6; i++ {
			r := rapid.SampledFrom(routes).Draw(t, "route")
			if r.Method != "GET" {
				continue // keep both web layers on an unchanged hub
			}
			a, b := s.do(r.Method, r.Path, "", "", tok), s2.do(r.Method, r.Path, "", "", tok)
			if a.decision() != b.decision() {
				c16Fail(t, ops, "%s answered %d before and %d after the restart", r.key(), a.Code, b.Code)
			}
		}
	}
}

// ---- probes --------------------------------------------------------------------------

func c16ProbeFixture(t *testing.T) *c16Fixture {
	f := c16Setup(t)
	t.Cleanup(func() { f.close(); kit.CleanupScratch() })
	return f
}

// F17: PUT/PATCH need only read; an allow overrides a deny; duplicates in the
// filtered dataset list.
func TestVerifProbe_F17(t *testing.T) {
	f := c16ProbeFixture(t)
	s := f.sec
	set := func(acl ...c16AC) { s.Core.SetClientAccessControls(c16Client, c16ToSecurity(acl)) }
	bad := 0
	// (a) read-only ACL renames a dataset through PATCH
	set(c16AC{"/datasets/people", "read", false})
	if r := s.do("PATCH", "/datasets/people", `{"name":"renamed"}`, "application/json", f.client); r.Code != 403 {
		t.Errorf("PATCH /datasets/people with a read-only ACL: HTTP %d %s (want 403)", r.Code, r.Body)
		bad++
	}
	set(c16AC{"/job/*", "read", false})
	if r := s.do("PUT", "/job/job1/run", "", "", f.client); r.Code != 403 {
		t.Errorf("PUT /job/job1/run with a read-only ACL: HTTP %d (want 403)", r.Code)
		bad++
	}
	// (b) explicit deny next to a broader allow, both orders
	for _, acl := range [][]c16AC{
		{{"/datasets/*", "read", false}, {"/datasets/places", "read", true}},
		{{"/datasets/places", "read", true}, {"/datasets/*", "read", false}},
	} {
		set(acl...)
		if r := s.do("GET", "/datasets/places", "", "", f.client); r.Code != 403 {
			t.Errorf("GET /datasets/places with %+v: HTTP %d (want 403)", acl, r.Code)
			bad++
		}
	}
	// (c) two granting entries list the dataset twice; a denied dataset is listed
	f.list.Core.SetClientAccessControls(c16Client, c16ToSecurity([]c16AC{{"/datasets*", "read", false}, {"/datasets/people", "read", false}, {"/datasets/places", "read", true}}))
	r := f.list.do("GET", "/datasets", "", "", f.lcli)
	var listed []struct{ Name string }
	_ = json.Unmarshal([]byte(r.Body), &listed)
	count := map[string]int{}
	for _, l := range listed {
		count[l.Name]++
	}
	if r.Code != 200 || count["people"] != 1 || count["places"] != 0 {
		t.Errorf("GET /datasets: HTTP %d people x%d (want 1) places x%d (want 0): %s", r.Code, count["people"], count["places"], r.Body)
		bad++
	}
	if bad > 0 {
		t.Fatalf("F17 present (%d of 6 expectations failed)", bad)
	}
}

// F14: DeleteClientAccessControls writes the client map into acls.json, so the
// other clients' ACLs are gone after a restart.
func TestVerifProbe_F14(t *testing.T) {
	f := c16ProbeFixture(t)
	s := c16Wire(f.sec.H, c16NewSecDir(), f.sec.sch, f.sec.run)
	admin, err := s.adminToken()
	if err != nil {
		t.Fatalf("VERIF-INFRA %v", err)
	}
	for _, id := range []string{c16Client, "client2"} {
		if err := s.registerClient(admin, id, false); err != nil {
			t.Fatalf("VERIF-INFRA %v", err)
		}
		b, _ := json.Marshal(c16ToSecurity([]c16AC{{"/datasets*", "read", false}}))
		s.do("POST", "/security/clients/"+id+"/acl", string(b), "application/json", admin)
	}
	if r := s.do("DELETE", "/security/clients/client2/acl", "", "", admin); r.Code != 200 {
		t.Fatalf("VERIF-INFRA delete acl: %d", r.Code)
	}
	before := c16SecState(s.Core)
	after := c16SecState(s.Rewire().Core)
	if before != after {
		t.Fatalf("F14 present: after DELETE /security/clients/client2/acl and a restart\nbefore=%s\n after=%s\nacls.json=%s", before, after, c16ReadFile(s.Dir, "acls.json"))
	}
}

// F14b: ServiceCore.Init returns at the first missing file: ACLs of a subject
// that is no registered client (e.g. an OAuth user) are not loaded while there is no clients.json.
func TestVerifProbe_F14b(t *testing.T) {
	f := c16ProbeFixture(t)
	s := c16Wire(f.sec.H, c16NewSecDir(), f.sec.sch, f.sec.run)
	admin, err := s.adminToken()
	if err != nil {
		t.Fatalf("VERIF-INFRA %v", err)
	}
	b, _ := json.Marshal(c16ToSecurity([]c16AC{{"/datasets*", "read", false}}))
	if r := s.do("POST", "/security/clients/bob/acl", string(b), "application/json", admin); r.Code != 200 {
		t.Fatalf("VERIF-INFRA set acl: %d", r.Code)
	}
	before := c16SecState(s.Core)
	after := c16SecState(s.Rewire().Core)
	if before != after {
		t.Fatalf("F14b present: ACL of a subject without client registration lost by a restart\nbefore=%s\n after=%s", before, after)
	}
}

func c16ReadFile(dir, name string) string {
	b, _ := os.ReadFile(filepath.Join(dir, name))
	return string(b)
}
