package verifchecks

import (
	"encoding/json"
	"fmt"
	"runtime"
	"sort"
	"strings"
	"sync"
	"testing"
	"time"

	"pgregory.net/rapid"

	kit "github.com/mimiro-io/datahub/internal/verifkit"

	"github.com/mimiro-io/datahub/internal/verifhook"
)

// cop is one operation of one client in a concurrent plan.
type cop struct {
	K     string                `json:"k"` // batch | txn | readFeed | readList | readMerged | mkds | rmds
	DS    string                `json:"ds,omitempty"`
	Ents  []*kit.Ent            `json:"ents,omitempty"`
	Parts map[string][]*kit.Ent `json:"parts,omitempty"`
	ID    string                `json:"id,omitempty"`
	Ctx   bool                  `json:"ctx,omitempty"`
}

type cplan struct {
	Procs   int     `json:"gomaxprocs"`
	Clients [][]cop `json:"clients"`
}

// observation of a single read call
type cread struct {
	client, op int
	kind       string
	ds         string
	id         string
	stamps     []string          // feed: stamps in order; list: stamp per entity; merged: stamps seen
	byID       map[string]string // list: id -> stamp
}

type lockEv struct {
	ev, kind, id string
	gid          int64
}

var c05Datasets = []string{"a", "b", "c"}

// c05Shared: a dataset any client may create (again) at any time; never deleted
const c05Shared = "shared"

func stampOf(e *kit.Ent) string {
	for k, v := range e.Props {
		if strings.HasSuffix(k, ":p0") {
			if s, ok := v.(string); ok {
				return s
			}
		}
	}
	return ""
}

// C05: concurrent writers serialize per dataset, are atomically visible, never deadlock.
func TestVerif_C05(t *testing.T) {
	defer kit.S().Flush()
	defer kit.CleanupScratch()
	defer runtime.GOMAXPROCS(runtime.GOMAXPROCS(0))
	rapid.Check(t, func(t *rapid.T) {
		pool := (&kit.Hub{P: poolPrefixes()}).Pool()
		plan := genPlan(t, pool)
		kit.Journal(plan)
		defer kit.JournalDone()
		runPlan(t, plan, pool, nil)
	})
}

func genPlan(t *rapid.T, pool *kit.Pool) cplan {
	p := cplan{Procs: rapid.SampledFrom([]int{2, 4, 16}).Draw(t, "gomaxprocs")}
	nc := rapid.IntRange(2, 6).Draw(t, "clients")
	for c := 0; c < nc; c++ {
		nops := rapid.IntRange(3, 10).Draw(t, "nops")
		var ops []cop
		scratch := ""
		for o := 0; o < nops; o++ {
			stamp := func(i int) string { return fmt.Sprintf("c%d-o%d-e%d", c, o, i) }
			mk := func(i int) *kit.Ent {
				e := &kit.Ent{ID: rapid.SampledFrom(pool.IDs[:4]).Draw(t, "id"), Props: map[string]any{pool.Keys[0]: stamp(i)}, Refs: map[string]any{}}
				if rapid.Bool().Draw(t, "ref") {
					e.Refs[pool.Preds[0]] = rapid.SampledFrom(pool.IDs[:4]).Draw(t, "tgt")
				}
				return e
			}
			switch rapid.IntRange(0, 13).Draw(t, "kind") {
			case 13:
				// a batch the hub rejects as a whole (its last element carries a null reference), with new
				// identifiers in it: it leaves nothing behind and does not disturb the writers beside it
				n := rapid.IntRange(1, 3).Draw(t, "n")
				var es []*kit.Ent
				for i := 0; i < n; i++ {
					e := mk(i)
					e.ID = fmt.Sprintf("%s:rej-c%d-o%d-%d", pool.P[0], c, o, i)
					es = append(es, e)
				}
				ops = append(ops, cop{K: "badbatch", DS: rapid.SampledFrom(c05Datasets).Draw(t, "ds"), Ents: es})
			case 12:
				// several clients create the SAME new dataset (CreateDataset of an existing name returns that
				// dataset) and write to it as soon as their own call has returned
				ops = append(ops, cop{K: "mkshared", DS: c05Shared})
				ops = append(ops, cop{K: "batch", DS: c05Shared, Ents: []*kit.Ent{mk(0), mk(1)}})
			case 0, 1, 2:
				n := rapid.IntRange(1, 3).Draw(t, "n")
				var es []*kit.Ent
				for i := 0; i < n; i++ {
					es = append(es, mk(i))
				}
				ops = append(ops, cop{K: "batch", DS: rapid.SampledFrom(c05Datasets).Draw(t, "ds"), Ents: es})
			case 3, 4, 5, 6:
				nds := rapid.IntRange(2, 3).Draw(t, "nds")
				perm := rapid.Permutation(c05Datasets).Draw(t, "perm")
				parts := map[string][]*kit.Ent{}
				i := 0
				// the same entity id in every dataset of the transaction (makes torn merged reads observable)
				id := rapid.SampledFrom(pool.IDs[:4]).Draw(t, "txid")
				for _, ds := range perm[:nds] {
					e := mk(i)
					e.ID = id
					parts[ds] = []*kit.Ent{e}
					i++
					if rapid.Bool().Draw(t, "second") {
						parts[ds] = append(parts[ds], mk(i))
						i++
					}
				}
				// sometimes the transaction also names a scratch dataset of some client: it may not exist
				// (yet, any more, ever) when the transaction runs - then the whole transaction is rejected
				if rapid.IntRange(0, 3).Draw(t, "scratchPart") == 0 {
					sd := fmt.Sprintf("s%d", rapid.IntRange(0, nc-1).Draw(t, "scratchOf"))
					e := mk(i)
					e.ID = id
					parts[sd] = []*kit.Ent{e}
				}
				ops = append(ops, cop{K: "txn", Parts: parts, Ctx: rapid.Bool().Draw(t, "ctx")})
			case 7:
				k := rapid.SampledFrom([]string{"readFeed", "readFeedLatest"}).Draw(t, "feedKind")
				ops = append(ops, cop{K: k, DS: rapid.SampledFrom(c05Datasets).Draw(t, "ds")})
			case 8:
				ops = append(ops, cop{K: "readList", DS: rapid.SampledFrom(c05Datasets).Draw(t, "ds")})
			case 9:
				ops = append(ops, cop{K: "readMerged", ID: rapid.SampledFrom(pool.IDs[:4]).Draw(t, "id")})
			default:
				if scratch == "" {
					scratch = fmt.Sprintf("s%d", c)
					ops = append(ops, cop{K: "mkds", DS: scratch})
					ops = append(ops, cop{K: "batch", DS: scratch, Ents: []*kit.Ent{mk(0)}})
				} else {
					ops = append(ops, cop{K: "rmds", DS: scratch})
					scratch = ""
				}
			}
		}
		p.Clients = append(p.Clients, ops)
	}
	return p
}

func planJSON(p cplan) string {
	b, _ := json.MarshalIndent(p, "", " ")
	return string(b)
}

func runPlan(t *rapid.T, plan cplan, pool *kit.Pool, post func(h *WHub, failf func(string, ...any))) {
	failf := func(format string, a ...any) {
		t.Fatalf("%s\nVERIF-CASE-BEGIN\n%s\nVERIF-CASE-END", fmt.Sprintf(format, a...), planJSON(plan))
	}
	runtime.GOMAXPROCS(plan.Procs)
	h := NewWHub(kit.HubOpts{})
	closed := false
	defer func() {
		if !closed {
			h.Close()
		}
	}()
	for _, ds := range c05Datasets {
		if _, err := h.Dsm.CreateDataset(ds, nil); err != nil {
			failf("create dataset: %v", err)
		}
	}
	// lock trace
	var tmu sync.Mutex
	var trace []lockEv
	verifhook.SetLockTracer(func(ev, kind, id string, gid int64) {
		tmu.Lock()
		trace = append(trace, lockEv{ev, kind, id, gid})
		tmu.Unlock()
	})
	defer verifhook.SetLockTracer(nil)

	var rmu sync.Mutex
	var reads []cread
	rejected := map[[2]int]bool{} // transactions rejected because one of their datasets did not exist
	var createGate sync.RWMutex
	errs := make(chan string, 1024)
	var wg sync.WaitGroup
	start := make(chan struct{})
	for ci, ops := range plan.Clients {
		wg.Add(1)
		go func(ci int, ops []cop) {
			defer wg.Done()
			defer func() {
				if r := recover(); r != nil {
					errs <- fmt.Sprintf("client %d panicked: %v", ci, r)
				}
			}()
			<-start
			for oi, op := range ops {
				if oi > 0 {
					// marks "the previous operation of this goroutine has returned" in the lock trace
					verifhook.Release(c05OpDone, "")
				}
				switch op.K {
				case "batch":
					if err := h.StoreBatch(op.DS, op.Ents, "store"); err != nil {
						errs <- fmt.Sprintf("client %d op %d: StoreEntities: %v", ci, oi, err)
					}
				case "txn":
					scratchTxn := hasScratchPart(op)
					if scratchTxn {
						createGate.RLock()
					}
					err := h.Txn(op.Parts, op.Ctx)
					if scratchTxn {
						createGate.RUnlock()
					}
					if err != nil {
						if hasScratchPart(op) && strings.Contains(err.Error(), "no dataset") {
							// a dataset of the transaction does not exist: rejected as a whole
							rmu.Lock()
							rejected[[2]int{ci, oi}] = true
							rmu.Unlock()
							continue
						}
						errs <- fmt.Sprintf("client %d op %d: ExecuteTransaction: %v", ci, oi, err)
					}
				case "mkds":
					// precondition of every write: the dataset's creation has returned (nobody can have been
					// told that it exists before). Transactions naming a scratch dataset therefore do not
					// overlap a CreateDataset call; they do overlap DeleteDataset calls.
					createGate.Lock()
					_, err := h.Dsm.CreateDataset(op.DS, nil)
					createGate.Unlock()
					if err != nil {
						errs <- fmt.Sprintf("client %d op %d: CreateDataset: %v", ci, oi, err)
					}
				case "badbatch":
					es := append([]*kit.Ent{}, op.Ents...)
					es = append(es, &kit.Ent{ID: pool.P[0] + ":bad", Props: map[string]any{}, Refs: map[string]any{pool.Preds[0]: []any{nil}}})
					if err := h.StoreBatch(op.DS, es, "store"); err == nil {
						errs <- fmt.Sprintf("client %d op %d: a batch whose last element carries a null reference was accepted", ci, oi)
					}
				case "mkshared":
					if _, err := h.Dsm.CreateDataset(op.DS, nil); err != nil {
						errs <- fmt.Sprintf("client %d op %d: CreateDataset(%s): %v", ci, oi, op.DS, err)
					}
				case "rmds":
					if err := h.Dsm.DeleteDataset(op.DS); err != nil {
						errs <- fmt.Sprintf("client %d op %d: DeleteDataset: %v", ci, oi, err)
					}
				case "readFeed":
					es, _, err := h.Feed(op.DS, 0, nil, false)
					if err != nil {
						errs <- fmt.Sprintf("client %d op %d: GetChanges: %v", ci, oi, err)
						continue
					}
					r := cread{client: ci, op: oi, kind: "feed", ds: op.DS}
					for _, e := range es {
						r.stamps = append(r.stamps, stampOf(e))
					}
					rmu.Lock()
					reads = append(reads, r)
					rmu.Unlock()
				case "readFeedLatest":
					es, _, err := h.Feed(op.DS, 0, nil, true)
					if err != nil {
						errs <- fmt.Sprintf("client %d op %d: GetChanges(latestOnly): %v", ci, oi, err)
						continue
					}
					r := cread{client: ci, op: oi, kind: "feedLatest", ds: op.DS}
					for _, e := range es {
						r.stamps = append(r.stamps, stampOf(e))
					}
					rmu.Lock()
					reads = append(reads, r)
					rmu.Unlock()
				case "readList":
					es, err := h.Latest(op.DS, nil)
					if err != nil {
						errs <- fmt.Sprintf("client %d op %d: GetEntities: %v", ci, oi, err)
						continue
					}
					r := cread{client: ci, op: oi, kind: "list", ds: op.DS, byID: map[string]string{}}
					for _, e := range es {
						r.byID[e.ID] = stampOf(e)
					}
					rmu.Lock()
					reads = append(reads, r)
					rmu.Unlock()
				case "readMerged":
					e, err := h.Lookup(op.ID, nil)
					if err != nil {
						errs <- fmt.Sprintf("client %d op %d: GetEntity: %v", ci, oi, err)
						continue
					}
					r := cread{client: ci, op: oi, kind: "merged", id: op.ID}
					if e != nil {
						switch v := e.Properties[pool.Keys[0]].(type) {
						case string:
							r.stamps = []string{v}
						case []any:
							for _, x := range v {
								if s, ok := x.(string); ok {
									r.stamps = append(r.stamps, s)
								}
							}
						}
					}
					rmu.Lock()
					reads = append(reads, r)
					rmu.Unlock()
				}
			}
			verifhook.Release(c05OpDone, "")
		}(ci, ops)
	}
	done := make(chan struct{})
	go func() { wg.Wait(); close(done) }()
	close(start)
	watchdog := time.Duration(kit.EnvInt("VERIF_C05_WATCHDOG_S", 20)) * time.Second
	select {
	case <-done:
	case <-time.After(watchdog):
		// a wait-for cycle among goroutines blocked on mutexes is a definite deadlock (mutexes never time out)
		tmu.Lock()
		cyc := waitForCycle(trace)
		if leak := leakedLocks(trace); cyc == "" && leak != "" {
			cyc = "no cycle, but " + leak
		}
		tmu.Unlock()
		if cyc != "" {
			closed = true // the hub cannot be closed any more; leak it
			failf("DEADLOCK: clients did not finish within %v and the lock trace shows a wait-for cycle: %s", watchdog, cyc)
		}
		kit.S().Inconcl()
		closed = true
		t.Skip("watchdog expired without a provable wait-for cycle (inconclusive)")
	}
	close(errs)
	for e := range errs {
		failf("CONCURRENT-OP-FAILED %s", e)
	}
	// a lock that is still held after the operation that took it has returned blocks every later
	// writer of that dataset for good, whether or not one happened to follow in this plan
	tmu.Lock()
	leak := leakedLocks(trace)
	tmu.Unlock()
	if leak != "" {
		failf("LOCK-LEAKED (every later writer deadlocks): %s", leak)
	}

	// ---- final state: per dataset serial order ------------------------------------
	overlapTxn := 0
	pos := map[string]map[string]int{} // ds -> stamp -> position in final feed
	feeds := map[string][]*kit.Ent{}
	finalDS := append([]string{}, c05Datasets...)
	for _, ops := range plan.Clients {
		for _, op := range ops {
			if op.K == "mkshared" && len(finalDS) == len(c05Datasets) {
				finalDS = append(finalDS, c05Shared)
				kit.S().Class("shared-dataset-created-by-several-clients", 1)
			}
		}
	}
	for _, ds := range finalDS {
		feed, _, err := h.Feed(ds, 0, nil, false)
		if err != nil {
			failf("final feed: %v", err)
		}
		feeds[ds] = feed
		pos[ds] = map[string]int{}
		for i, e := range feed {
			st := stampOf(e)
			if e.ID == "" || strings.Contains(e.ID, ":rej-") {
				failf("SERIAL-FEED ds=%s: entry %d of the final feed has id %q (stamp %s): nothing of a rejected batch may be there and every stored version has its identifier", ds, i, e.ID, st)
			}
			if _, dup := pos[ds][st]; dup {
				failf("SERIAL-DUP ds=%s stamp %s appears twice in the final feed", ds, st)
			}
			pos[ds][st] = i
		}
	}
	for _, ds := range finalDS {
		feed := feeds[ds]
		// every acknowledged write is present, batches contiguous and in order, client order preserved
		for ci, ops := range plan.Clients {
			last := -1
			for oi, op := range ops {
				var es []*kit.Ent
				if op.K == "batch" && op.DS == ds {
					es = op.Ents
				} else if op.K == "txn" {
					es = op.Parts[ds]
				}
				if len(es) == 0 {
					continue
				}
				if rejected[[2]int{ci, oi}] {
					// rejected ("no dataset ..."), hence not acknowledged: the final state is the result of the
					// acknowledged writes only, so nothing of it may be there
					for _, e := range es {
						if _, ok := pos[ds][stampOf(e)]; ok {
							failf("TXN-REJECTED-BUT-APPLIED ds=%s: the transaction of client %d op %d returned an error (a dataset it names does not exist) but its version %s is in the feed", ds, ci, oi, stampOf(e))
						}
					}
					continue
				}
				first := -1
				for i, e := range es {
					p, ok := pos[ds][stampOf(e)]
					if !ok {
						failf("SERIAL-LOST ds=%s: acknowledged write %s (client %d op %d) is not in the final feed", ds, stampOf(e), ci, oi)
					}
					if i == 0 {
						first = p
					} else if p != first+i {
						failf("SERIAL-INTERLEAVED ds=%s: batch of client %d op %d is not contiguous in the feed (element %d at %d, first at %d)", ds, ci, oi, i, p, first)
					}
				}
				if first <= last {
					failf("SERIAL-CLIENT-ORDER ds=%s: client %d op %d was committed at %d, before its own earlier op (at %d)", ds, ci, oi, first, last)
				}
				last = first + len(es) - 1
			}
		}
		// latest view == fold of the feed
		want := map[string]string{}
		for _, e := range feed {
			want[e.ID] = stampOf(e)
		}
		list, err := h.Latest(ds, nil)
		if err != nil {
			failf("final listing: %v", err)
		}
		if len(list) != len(want) {
			failf("SERIAL-LATEST ds=%s: latest view has %d entities, the feed implies %d", ds, len(list), len(want))
		}
		for _, e := range list {
			if want[e.ID] != stampOf(e) {
				failf("SERIAL-LATEST ds=%s: latest of %s is %s but the last feed entry is %s", ds, e.ID, stampOf(e), want[e.ID])
			}
		}
	}
	// ---- atomic visibility of single reads ----------------------------------------
	type grp struct {
		ds     string
		stamps []string
	}
	var groups []grp // every batch / transaction part
	type txnRec struct {
		id    string
		heads map[string]string // dataset -> stamp of the version of id written there
	}
	var txns []txnRec
	for ci, ops := range plan.Clients {
		for oi, op := range ops {
			if rejected[[2]int{ci, oi}] {
				kit.S().Class("txn-rejected-missing-dataset", 1)
				continue
			}
			if op.K == "txn" && hasScratchPart(op) {
				kit.S().Class("txn-with-scratch-dataset-accepted", 1)
			}
			if op.K == "batch" && isScratch(op.DS) {
				continue
			}
			if op.K == "batch" {
				g := grp{ds: op.DS}
				for _, e := range op.Ents {
					g.stamps = append(g.stamps, stampOf(e))
				}
				groups = append(groups, g)
			}
			if op.K == "txn" {
				if len(op.Parts) >= 2 {
					overlapTxn++
				}
				rec := txnRec{heads: map[string]string{}}
				for ds, es := range op.Parts {
					if isScratch(ds) {
						continue // scratch datasets come and go; only a, b, c are compared
					}
					g := grp{ds: ds}
					for _, e := range es {
						g.stamps = append(g.stamps, stampOf(e))
					}
					groups = append(groups, g)
					rec.id = es[0].ID
					// the version of the shared id that is latest after this transaction in ds
					for _, e := range es {
						if e.ID == es[0].ID {
							rec.heads[ds] = stampOf(e)
						}
					}
				}
				txns = append(txns, rec)
			}
		}
	}
	readsBetween := 0
	for _, r := range reads {
		switch r.kind {
		case "feed":
			seen := map[string]bool{}
			for i, st := range r.stamps {
				seen[st] = true
				if p, ok := pos[r.ds][st]; !ok || p != i {
					failf("READ-FEED-NOT-PREFIX ds=%s: a feed read returned %s at %d but the final feed has it at %d", r.ds, st, i, p)
				}
			}
			for _, g := range groups {
				if g.ds != r.ds {
					continue
				}
				n := 0
				for _, st := range g.stamps {
					if seen[st] {
						n++
					}
				}
				if n != 0 && n != len(g.stamps) {
					failf("READ-FEED-TORN ds=%s: a single feed read saw %d of %d members of one batch %v", r.ds, n, len(g.stamps), g.stamps)
				}
			}
			if len(r.stamps) > 0 && len(r.stamps) < len(pos[r.ds]) {
				readsBetween++
			}
		case "feedLatest":
			// one latest-only page: the newest version of each entity as the dataset stood between two
			// commits - the latest-only fold of some prefix of the final feed that ends where a batch ends
			feed := feeds[r.ds]
			starts := map[int]bool{0: true, len(feed): true}
			for _, g := range groups {
				if g.ds == r.ds {
					starts[pos[r.ds][g.stamps[0]]] = true
				}
			}
			got := strings.Join(r.stamps, " ")
			ok := false
			for k := 0; k <= len(feed) && !ok; k++ {
				if !starts[k] {
					continue
				}
				lastOf := map[string]int{}
				for i := 0; i < k; i++ {
					lastOf[feed[i].ID] = i
				}
				var fold []string
				for i := 0; i < k; i++ {
					if lastOf[feed[i].ID] == i {
						fold = append(fold, stampOf(feed[i]))
					}
				}
				ok = strings.Join(fold, " ") == got
			}
			if !ok {
				var all []string
				for _, e := range feed {
					all = append(all, stampOf(e))
				}
				failf("READ-LATESTONLY-TORN ds=%s: a single latest-only feed read returned %v, which is not the newest-version-per-entity view of the dataset between any two commits (final feed %v)", r.ds, r.stamps, all)
			}
			if len(r.stamps) > 0 {
				kit.S().Class("latest-only-page-read-concurrently", 1)
			}
		case "list":
			// if the listing shows member x of a batch as latest, every other member y of that batch is
			// shown with its batch stamp or a later one
			for _, g := range groups {
				if g.ds != r.ds || len(g.stamps) < 2 {
					continue
				}
				shown := false
				for _, st := range r.byID {
					for _, gs := range g.stamps {
						if st == gs {
							shown = true
						}
					}
				}
				if !shown {
					continue
				}
				gpos := pos[r.ds][g.stamps[0]]
				ids := idsOfGroup(plan, g.stamps)
				for id := range ids {
					st, ok := r.byID[id]
					if !ok {
						failf("READ-LIST-TORN ds=%s: listing shows part of batch %v but not entity %s of the same batch", r.ds, g.stamps, id)
					}
					if pos[r.ds][st] < gpos {
						failf("READ-LIST-TORN ds=%s: listing shows part of batch %v but entity %s still with older version %s", r.ds, g.stamps, id, st)
					}
				}
			}
		case "merged":
			// merged lookup of the id a transaction wrote to several datasets: seeing the transaction's
			// version from one dataset and an OLDER (or no) version from another dataset of the same
			// transaction is a torn read
			byDS := map[string]string{}
			for _, st := range r.stamps {
				byDS[dsOfStamp(pos, st)] = st
			}
			for _, tx := range txns {
				if tx.id != r.id {
					continue
				}
				for d1, t1 := range tx.heads {
					if byDS[d1] != t1 {
						continue
					}
					for d2, t2 := range tx.heads {
						if d2 == d1 {
							continue
						}
						s2, ok := byDS[d2]
						if !ok {
							failf("READ-MERGED-TORN id=%s: one lookup saw transaction version %s from dataset %s but nothing from dataset %s, where the same transaction wrote %s", r.id, t1, d1, d2, t2)
						}
						if pos[d2][s2] < pos[d2][t2] {
							failf("READ-MERGED-TORN id=%s: one lookup saw transaction version %s from dataset %s and, from dataset %s, the older version %s instead of the transaction's %s", r.id, t1, d1, d2, s2, t2)
						}
					}
				}
			}
		}
	}
	// ---- lock order: opposite acquisition orders are a potential deadlock ------------
	tmu.Lock()
	ea, eb := oppositeOrders(trace)
	tmu.Unlock()
	if ea != "" {
		// candidate only; report it when a forced schedule really deadlocks
		l1, l2, _ := strings.Cut(ea, ">")
		if cyc := confirmDeadlock(h, pool, l1, l2); cyc != "" {
			closed = true
			failf("DEADLOCK (forced schedule): dataset write locks are taken in opposite orders (%s vs %s); with two transactions on {%s,%s} each held after its first lock until the other has its first lock, both block forever: %s", ea, eb, l1, l2, cyc)
		}
		kit.S().Class("lock-order-candidate-unconfirmed", 1)
	}
	if post != nil {
		post(h, failf)
	}
	closed = true
	h.Close()
	nt := overlapTxn >= 2 || readsBetween >= 1
	cls := []string{fmt.Sprintf("gomaxprocs=%d", plan.Procs), fmt.Sprintf("clients=%d", len(plan.Clients))}
	if overlapTxn >= 2 {
		cls = append(cls, "txns-overlapping>=2")
	}
	if readsBetween >= 1 {
		cls = append(cls, "reader-between-commits")
	}
	kit.S().Case(plan, nt, cls...)
}

func dsOfStamp(pos map[string]map[string]int, st string) string {
	for ds, m := range pos {
		if _, ok := m[st]; ok {
			return ds
		}
	}
	return ""
}

func idsOfGroup(plan cplan, stamps []string) map[string]bool {
	want := map[string]bool{}
	for _, s := range stamps {
		want[s] = true
	}
	// the LAST version of an id inside the batch is what a listing can show; collect ids
	ids := map[string]bool{}
	for _, ops := range plan.Clients {
		for _, op := range ops {
			all := append([]*kit.Ent{}, op.Ents...)
			for _, es := range op.Parts {
				all = append(all, es...)
			}
			for _, e := range all {
				if want[stampOf(e)] {
					ids[e.ID] = true
				}
			}
		}
	}
	return ids
}

// waitForCycle inspects a lock trace at a point where the clients hang: a cycle
// g1 waits for a lock held by g2 ... held by g1 is a definite deadlock.
func waitForCycle(trace []lockEv) string {
	holder := map[string]int64{}
	waiting := map[int64]string{}
	for _, e := range trace {
		k := e.kind + ":" + e.id
		switch e.ev {
		case "acquire":
			waiting[e.gid] = k
		case "acquired":
			delete(waiting, e.gid)
			holder[k] = e.gid
		case "release":
			if holder[k] == e.gid {
				delete(holder, k)
			}
		}
	}
	for g0 := range waiting {
		seen := map[int64]bool{}
		g := g0
		var path []string
		for {
			l, ok := waiting[g]
			if !ok {
				break
			}
			hgid, held := holder[l]
			if !held {
				break
			}
			path = append(path, fmt.Sprintf("goroutine %d waits for %s held by goroutine %d", g, l, hgid))
			if hgid == g0 {
				return strings.Join(path, "; ")
			}
			if seen[hgid] {
				break
			}
			seen[hgid] = true
			g = hgid
		}
	}
	return ""
}

// oppositeOrders looks for two goroutine episodes that acquired the same two
// dataset locks in opposite orders while holding the first.
func oppositeOrders(trace []lockEv) (string, string) {
	held := map[int64][]string{}
	edges := map[string]bool{}
	for _, e := range trace {
		if e.kind != "ds" {
			continue
		}
		switch e.ev {
		case "acquired":
			for _, hl := range held[e.gid] {
				if hl != e.id {
					edges[hl+">"+e.id] = true
				}
			}
			held[e.gid] = append(held[e.gid], e.id)
		case "release":
			hs := held[e.gid]
			for i := len(hs) - 1; i >= 0; i-- {
				if hs[i] == e.id {
					held[e.gid] = append(hs[:i], hs[i+1:]...)
					break
				}
			}
		}
	}
	keys := make([]string, 0, len(edges))
	for k := range edges {
		keys = append(keys, k)
	}
	sort.Strings(keys)
	for _, k := range keys {
		a, b, _ := strings.Cut(k, ">")
		if a < b && edges[b+">"+a] {
			return k, b + ">" + a
		}
	}
	return "", ""
}

// confirmDeadlock replays two transactions over {l1,l2} with the lock tracer
// acting as a barrier: each goroutine is held right after it took its first
// dataset lock until the other one has taken its first lock too. If they took
// different locks first, both now need the other's lock: a real deadlock,
// visible as a wait-for cycle. Lock order may vary per attempt, so it retries.
func confirmDeadlock(h *WHub, pool *kit.Pool, l1, l2 string) string {
	for attempt := 0; attempt < 30; attempt++ {
		var mu sync.Mutex
		var trace []lockEv
		first := map[int64]string{}
		arrived := make(chan struct{}, 2)
		release := make(chan struct{})
		verifhook.SetLockTracer(func(ev, kind, id string, gid int64) {
			mu.Lock()
			trace = append(trace, lockEv{ev, kind, id, gid})
			_, had := first[gid]
			isFirst := ev == "acquired" && kind == "ds" && !had && (id == l1 || id == l2)
			if isFirst {
				first[gid] = id
			}
			mu.Unlock()
			if isFirst {
				arrived <- struct{}{}
				select {
				case <-release:
				case <-time.After(300 * time.Millisecond):
				}
			}
		})
		done := make(chan struct{}, 2)
		for i := 0; i < 2; i++ {
			go func(i int) {
				e := &kit.Ent{ID: pool.IDs[0], Props: map[string]any{pool.Keys[0]: fmt.Sprintf("confirm-%d-%d", attempt, i)}, Refs: map[string]any{}}
				_ = h.Txn(map[string][]*kit.Ent{l1: {e}, l2: {e.Clone()}}, false)
				done <- struct{}{}
			}(i)
		}
		// wait until both hold their first lock (or one finished first)
		got := 0
		timeout := time.After(400 * time.Millisecond)
	wait:
		for got < 2 {
			select {
			case <-arrived:
				got++
			case <-timeout:
				break wait
			}
		}
		close(release)
		finished := 0
		deadline := time.After(1500 * time.Millisecond)
	fin:
		for finished < 2 {
			select {
			case <-done:
				finished++
			case <-deadline:
				break fin
			}
		}
		if finished < 2 {
			mu.Lock()
			cyc := waitForCycle(trace)
			mu.Unlock()
			if cyc != "" {
				return cyc
			}
			return "" // hung without a provable cycle: give up (hub is wedged)
		}
	}
	verifhook.SetLockTracer(nil)
	return ""
}

// F05 (fixed): ExecuteTransaction locked datasets in map iteration order.
func TestVerifProbe_F05(t *testing.T) {
	defer kit.CleanupScratch()
	h := NewWHub(kit.HubOpts{})
	for _, ds := range []string{"a", "b"} {
		if _, err := h.Dsm.CreateDataset(ds, nil); err != nil {
			t.Fatal(err)
		}
	}
	pool := h.Pool()
	if cyc := confirmDeadlock(h, pool, "a", "b"); cyc != "" {
		t.Fatalf("two transactions over {a,b} deadlock under a forced schedule: %s", cyc)
	}
	verifhook.SetLockTracer(nil)
	h.Close()
}

const c05OpDone = "harness-op-done"

// leakedLocks: a lock some goroutine still holds when the operation during
// which it took the lock has returned (the harness marks the end of every
// operation in the trace). No operation of the API keeps a lock after it returned.
func leakedLocks(trace []lockEv) string {
	holder := map[string]int64{}
	var out []string
	for _, e := range trace {
		k := e.kind + ":" + e.id
		switch {
		case e.kind == c05OpDone:
			var ks []string
			for l, g := range holder {
				if g == e.gid {
					ks = append(ks, l)
				}
			}
			sort.Strings(ks)
			for _, l := range ks {
				out = append(out, fmt.Sprintf("goroutine %d still holds %s after its operation returned", e.gid, l))
				delete(holder, l)
			}
		case e.ev == "acquired":
			holder[k] = e.gid
		case e.ev == "release":
			if holder[k] == e.gid {
				delete(holder, k)
			}
		}
	}
	return strings.Join(out, "; ")
}

func isScratch(ds string) bool {
	for _, d := range c05Datasets {
		if d == ds {
			return false
		}
	}
	return true
}

func hasScratchPart(op cop) bool {
	for ds := range op.Parts {
		if isScratch(ds) {
			return true
		}
	}
	return false
}

// F26 (fixed): ExecuteTransaction looked its datasets up again after the commit
// to update the item counters. A dataset deleted while the transaction was
// running made it return "no dataset" although everything was committed, and
// the counters of the remaining datasets were not updated.
func TestVerifProbe_F26(t *testing.T) {
	defer kit.CleanupScratch()
	h := NewWHub(kit.HubOpts{})
	defer h.Close()
	for _, ds := range []string{"a", "s"} {
		if _, err := h.Dsm.CreateDataset(ds, nil); err != nil {
			t.Fatalf("VERIF-INFRA create: %v", err)
		}
	}
	verifhook.Reset()
	defer verifhook.Reset()
	// the delete runs beside the transaction and is given 300 ms: since F33 was repaired DeleteDataset
	// waits for the transaction (which holds the write lock of s) instead of slipping in here
	delDone := make(chan error, 1)
	verifhook.SetCallback("txn.afterCommit", func(hit int) {
		if hit == 1 {
			go func() { delDone <- h.Dsm.DeleteDataset("s") }()
			select {
			case err := <-delDone:
				delDone <- err
			case <-time.After(300 * time.Millisecond):
			}
		}
	})
	defer func() {
		select {
		case err := <-delDone:
			if err != nil {
				t.Errorf("VERIF-INFRA delete: %v", err)
			}
		case <-time.After(10 * time.Second):
			t.Errorf("VERIF-INFRA DeleteDataset did not return")
		}
	}()
	p := h.P[0]
	err := h.Txn(map[string][]*kit.Ent{
		"a": {ent(p+":e0", map[string]any{p + ":p0": "x"}, nil, false)},
		"s": {ent(p+":e1", map[string]any{p + ":p0": "y"}, nil, false)},
	}, false)
	feed, _, ferr := h.Feed("a", 0, nil, false)
	if ferr != nil {
		t.Fatalf("feed: %v", ferr)
	}
	if err != nil && len(feed) > 0 {
		t.Fatalf("F26 present: the transaction returned %q but its version is in the feed of a", err)
	}
	metas, _ := h.Latest("core.Dataset", nil)
	for _, m := range metas {
		if strings.HasSuffix(m.ID, ":a") {
			for k, v := range m.Props {
				if strings.HasSuffix(k, ":items") && v != float64(len(feed)) {
					t.Fatalf("F26 present: items counter of a is %v, %d entities stored", v, len(feed))
				}
			}
		}
	}
}
