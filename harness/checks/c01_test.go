package verifchecks

import (
	"testing"

	"pgregory.net/rapid"

	kit "github.com/mimiro-io/datahub/internal/verifkit"
)

// C01: latest view equals the last stored version of every entity.
// Generated histories of batches/transactions over a small id pool in three
// datasets; after every step the listing (one call and paged, store and HTTP),
// scoped lookups and merged lookups are compared with the reference model.
func TestVerif_C01(t *testing.T) {
	defer kit.S().Flush()
	defer kit.CleanupScratch()
	if ops := loadReplayOps(t); ops != nil {
		replayGraph(t, ops, c01Oracle)
		return
	}
	rapid.Check(t, func(t *rapid.T) {
		g := newGM(t, []string{"a", "b", "c"}, kit.GenCfg{})
		defer g.close()
		defer func() {
			nt := g.has("overwrite", "in-batch-repeat", "undelete", "id-in-2-datasets", "equal-length-rewrite")
			kit.S().Case(g.hist, nt && len(g.hist) > 0, g.classes()...)
			kit.JournalDone()
		}()
		t.Repeat(map[string]func(*rapid.T){
			"batch": func(t *rapid.T) { g.t = t; g.applyBatch(g.genBatchOp()) },
			"txn":   func(t *rapid.T) { g.t = t; g.applyTxn(g.genTxnOp()) },
			"pagedRead": func(t *rapid.T) {
				g.t = t
				op := Op{K: "pagedRead", DS: rapid.SampledFrom(g.names).Draw(t, "ds"), Limits: kit.GenLimits(t, true), Inv: rapid.Bool().Draw(t, "http")}
				g.record(op)
				g.checkLatest(op.DS, op.Limits, op.Inv)
				if len(op.Limits) > 0 && len(g.m.DS[op.DS].Latest) >= 2 {
					g.cls["paged-listing-2+"] = true
				}
			},
			"": func(t *rapid.T) { g.t = t; c01Oracle(g) },
		})
	})
}

func c01Oracle(g *gm) {
	for _, ds := range g.names {
		g.checkLatest(ds, nil, false)
		g.checkLatest(ds, []int{1}, false)
		g.checkLatest(ds, []int{2, 3}, true)
	}
	for _, id := range g.pool.IDs {
		for _, scope := range g.scopes() {
			g.checkLookup(id, scope, false)
		}
		g.checkLookup(id, nil, true)
		g.checkLookup(id, []string{g.names[0]}, true)
	}
}

// replayGraph re-applies a saved history without rapid.
func replayGraph(t *testing.T, ops []Op, oracle func(*gm)) {
	g := newGMf(nil, t, []string{"a", "b", "c"}, kit.GenCfg{})
	defer g.close()
	for _, op := range ops {
		switch op.K {
		case "batch":
			g.applyBatch(op)
		case "txn":
			g.applyTxn(op)
		default:
			continue
		}
		oracle(g)
	}
}
