package verifchecks

import (
	"fmt"
	"testing"

	"pgregory.net/rapid"

	kit "github.com/mimiro-io/datahub/internal/verifkit"
)

// C01: latest view equals the last stored version of every entity.
// Generated histories of batches/transactions over a small id pool in three
// datasets; after every step the listing (one call and paged, store and HTTP),
// scoped lookups and merged lookups are compared with the reference model.
func TestVerif_C01(t *testing.T) {
	defer kit.S().Flush()
	defer kit.CleanupScratch()
	if ops := loadReplayOps(t); ops != nil {
		replayGraph(t, ops, c01Oracle)
		return
	}
	rapid.Check(t, func(t *rapid.T) {
		g := newGM(t, []string{"a", "b", "c"}, kit.GenCfg{Nulls: true})
		defer g.close()
		defer func() {
			nt := g.has("overwrite", "in-batch-repeat", "undelete", "id-in-2-datasets", "equal-length-rewrite")
			kit.S().Case(g.hist, nt && len(g.hist) > 0, g.classes()...)
			kit.JournalDone()
		}()
		t.Repeat(map[string]func(*rapid.T){
			"batch":         func(t *rapid.T) { g.t = t; g.applyBatch(g.genBatchOp()) },
			"rejectedBatch": g.rejectedBatchAction(),
			"txn":           func(t *rapid.T) { g.t = t; g.applyTxn(g.genTxnOp()) },
			"pagedRead": func(t *rapid.T) {
				g.t = t
				op := Op{K: "pagedRead", DS: rapid.SampledFrom(g.names).Draw(t, "ds"), Limits: kit.GenLimits(t, true), Inv: rapid.Bool().Draw(t, "http")}
				g.record(op)
				g.checkLatest(op.DS, op.Limits, op.Inv)
				if len(op.Limits) > 0 && len(g.m.DS[op.DS].Latest) >= 2 {
					g.cls["paged-listing-2+"] = true
				}
			},
			"": func(t *rapid.T) { g.t = t; c01Oracle(g) },
		})
	})
}

func c01Oracle(g *gm) {
	for _, ds := range g.names {
		g.checkLatest(ds, nil, false)
		g.checkLatest(ds, []int{1}, false)
		g.checkLatest(ds, []int{2, 3}, true)
	}
	for _, id := range g.pool.IDs {
		for _, scope := range g.scopes() {
			g.checkLookup(id, scope, false)
		}
		g.checkLookup(id, nil, true)
		g.checkLookup(id, []string{g.names[0]}, true)
	}
}

// replayGraph re-applies a saved history without rapid.
func replayGraph(t *testing.T, ops []Op, oracle func(*gm)) {
	g := newGMf(nil, t, []string{"a", "b", "c"}, kit.GenCfg{})
	defer g.close()
	for _, op := range ops {
		switch op.K {
		case "batch":
			g.applyBatch(op)
		case "txn":
			g.applyTxn(op)
		default:
			continue
		}
		oracle(g)
	}
}

// largeCase builds a history whose size is outside the small pool: n distinct
// ids (a few hundred, so that internal ids, change positions and key bytes
// cross 0xFF / 0xFFFF boundaries and pages end on every kind of key) written to
// dataset a in batches of drawn sizes, interleaved with writes of other ids to
// b (so that a's internal ids are not contiguous), followed by overwrites and
// deletes of a drawn subset. Returns the page limit sequence to read with.
func largeCase(t *rapid.T, g *gm) []int {
	p := g.h.P[0]
	n := rapid.IntRange(260, 1500).Draw(t, "n")
	if rapid.IntRange(0, 3).Draw(t, "small") == 0 {
		n = rapid.IntRange(1, 40).Draw(t, "nsmall")
	}
	mk := func(i int, v string, del bool) *kit.Ent {
		e := ent(fmt.Sprintf("%s:x%d", p, i), map[string]any{p + ":p0": v}, nil, del)
		if i%7 == 3 {
			e.Refs[p+":r0"] = fmt.Sprintf("%s:x%d", p, (i+1)%n)
		}
		return e
	}
	g.t = t
	for i := 0; i < n; {
		sz := rapid.SampledFrom([]int{1, 3, 10, 11, 100, 255, 256, 400}).Draw(t, "batch")
		var es []*kit.Ent
		for j := 0; j < sz && i < n; j++ {
			es = append(es, mk(i, "v0", false))
			i++
		}
		g.applyBatch(Op{K: "batch", DS: "a", Via: rapid.SampledFrom([]string{"store", "parser"}).Draw(t, "via"), Ents: es})
		if rapid.IntRange(0, 2).Draw(t, "other") == 0 {
			var os []*kit.Ent
			for j := 0; j < rapid.IntRange(1, 30).Draw(t, "nother"); j++ {
				os = append(os, ent(fmt.Sprintf("%s:y%d-%d", p, i, j), map[string]any{p + ":p0": "o"}, nil, false))
			}
			g.applyBatch(Op{K: "batch", DS: "b", Via: "store", Ents: os})
		}
	}
	nm := rapid.IntRange(0, 40).Draw(t, "rewrites")
	var es []*kit.Ent
	for j := 0; j < nm; j++ {
		i := rapid.IntRange(0, n-1).Draw(t, "which")
		es = append(es, mk(i, "v1", rapid.IntRange(0, 3).Draw(t, "del") == 0))
	}
	if len(es) > 0 {
		g.applyBatch(Op{K: "batch", DS: "a", Via: "store", Ents: es})
	}
	// sometimes a very large batch (around the job engine's default batch size of 10000) whose late
	// element is invalid (a null inside a reference array): the write is rejected and, being one
	// batch, leaves nothing behind - not even its first thousands of entities
	if rapid.IntRange(0, 3).Draw(t, "hugeRejected") == 0 {
		hn := rapid.SampledFrom([]int{257, 1001, 10001, 10500, 12500}).Draw(t, "hugeN")
		bad := hn - 1 - rapid.IntRange(0, hn/5).Draw(t, "badFromEnd")
		hs := make([]*kit.Ent, hn)
		for j := range hs {
			hs[j] = ent(fmt.Sprintf("%s:h%d", p, j), map[string]any{p + ":p0": "huge"}, nil, false)
		}
		hs[bad].Refs[p+":r0"] = []any{nil}
		op := Op{K: "batch", DS: "a", Via: "store", Ents: hs}
		if err := execOp(g.h, op); err == nil {
			g.fail("a batch of %d entities whose element %d carries a null reference was accepted", hn, bad)
		}
		g.record(Op{K: "rejectedBatch", DS: "a", N: hn, Lo: true})
		g.cls["huge-rejected-batch"] = true
		if hn > 10000 {
			g.cls["huge-rejected-batch>10000"] = true
		}
	}
	g.cls[fmt.Sprintf("n-%d00s", n/100)] = true
	nl := rapid.IntRange(1, 3).Draw(t, "nlim")
	lim := make([]int, nl)
	for i := range lim {
		lim[i] = rapid.SampledFrom([]int{1, 2, 7, 64, 100, 255, 256, 257}).Draw(t, "lim")
	}
	return lim
}

// C01 at a size the small pool cannot reach: paged listing == model, every id
// once, for page limits that put page ends on arbitrary keys.
func TestVerif_C01_large(t *testing.T) {
	defer kit.S().Flush()
	defer kit.CleanupScratch()
	rapid.Check(t, func(t *rapid.T) {
		g := newGM(t, []string{"a", "b"}, kit.GenCfg{})
		defer g.close()
		lim := largeCase(t, g)
		kit.Journal(map[string]any{"large": true, "limits": lim, "ops": len(g.hist)})
		defer kit.JournalDone()
		g.checkLatest("a", nil, false)
		g.checkLatest("a", lim, false)
		g.checkLatest("a", lim, true)
		g.checkLatest("b", lim, false)
		kit.S().Case(map[string]any{"large": len(g.m.DS["a"].Latest), "limits": lim, "feed": len(g.m.DS["a"].Feed)}, len(g.m.DS["a"].Latest) > 256, g.classes()...)
	})
}
