// Package verifchecks holds the black-box property checks. It exists only
// through the build overlay (nothing of it is in /repo).
package verifchecks

import (
	"encoding/base64"
	"encoding/json"
	"fmt"
	"net/http/httptest"
	"strings"

	"github.com/DataDog/datadog-go/v5/statsd"
	"github.com/labstack/echo/v4"
	"go.uber.org/zap"

	kit "github.com/mimiro-io/datahub/internal/verifkit"

	"github.com/mimiro-io/datahub/internal/security"
	"github.com/mimiro-io/datahub/internal/server"
	"github.com/mimiro-io/datahub/internal/web"
)

// WHub is a storage hub plus the real echo router with the real handlers,
// driven in-process through httptest (no sockets).
type WHub struct {
	*kit.Hub
	E *echo.Echo
}

func NewWHub(o kit.HubOpts) *WHub {
	w := &WHub{Hub: kit.NewHub(o)}
	w.wire()
	return w
}

func (w *WHub) wire() {
	log := zap.NewNop().Sugar()
	pm := security.NewProviderManager(w.Env, w.Store, log)
	tps := security.NewTokenProviders(log, pm, nil)
	e := echo.New()
	e.HideBanner = true
	mw := web.NewMiddleware(w.Env, e, nil, log, &statsd.NoOpClient{})
	web.RegisterDatasetHandler(e, log, mw, w.Dsm, w.Store, server.NoOpBus(), tps)
	web.RegisterTxnHandler(e, log, mw, w.Store)
	web.RegisterQueryHandler(e, log, mw, w.Store, w.Dsm)
	web.RegisterNamespaceHandler(e, log, mw, w.Store)
	web.RegisterCompactionHandler(e, log, mw, w.Dsm, w.Store)
	w.E = e
}

func (w *WHub) Restart() {
	w.Hub.Restart()
	w.wire()
}

// Do performs one in-process HTTP request.
func (w *WHub) Do(method, path, body string, hdr map[string]string) (int, string) {
	req := httptest.NewRequest(method, path, strings.NewReader(body))
	if body != "" {
		req.Header.Set("Content-Type", "application/json")
	}
	for k, v := range hdr {
		req.Header.Set(k, v)
	}
	rec := httptest.NewRecorder()
	w.E.ServeHTTP(rec, req)
	return rec.Code, rec.Body.String()
}

// PostBatch posts a batch to the dataset through the real handler.
func (w *WHub) PostBatch(ds string, es []*kit.Ent, hdr map[string]string) (int, string) {
	return w.Do("POST", "/datasets/"+ds+"/entities", string(w.Payload(es)), hdr)
}

// httpEntities parses a response array [context, e1, ..., continuation?].
// Returned ids are what the hub wrote (store CURIEs).
func parseCollection(body string) (ents []*kit.Ent, token string, ctx map[string]string, err error) {
	var raw []json.RawMessage
	if err = json.Unmarshal([]byte(body), &raw); err != nil {
		return nil, "", nil, fmt.Errorf("response is not a JSON array: %v: %.200s", err, body)
	}
	for i, r := range raw {
		var e struct {
			ID         string            `json:"id"`
			Namespaces map[string]string `json:"namespaces"`
			Token      string            `json:"token"`
			Props      map[string]any    `json:"props"`
			Refs       map[string]any    `json:"refs"`
			Deleted    bool              `json:"deleted"`
		}
		if err = json.Unmarshal(r, &e); err != nil {
			return nil, "", nil, err
		}
		switch {
		case i == 0 && e.ID == "@context":
			ctx = e.Namespaces
		case e.ID == "@continuation":
			token = e.Token
		default:
			ents = append(ents, &kit.Ent{ID: e.ID, Props: e.Props, Refs: e.Refs, Deleted: e.Deleted})
		}
	}
	return
}

// HTTPLatest pages GET /datasets/{ds}/entities with the given limits.
func (w *WHub) HTTPLatest(ds string, limits []int) ([]*kit.Ent, error) {
	var out []*kit.Ent
	from := ""
	for i := 0; i < 100000; i++ {
		lim := 0
		if len(limits) > 0 {
			lim = limits[i%len(limits)]
		}
		path := "/datasets/" + ds + "/entities?"
		if from != "" {
			path += "from=" + urlEsc(from) + "&"
		}
		if lim > 0 {
			path += fmt.Sprintf("limit=%d", lim)
		}
		code, body := w.Do("GET", path, "", nil)
		if code != 200 {
			return nil, fmt.Errorf("GET %s -> %d %s", path, code, body)
		}
		es, tok, _, err := parseCollection(body)
		if err != nil {
			return nil, err
		}
		out = append(out, es...)
		if len(es) == 0 || lim == 0 {
			break
		}
		from = tok
	}
	return out, nil
}

// HTTPChanges pages GET /datasets/{ds}/changes with the base64 tokens the hub returns.
func (w *WHub) HTTPChanges(ds string, since string, limits []int, latestOnly bool) ([]*kit.Ent, string, error) {
	var out []*kit.Ent
	tok := since
	for i := 0; i < 100000; i++ {
		lim := 0
		if len(limits) > 0 {
			lim = limits[i%len(limits)]
		}
		path := "/datasets/" + ds + "/changes?"
		if tok != "" {
			path += "since=" + urlEsc(tok) + "&"
		}
		if lim > 0 {
			path += fmt.Sprintf("limit=%d&", lim)
		}
		if latestOnly {
			path += "latestOnly=true"
		}
		code, body := w.Do("GET", path, "", nil)
		if code != 200 {
			return nil, "", fmt.Errorf("GET %s -> %d %s", path, code, body)
		}
		es, nt, _, err := parseCollection(body)
		if err != nil {
			return nil, "", err
		}
		out = append(out, es...)
		if nt == tok || len(es) == 0 {
			if nt != "" {
				tok = nt
			}
			break
		}
		tok = nt
		if lim == 0 {
			break
		}
	}
	return out, tok, nil
}

func urlEsc(s string) string {
	r := strings.NewReplacer("+", "%2B", "/", "%2F", "=", "%3D")
	return r.Replace(s)
}

func sinceToken(n uint64) string {
	return base64.StdEncoding.EncodeToString([]byte(fmt.Sprint(n)))
}

// HTTPLookup does POST /query {entityId, datasets}.
func (w *WHub) HTTPLookup(id string, scope []string) (*kit.Ent, error) {
	q, _ := json.Marshal(map[string]any{"entityId": id, "datasets": scope})
	code, body := w.Do("POST", "/query", string(q), nil)
	if code != 200 {
		return nil, fmt.Errorf("query -> %d %s", code, body)
	}
	var raw []json.RawMessage
	if err := json.Unmarshal([]byte(body), &raw); err != nil || len(raw) != 2 {
		return nil, fmt.Errorf("bad query response %.200s", body)
	}
	var e struct {
		ID      string         `json:"id"`
		Props   map[string]any `json:"props"`
		Refs    map[string]any `json:"refs"`
		Deleted bool           `json:"deleted"`
	}
	if err := json.Unmarshal(raw[1], &e); err != nil {
		return nil, err
	}
	return &kit.Ent{ID: e.ID, Props: e.Props, Refs: e.Refs, Deleted: e.Deleted}, nil
}

// HTTPRelated does POST /query for relations, following continuations.
func (w *WHub) HTTPRelated(start, pred string, inverse bool, scope []string, limit int) (map[string]bool, string, error) {
	set := map[string]bool{}
	dup := ""
	q := map[string]any{"startingEntities": []string{start}, "predicate": pred, "inverse": inverse, "datasets": scope}
	if limit > 0 {
		q["limit"] = limit
	}
	for i := 0; i < 10000; i++ {
		qb, _ := json.Marshal(q)
		code, body := w.Do("POST", "/query", string(qb), nil)
		if code != 200 {
			if strings.Contains(body, "could not load predicate id") {
				return set, "", nil
			}
			return nil, "", fmt.Errorf("query -> %d %s", code, body)
		}
		var raw []json.RawMessage
		if err := json.Unmarshal([]byte(body), &raw); err != nil || len(raw) < 2 {
			return nil, "", fmt.Errorf("bad query response %.200s", body)
		}
		var rows [][]json.RawMessage
		if err := json.Unmarshal(raw[1], &rows); err != nil {
			return nil, "", err
		}
		for _, row := range rows {
			var p string
			var e struct {
				ID string `json:"id"`
			}
			_ = json.Unmarshal(row[1], &p)
			_ = json.Unmarshal(row[2], &e)
			k := p + "|" + e.ID
			if set[k] && dup == "" {
				dup = k
			}
			set[k] = true
		}
		if len(raw) < 3 {
			break
		}
		var cont []string
		_ = json.Unmarshal(raw[2], &cont)
		if len(cont) == 0 {
			break
		}
		q = map[string]any{"continuations": cont, "limit": limit}
	}
	return set, dup, nil
}
