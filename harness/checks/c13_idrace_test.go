package verifchecks

// C13 part "idrace": several writers, each on its own dataset, store batches
// at the same instant, round after round; all batches of a round use the SAME
// identifiers that are new to the hub (entity ids, reference targets, a
// predicate). "Every identifier string maps to exactly one internal id" then
// means: after the rounds the two identifier indexes are mutually inverse
// (kit.RawScan), every writer's entities are found by their identifier in that
// writer's dataset, and an identifier has the same internal id in every dataset.

import (
	"encoding/json"
	"fmt"
	"runtime"
	"sync"
	"sync/atomic"
	"testing"

	"pgregory.net/rapid"

	kit "github.com/mimiro-io/datahub/internal/verifkit"
)

func TestVerif_C13_idrace(t *testing.T) {
	defer kit.S().Flush()
	defer kit.CleanupScratch()
	defer runtime.GOMAXPROCS(runtime.GOMAXPROCS(0))
	budget, cases := kit.EnvInt("VERIF_C13_IDRACE_CASES", 6), 0
	rapid.Check(t, func(t *rapid.T) {
		if cases >= budget {
			return
		}
		cases++
		writers := rapid.IntRange(3, 8).Draw(t, "writers")
		rounds := rapid.IntRange(60, 200).Draw(t, "rounds")
		shared := rapid.IntRange(1, 4).Draw(t, "sharedIds")
		procs := rapid.SampledFrom([]int{4, 16}).Draw(t, "procs")
		runtime.GOMAXPROCS(procs)
		desc := map[string]any{"idrace": true, "writers": writers, "rounds": rounds, "sharedIds": shared, "procs": procs}
		kit.Journal(desc)
		defer kit.JournalDone()
		h := NewWHub(kit.HubOpts{})
		defer h.Close()
		fail := func(format string, a ...any) {
			b, _ := json.Marshal(desc)
			t.Fatalf("%s\nVERIF-CASE-BEGIN\n%s\nVERIF-CASE-END", fmt.Sprintf(format, a...), b)
		}
		for w := 0; w < writers; w++ {
			if _, err := h.Dsm.CreateDataset(fmt.Sprintf("w%d", w), nil); err != nil {
				t.Fatalf("VERIF-INFRA create dataset: %v", err)
			}
		}
		p := h.P[0]
		var arrived int32
		var wg sync.WaitGroup
		errs := make(chan string, writers*rounds)
		starts := make([]chan struct{}, rounds)
		for r := range starts {
			starts[r] = make(chan struct{})
		}
		done := make(chan struct{}, writers)
		for w := 0; w < writers; w++ {
			w := w
			wg.Add(1)
			go func() {
				defer wg.Done()
				for r := 0; r < rounds; r++ {
					<-starts[r]
					var es []*kit.Ent
					// batches of different length, all about the same fresh identifiers of this round
					for j := 0; j <= (w+r)%shared; j++ {
						es = append(es, &kit.Ent{ID: fmt.Sprintf("%s:r%d-e%d", p, r, j), Props: map[string]any{p + ":p0": fmt.Sprintf("w%d", w)},
							Refs: map[string]any{fmt.Sprintf("%s:r%d-pred", p, r): fmt.Sprintf("%s:r%d-tgt", p, r)}})
					}
					atomic.AddInt32(&arrived, 1)
					for spin := 0; atomic.LoadInt32(&arrived) < int32(writers*(r+1)); spin++ {
						if spin%256 == 255 {
							runtime.Gosched()
						}
					}
					if err := h.StoreBatch(fmt.Sprintf("w%d", w), es, "store"); err != nil {
						errs <- fmt.Sprintf("writer %d round %d: StoreEntities: %v", w, r, err)
					}
					done <- struct{}{}
				}
			}()
		}
		for r := 0; r < rounds; r++ {
			close(starts[r])
			for w := 0; w < writers; w++ {
				<-done
			}
		}
		wg.Wait()
		close(errs)
		for e := range errs {
			fail("CONCURRENT-OP-FAILED %s", e)
		}
		if v := kit.RawScan(h.Hub, true); len(v) > 0 {
			if len(v) > 6 {
				v = v[:6]
			}
			fail("IDENTIFIER-INDEX after %d rounds of %d writers storing the same new identifiers at the same instant:%s", rounds, writers, joinLines(v))
		}
		idOf := map[string]uint64{}
		for w := 0; w < writers; w++ {
			ds := fmt.Sprintf("w%d", w)
			for r := 0; r < rounds; r++ {
				for j := 0; j <= (w+r)%shared; j++ {
					id := fmt.Sprintf("%s:r%d-e%d", p, r, j)
					e, err := h.Lookup(id, []string{ds})
					if err != nil || e == nil || e.ID != id {
						fail("BIJECTION %s was stored in %s (round %d) but a lookup by that identifier returns %v (err=%v)", id, ds, r, e, err)
					}
					if prev, ok := idOf[id]; ok && prev != e.InternalID {
						fail("BIJECTION %s has internal id %d in one dataset and %d in %s", id, prev, e.InternalID, ds)
					}
					idOf[id] = e.InternalID
				}
			}
		}
		kit.S().AddExtra("idrace rounds (writers storing the same new identifiers at one instant)", rounds)
		kit.S().Case(desc, writers >= 3 && shared >= 2, "idrace", fmt.Sprintf("idrace-writers-%d", writers))
	})
}
