package verifchecks

import (
	"encoding/json"
	"fmt"
	"runtime"
	"sort"
	"strings"
	"sync"
	"testing"
	"time"

	"pgregory.net/rapid"

	"github.com/mimiro-io/datahub/internal/verifhook"
	kit "github.com/mimiro-io/datahub/internal/verifkit"
)

// C19: dataset catalogue, core.Dataset and the datasets themselves agree.
func TestVerif_C19(t *testing.T) {
	defer kit.S().Flush()
	defer kit.CleanupScratch()
	rapid.Check(t, func(t *rapid.T) {
		g := newGM(t, []string{"a", "b"}, kit.GenCfg{NoNested: true})
		defer g.close()
		defer func() {
			nt := g.has("rename", "re-create") && g.has("in-batch-repeat") && g.has("redundant-write", "overwrite")
			kit.S().Case(g.hist, nt, g.classes()...)
			kit.JournalDone()
		}()
		acts := g.mgmtActions(false, true)
		acts[""] = func(t *rapid.T) { g.t = t; g.checkCatalogue() }
		t.Repeat(acts)
	})
}

// checkCatalogue compares GET /datasets, the meta-entities in core.Dataset and
// the datasets themselves with the model.
func (g *gm) checkCatalogue() {
	g.checkDatasetList()
	// GET /datasets
	code, body := g.h.Do("GET", "/datasets", "", nil)
	if code != 200 {
		g.fail("GET /datasets -> %d %s", code, body)
	}
	var listed []struct{ Name string }
	if err := json.Unmarshal([]byte(body), &listed); err != nil {
		g.fail("GET /datasets: %v", err)
	}
	var got []string
	for _, l := range listed {
		if l.Name != "core.Dataset" {
			got = append(got, l.Name)
		}
	}
	sort.Strings(got)
	want := g.m.AllNames()
	if strings.Join(got, ",") != strings.Join(want, ",") {
		g.fail("CATALOGUE-LIST GET /datasets=%v model=%v", got, want)
	}
	// meta entities
	metas, err := g.h.Latest("core.Dataset", nil)
	if err != nil {
		g.fail("listing core.Dataset: %v", err)
	}
	liveMeta := map[string]*kit.Ent{}
	for _, e := range metas {
		_, name, ok := strings.Cut(e.ID, ":")
		if !ok {
			g.fail("CATALOGUE-META odd meta-entity id %q", e.ID)
		}
		if name == "core.Dataset" {
			continue
		}
		if !e.Deleted {
			if liveMeta[name] != nil {
				g.fail("CATALOGUE-META two live meta-entities for %s", name)
			}
			liveMeta[name] = e
		}
	}
	for name := range liveMeta {
		if g.m.DS[name] == nil {
			g.fail("CATALOGUE-META live meta-entity for %s which is not an existing dataset (deleted or renamed away): %s", name, liveMeta[name].Key())
		}
	}
	for _, name := range g.m.AllNames() {
		me := liveMeta[name]
		if me == nil {
			g.fail("CATALOGUE-META no live meta-entity for existing dataset %s", name)
		}
		// the kind of dataset and its proxy / virtual settings, as the meta-entity tells them
		md := g.m.DS[name]
		wantType, gotType := "dataset", ""
		if md.Proxy {
			wantType = "proxy-dataset"
		} else if md.Virtual {
			wantType = "virtual-dataset"
		}
		for k, v := range me.Refs {
			if strings.HasSuffix(k, ":type") {
				_, gotType, _ = strings.Cut(fmt.Sprint(v), ":")
			}
		}
		if gotType != wantType {
			g.fail("CATALOGUE-KIND meta-entity of %s has type %q, the dataset was created as %q: %s", name, gotType, wantType, me.Key())
		}
		for k, v := range me.Props {
			_, local, _ := strings.Cut(k, ":")
			switch {
			case local == "remoteUrl" && (!md.Proxy || v != gmProxyURL),
				local == "transform" && (!md.Virtual || v != gmVirtualJS):
				g.fail("CATALOGUE-KIND meta-entity of %s carries %s=%v, the dataset was created as %q", name, local, v, wantType)
			}
		}
		if md.Proxy {
			found := false
			for k := range me.Props {
				found = found || strings.HasSuffix(k, ":remoteUrl")
			}
			if !found {
				g.fail("CATALOGUE-KIND meta-entity of proxy dataset %s carries no remoteUrl: %s", name, me.Key())
			}
		}
		if md.Virtual {
			found := false
			for k := range me.Props {
				found = found || strings.HasSuffix(k, ":transform")
			}
			if !found {
				g.fail("CATALOGUE-KIND meta-entity of virtual dataset %s carries no transform: %s", name, me.Key())
			}
		}
		var nameProp any
		var items any
		for k, v := range me.Props {
			if strings.HasSuffix(k, ":name") {
				nameProp = v
			}
			if strings.HasSuffix(k, ":items") {
				items = v
			}
		}
		if nameProp != name {
			g.fail("CATALOGUE-META meta-entity of %s carries name %v", name, nameProp)
		}
		wantItems := float64(len(g.m.DS[name].Ever))
		if f, ok := items.(float64); !ok || f != wantItems {
			g.fail("CATALOGUE-ITEMS dataset %s: items counter=%v, distinct ids ever stored=%v", name, items, wantItems)
		}
		// cross-check the model's count against the dataset's own feed
		feed, _, err := g.h.Feed(name, 0, nil, false)
		if err != nil {
			g.fail("feed: %v", err)
		}
		ids := map[string]bool{}
		for _, e := range feed {
			ids[e.ID] = true
		}
		if float64(len(ids)) != wantItems {
			g.fail("CATALOGUE-ITEMS-FEED dataset %s: feed has %d distinct ids, model %v", name, len(ids), wantItems)
		}
		// public-namespace settings: meta-entity, dataset and the context it serves agree
		if g.pubNS != nil {
			if want, set := g.pubNS[g.m.DS[name]]; set {
				var metaNS []string
				for k, v := range me.Props {
					if strings.HasSuffix(k, ":publicNamespaces") {
						for _, x := range kit.RefTargets(kit.Canon(v)) {
							metaNS = append(metaNS, x)
						}
					}
				}
				dsNS := append([]string{}, g.h.Dsm.GetDataset(name).PublicNamespaces...)
				w := append([]string{}, want...)
				sort.Strings(metaNS)
				sort.Strings(dsNS)
				sort.Strings(w)
				if strings.Join(metaNS, " ") != strings.Join(w, " ") {
					g.fail("CATALOGUE-PUBLIC-NS meta-entity of %s carries publicNamespaces %v, last set %v", name, metaNS, w)
				}
				if strings.Join(dsNS, " ") != strings.Join(w, " ") {
					g.fail("CATALOGUE-PUBLIC-NS dataset %s works with public namespaces %v, its meta-entity says %v", name, dsNS, w)
				}
				if len(w) > 0 {
					code, body := g.h.Do("GET", "/datasets/"+name+"/entities", "", nil)
					_, _, ctx, err := parseCollection(body)
					if code != 200 || err != nil {
						g.fail("GET /datasets/%s/entities -> %d: %v", name, code, err)
					}
					var served []string
					for _, exp := range ctx {
						served = append(served, exp)
					}
					sort.Strings(served)
					if strings.Join(served, " ") != strings.Join(w, " ") {
						g.fail("CATALOGUE-PUBLIC-NS GET /datasets/%s/entities serves context namespaces %v, the meta-entity says %v", name, served, w)
					}
				}
			}
		}
		// GET /datasets/{name}
		code, body := g.h.Do("GET", "/datasets/"+name, "", nil)
		if code != 200 || !strings.Contains(body, `"`+name+`"`) {
			g.fail("CATALOGUE-GET GET /datasets/%s -> %d %.200s", name, code, body)
		}
	}
	for _, n := range append(append([]string{}, mgmtPool...), specialPool...) {
		if g.m.DS[n] == nil {
			if code, _ := g.h.Do("GET", "/datasets/"+n, "", nil); code != 404 {
				g.fail("CATALOGUE-GET GET /datasets/%s (not existing) -> %d, want 404", n, code)
			}
		}
	}
}

// C19, concurrent part: writers on different datasets whose counter updates all
// funnel through core.Dataset. After the clients finished (quiescent point)
// every items counter equals the number of distinct ids in the dataset's feed
// and there is exactly one live meta-entity per dataset.
func TestVerif_C19_concurrent(t *testing.T) {
	defer kit.S().Flush()
	defer kit.CleanupScratch()
	rapid.Check(t, func(t *rapid.T) {
		pool := (&kit.Hub{P: poolPrefixes()}).Pool()
		plan := genPlan(t, pool)
		kit.Journal(plan)
		defer kit.JournalDone()
		runPlan(t, plan, pool, func(h *WHub, failf func(string, ...any)) {
			metas, err := h.Latest("core.Dataset", nil)
			if err != nil {
				failf("listing core.Dataset: %v", err)
			}
			live := map[string]*kit.Ent{}
			for _, e := range metas {
				_, name, _ := strings.Cut(e.ID, ":")
				if !e.Deleted {
					live[name] = e
				}
			}
			names := h.DatasetNames()
			for _, name := range names {
				me := live[name]
				if me == nil {
					failf("CATALOGUE-META(concurrent) no live meta-entity for dataset %s", name)
				}
				feed, _, err := h.Feed(name, 0, nil, false)
				if err != nil {
					failf("feed: %v", err)
				}
				ids := map[string]bool{}
				for _, e := range feed {
					ids[e.ID] = true
				}
				var items any
				for k, v := range me.Props {
					if strings.HasSuffix(k, ":items") {
						items = v
					}
				}
				if f, ok := items.(float64); !ok || int(f) != len(ids) {
					failf("CATALOGUE-ITEMS(concurrent) dataset %s: items counter=%v, distinct ids stored=%d", name, items, len(ids))
				}
			}
			for name := range live {
				if name == "core.Dataset" {
					continue
				}
				found := false
				for _, n := range names {
					if n == name {
						found = true
					}
				}
				if !found {
					failf("CATALOGUE-META(concurrent) live meta-entity for %s which is not a dataset", name)
				}
			}
		})
	})
}

// F33: DeleteDataset did not wait for a writer of the dataset. A batch that
// has committed reads the dataset's meta-entity, adds to its items counter and
// stores it (Dataset.updateDataset); when the dataset is deleted between that
// read and that write, the meta-entity of the deleted dataset is live again.
// Forced schedule: the lock trace shows the writer asking for core.Dataset's
// lock from inside updateDataset - it has read the meta-entity by then; at that
// instant DeleteDataset runs (in another goroutine, given 300 ms).
func TestVerifProbe_F33(t *testing.T) {
	defer kit.CleanupScratch()
	h := NewWHub(kit.HubOpts{})
	defer h.Close()
	if _, err := h.Dsm.CreateDataset("s", nil); err != nil {
		t.Fatalf("VERIF-INFRA create: %v", err)
	}
	var once sync.Once
	deleted := make(chan error, 1)
	verifhook.SetLockTracer(func(ev, kind, id string, gid int64) {
		if ev != "acquire" || kind != "ds" || id != "core.Dataset" {
			return
		}
		pcs := make([]uintptr, 48)
		frames := runtime.CallersFrames(pcs[:runtime.Callers(2, pcs)])
		inUpdate := false
		for {
			fr, more := frames.Next()
			if strings.HasSuffix(fr.Function, ".updateDataset") {
				inUpdate = true
			}
			if !more {
				break
			}
		}
		if !inUpdate {
			return
		}
		once.Do(func() {
			go func() { deleted <- h.Dsm.DeleteDataset("s") }()
			select {
			case err := <-deleted:
				deleted <- err
			case <-time.After(300 * time.Millisecond):
			}
		})
	})
	defer verifhook.SetLockTracer(nil)
	p := h.P[0]
	if err := h.StoreBatch("s", []*kit.Ent{ent(p+":e0", map[string]any{p + ":p0": "x"}, nil, false)}, "store"); err != nil {
		t.Fatalf("VERIF-INFRA write: %v", err)
	}
	select {
	case err := <-deleted:
		if err != nil {
			t.Fatalf("VERIF-INFRA delete: %v", err)
		}
	case <-time.After(10 * time.Second):
		t.Fatalf("VERIF-INFRA DeleteDataset did not return")
	}
	verifhook.SetLockTracer(nil)
	for _, n := range h.DatasetNames() {
		if n == "s" {
			t.Fatalf("F33 present: s is still listed after DeleteDataset returned")
		}
	}
	metas, err := h.Latest("core.Dataset", nil)
	if err != nil {
		t.Fatalf("listing core.Dataset: %v", err)
	}
	for _, m := range metas {
		if strings.HasSuffix(m.ID, ":s") && !m.Deleted {
			t.Fatalf("F33 present: the dataset s was deleted while a batch was updating its items counter; its meta-entity is live again: %s", m.Key())
		}
	}
}
