package verifchecks

import (
	"bufio"
	"encoding/json"
	"fmt"
	"os"
	"os/exec"
	"path/filepath"
	"strconv"
	"strings"
	"syscall"
	"testing"
	"time"

	kit "github.com/mimiro-io/datahub/internal/verifkit"

	"github.com/mimiro-io/datahub/internal/server"
)

// ---- crash rig: writer child ---------------------------------------------------
//
// The op list of a case is written to script.json. The test binary re-executes
// itself as a writer child that opens a hub on the case directory, executes
// the ops in order and appends "<k>\n" (fsynced) to the ack file after each op
// returned. With VERIF_CRASH=<point>:<n> the n-th hit of that hook point kills
// the child with SIGKILL. A counting run (VERIF_POINT_COUNTS) records which
// points are hit during which op.

type crashScript struct {
	Dir string `json:"dir"`
	Ops []Op   `json:"ops"`
}

func TestVerifChild_Run(t *testing.T) {
	sp := os.Getenv("VERIF_CHILD_SCRIPT")
	if sp == "" {
		t.Skip("child entry point")
	}
	b, err := os.ReadFile(sp)
	if err != nil {
		fmt.Println("VERIF-INFRA child cannot read script:", err)
		os.Exit(3)
	}
	var sc crashScript
	if err := json.Unmarshal(b, &sc); err != nil {
		fmt.Println("VERIF-INFRA child cannot parse script:", err)
		os.Exit(3)
	}
	ack, err := os.OpenFile(filepath.Join(sc.Dir, "ack"), os.O_CREATE|os.O_WRONLY|os.O_APPEND, 0o644)
	if err != nil {
		fmt.Println("VERIF-INFRA child cannot open ack file:", err)
		os.Exit(3)
	}
	counts := os.Getenv("VERIF_POINT_COUNTS")
	mark := func(k int) {
		if counts != "" {
			if f, err := os.OpenFile(counts, os.O_APPEND|os.O_CREATE|os.O_WRONLY, 0o644); err == nil {
				fmt.Fprintf(f, "op:%d\n", k)
				_ = f.Close()
			}
		}
	}
	h := NewWHub(kit.HubOpts{Dir: sc.Dir})
	_ = os.WriteFile(filepath.Join(sc.Dir, "ready"), []byte("open\n"), 0o644)
	opened := time.Now()
	if ns, err := strconv.ParseInt(os.Getenv("VERIF_KILL_AFTER_NS"), 10, 64); err == nil && ns >= 0 {
		// a kill at an arbitrary instant of the op sequence, timed by the process itself (the parent's
		// clock is useless on a busy machine)
		time.AfterFunc(time.Duration(ns), func() { _ = syscall.Kill(os.Getpid(), syscall.SIGKILL) })
	}
	for k, op := range sc.Ops {
		mark(k)
		if err := execOp(h, op); err != nil {
			fmt.Printf("CHILD-OP-ERROR op %d: %v\n", k, err)
			os.Exit(4)
		}
		fmt.Fprintf(ack, "%d\n", k)
		_ = ack.Sync()
	}
	_ = os.WriteFile(filepath.Join(sc.Dir, "opstime"), []byte(strconv.FormatInt(int64(time.Since(opened)), 10)), 0o644)
	_ = h.Store.Close()
	os.Exit(0)
}

type childResult struct {
	exit    int
	killed  bool
	acked   int // index of the last acknowledged op, -1 if none
	out     string
	timeout bool
	opsTime time.Duration // from "hub is open" to the end of the child
	timed   bool          // the parent killed the child after the drawn delay
}

// runWriterChild executes the script in a child process.
func runWriterChild(sc crashScript, env []string, timeout time.Duration) childResult {
	return runWriterChildKill(sc, env, timeout, -1)
}

// runWriterChildKill: with killAfter >= 0 the parent sends SIGKILL that long
// after the child reported its hub open (a kill at an arbitrary instant of the
// op sequence, not at an instrumented boundary).
func runWriterChildKill(sc crashScript, env []string, timeout time.Duration, killAfter time.Duration) childResult {
	sp := filepath.Join(sc.Dir, "script.json")
	b, _ := json.Marshal(sc)
	if err := os.WriteFile(sp, b, 0o644); err != nil {
		return childResult{exit: 3, out: "VERIF-INFRA " + err.Error(), acked: -1}
	}
	cmd := exec.Command(os.Args[0], "-test.run", "^TestVerifChild_Run$", "-test.count", "1")
	cmd.Env = append(os.Environ(), "VERIF_CHILD_SCRIPT="+sp, "VERIF_STATS=", "VERIF_JOURNAL=")
	cmd.Env = append(cmd.Env, env...)
	if killAfter >= 0 {
		cmd.Env = append(cmd.Env, "VERIF_KILL_AFTER_NS="+strconv.FormatInt(int64(killAfter), 10))
	}
	cmd.Dir = sc.Dir
	var sb strings.Builder
	cmd.Stdout = &sb
	cmd.Stderr = &sb
	res := childResult{acked: -1}
	if err := cmd.Start(); err != nil {
		return childResult{exit: 3, out: "VERIF-INFRA cannot start child: " + err.Error(), acked: -1}
	}
	done := make(chan error, 1)
	go func() { done <- cmd.Wait() }()
	res.timed = killAfter >= 0
	select {
	case err := <-done:
		if err != nil {
			if ee, ok := err.(*exec.ExitError); ok {
				if ws, ok := ee.Sys().(syscall.WaitStatus); ok && ws.Signaled() {
					res.killed = true
					res.exit = -int(ws.Signal())
				} else {
					res.exit = ee.ExitCode()
				}
			} else {
				res.exit = 3
			}
		}
	case <-time.After(timeout):
		_ = cmd.Process.Kill()
		<-done
		res.timeout = true
		res.exit = 3
	}
	res.out = sb.String()
	if b, err := os.ReadFile(filepath.Join(sc.Dir, "opstime")); err == nil {
		if ns, err := strconv.ParseInt(strings.TrimSpace(string(b)), 10, 64); err == nil {
			res.opsTime = time.Duration(ns)
		}
	}
	if f, err := os.Open(filepath.Join(sc.Dir, "ack")); err == nil {
		s := bufio.NewScanner(f)
		for s.Scan() {
			if n, err := strconv.Atoi(strings.TrimSpace(s.Text())); err == nil {
				res.acked = n
			}
		}
		_ = f.Close()
	}
	return res
}

// pointHit is one occurrence of a hook point during the counting run.
type pointHit struct {
	Point string `json:"point"`
	N     int    `json:"n"`  // n-th hit of this point in the whole script
	Op    int    `json:"op"` // op in flight
}

func readPointHits(path string) []pointHit {
	var out []pointHit
	f, err := os.Open(path)
	if err != nil {
		return nil
	}
	defer f.Close()
	cur := -1
	cnt := map[string]int{}
	s := bufio.NewScanner(f)
	for s.Scan() {
		l := strings.TrimSpace(s.Text())
		if strings.HasPrefix(l, "op:") {
			cur, _ = strconv.Atoi(l[3:])
			continue
		}
		if l == "" {
			continue
		}
		cnt[l]++
		out = append(out, pointHit{Point: l, N: cnt[l], Op: cur})
	}
	return out
}

// ---- verification of a crashed directory ----------------------------------------

type softFail struct{ msg string }

type softFataler struct{}

func (softFataler) Fatalf(format string, args ...any) { panic(softFail{fmt.Sprintf(format, args...)}) }

// try runs f and returns the message of the first oracle failure ("" = held).
func try(f func()) (msg string) {
	defer func() {
		if r := recover(); r != nil {
			if sf, ok := r.(softFail); ok {
				msg = sf.msg
				return
			}
			panic(r)
		}
	}()
	f()
	return ""
}

// modelAfter replays ops[:n] on a fresh model-only machine.
func modelAfter(ops []Op, n int) *gm {
	g := newModelGM(nil, softFataler{}, nil, kit.GenCfg{})
	for _, op := range ops[:n] {
		g.applyOp(op)
	}
	g.hist = nil
	return g
}

// crashOracle compares the reopened hub with one candidate model.
func crashOracle(h *WHub, cand *gm) string {
	cand.h = h
	cand.f = softFataler{}
	defer func() { cand.h = nil }()
	return try(func() {
		c07Oracle(cand)
		for name, want := range cand.tokens {
			var got map[string]any
			if err := h.Store.GetObject(server.JobDataIndex, name, &got); err != nil {
				cand.fail("job token %s unreadable: %v", name, err)
			}
			if got == nil || got["token"] != fmt.Sprint(want) {
				cand.fail("JOB-TOKEN %s = %v, model %d", name, got, want)
			}
		}
	})
}
