package verifchecks

// C15: what is POSTed is what is GET back; malformed payloads are rejected,
// not fatal. Three checks (DESIGN.md C15):
//
//   TestVerif_C15_roundtrip  (a) generated collections -> POST /datasets/{ds}/entities
//        or POST /transactions -> GET changes (paged) and GET entities -> parsed
//        client-side by an independent strict decoder with namespace expansion AND
//        by EntityStreamParser on a second (downstream) hub -> equals what the
//        payload denotes.
//   TestVerif_C15_mutations  (b) typed mutations of valid payloads: parser returns
//        an error, never panics, entities emitted before the error are exactly the
//        well-formed elements preceding the mutated one; through the handlers:
//        non-200 and nothing derived from the mutated element is stored.
//   TestVerif_C15_corpus     (c) replay of every saved native-fuzzing input, the
//        seed corpus and the hostile constants through the in-target oracle of the
//        fuzz targets (c15_oracle_test.go). The coverage-guided campaign itself is
//        /verif/harness/fuzz/run.sh (thorough tier, manual).
//
// "No panic" is asserted at the parser level only: the HTTP handlers sit behind
// the recover middleware, but HTTPDatasetSource and ProxyDataset call
// ParseStream with no recover of their own (and jobrunner re-panics).

import (
	"encoding/json"
	"fmt"
	"os"
	"path/filepath"
	"sort"
	"strings"
	"testing"

	"pgregory.net/rapid"

	kit "github.com/mimiro-io/datahub/internal/verifkit"
)

// ---- generator ------------------------------------------------------------------

type c15NS struct{ Prefix, Exp string }

var c15NSPool = []c15NS{
	{"_", "http://ex.org/d/"},
	{"x", "http://ex.org/a/"},
	{"y", "http://ex.org/b#"},
	{"z9", "https://ex.org/c/"},
}

var (
	// local names that begin like a scheme ("httpStatus", "httpd/vhost-1") are local names all the same
	c15KeyLocals = []string{"p0", "p1", "p2", "name", "a.b", "k:v", "p/q", "Ü", "httpStatus", "http/method"}
	c15RefLocals = []string{"r0", "r1", "type", "httpsRef"}
	c15TgtLocals = []string{"e0", "e1", "e2", "t-1", "t/u", "t:v", "httpd", "httpd/vhost-1"}
	c15Strings   = []string{"", "a", "x:e0", "http://ex.org/a/e0", "_", "é\"q\\", "line\nbreak\ttab", "\u0000\u001f", "0123456789012345678901234567890123456789", "null", "{\"id\":1}", "日本語 🙂"}
	c15Numbers   = []string{"0", "1", "-1", "1.5", "42", "1e+21", "9007199254740993", "123456789", "1.0", "1E2", "-0", "0.1", "1e-7", "-2.5E-3"}
)

type c15Ident struct {
	W    string // as written in the payload
	Full string // what it denotes
	Form string
}

// c15GenIdent writes (ns, local) in one of the legal spellings.
func c15GenIdent(t *rapid.T, locals []string, label string) c15Ident {
	ns := rapid.IntRange(0, len(c15NSPool)-1).Draw(t, label+"ns")
	local := rapid.SampledFrom(locals).Draw(t, label+"local")
	return c15Spell(t, ns, local, label)
}

// c15NSRot: which expansion each payload-local prefix stands for in the payload being generated
// (prefix i -> expansion (i+rot) mod n). It changes from payload to payload: a payload's context is
// its own, the same local prefix means something else in the next request.
var c15NSRot int

func c15CurNS(i int) c15NS {
	return c15NS{c15NSPool[i].Prefix, c15NSPool[(i+c15NSRot)%len(c15NSPool)].Exp}
}

func c15Spell(t *rapid.T, ns int, local, label string) c15Ident {
	n := c15CurNS(ns)
	full := n.Exp + local
	forms := []string{"curie", "absolute"}
	if ns == 0 && !strings.Contains(local, ":") {
		forms = append(forms, "bare", "bare")
	}
	switch f := rapid.SampledFrom(forms).Draw(t, label+"form"); f {
	case "bare":
		return c15Ident{local, full, "bare"}
	case "absolute":
		return c15Ident{full, full, "absolute"}
	default:
		return c15Ident{n.Prefix + ":" + local, full, "curie"}
	}
}

func c15JSONString(s string) string {
	b, _ := json.Marshal(s)
	return string(b)
}

type c15Val struct {
	Raw  string
	Den  any
	Drop bool // null directly under props: documented as dropped
	Cls  map[string]bool
}

func c15GenScalar(t *rapid.T) c15Val {
	switch rapid.IntRange(0, 5).Draw(t, "sk") {
	case 0, 1, 2:
		s := rapid.SampledFrom(c15Strings).Draw(t, "s")
		return c15Val{Raw: c15JSONString(s), Den: s}
	case 3, 4:
		lit := rapid.SampledFrom(c15Numbers).Draw(t, "n")
		var f float64
		if err := json.Unmarshal([]byte(lit), &f); err != nil {
			panic(err)
		}
		return c15Val{Raw: lit, Den: f}
	default:
		b := rapid.Bool().Draw(t, "b")
		return c15Val{Raw: fmt.Sprint(b), Den: b}
	}
}

func c15GenValue(t *rapid.T, depth int, cls map[string]bool) c15Val {
	k := rapid.IntRange(0, 12).Draw(t, "vk")
	switch {
	case k <= 5:
		return c15GenScalar(t)
	case k == 6 && depth == 0:
		cls["null-prop"] = true
		return c15Val{Raw: "null", Drop: true}
	case k <= 9:
		n := rapid.IntRange(0, 3).Draw(t, "alen")
		raws := make([]string, n)
		den := make([]any, n)
		for i := 0; i < n; i++ {
			var v c15Val
			switch sub := rapid.IntRange(0, 7).Draw(t, "ak"); {
			case sub == 0 && depth < 2:
				cls["nested-array"] = true
				v = c15GenArrayOfScalars(t)
			case sub == 1 && depth < 2:
				cls["nested-entity"] = true
				cls["nested-entity-in-array"] = true
				v = c15GenNested(t, depth+1, cls)
			default:
				v = c15GenScalar(t)
			}
			raws[i], den[i] = v.Raw, v.Den
		}
		cls["array-prop"] = true
		return c15Val{Raw: "[" + strings.Join(raws, ",") + "]", Den: den}
	default:
		if depth >= 2 {
			return c15GenScalar(t)
		}
		cls["nested-entity"] = true
		return c15GenNested(t, depth+1, cls)
	}
}

func c15GenArrayOfScalars(t *rapid.T) c15Val {
	n := rapid.IntRange(0, 2).Draw(t, "ilen")
	raws := make([]string, n)
	den := make([]any, n)
	for i := range raws {
		v := c15GenScalar(t)
		raws[i], den[i] = v.Raw, v.Den
	}
	return c15Val{Raw: "[" + strings.Join(raws, ", ") + "]", Den: den}
}

// c15GenNested: a nested entity {id?, props?, refs?, deleted?} as property value.
func c15GenNested(t *rapid.T, depth int, cls map[string]bool) c15Val {
	e := c15GenEntityBody(t, depth, cls, true)
	f := e.Full()
	m := map[string]any{"props": f.Props, "refs": f.Refs}
	if f.ID != "" {
		m["id"] = f.ID
	}
	if f.Deleted {
		m["deleted"] = true
	}
	return c15Val{Raw: e.JSON(nil), Den: m}
}

type c15Prop struct {
	Key c15Ident
	Val c15Val
}

type c15Ref struct {
	Key     c15Ident
	Targets []c15Ident
	Array   bool
}

// c15GenEnt is one entity as written, with enough structure to mutate it.
type c15GenEnt struct {
	ID       *c15Ident
	Props    []c15Prop
	Refs     []c15Ref
	HasProps bool // "props" key present
	HasRefs  bool
	Deleted  int    // 0 absent, 1 explicit false, 2 true
	Recorded string // raw number or ""
	Order    []string
	Sp       string // white space style inside the object
}

type c15Override struct {
	Field  string // id | deleted | recorded | ref | refmember | nestedid
	Raw    string
	RefIdx int
	MemIdx int
}

func (e *c15GenEnt) Full() *c15Full {
	f := &c15Full{Props: map[string]any{}, Refs: map[string]any{}, Deleted: e.Deleted == 2}
	if e.ID != nil {
		f.ID = e.ID.Full
	}
	for _, p := range e.Props {
		if !p.Val.Drop {
			f.Props[p.Key.Full] = p.Val.Den
		}
	}
	for _, r := range e.Refs {
		if r.Array {
			arr := make([]any, len(r.Targets))
			for i, x := range r.Targets {
				arr[i] = x.Full
			}
			f.Refs[r.Key.Full] = arr
		} else {
			f.Refs[r.Key.Full] = r.Targets[0].Full
		}
	}
	return f
}

// JSON renders the entity; ov replaces (or, when the key is absent, adds) one value.
func (e *c15GenEnt) JSON(ov *c15Override) string {
	var parts []string
	kv := func(k, raw string) { parts = append(parts, c15JSONString(k)+":"+e.Sp+raw) }
	order := append([]string{}, e.Order...)
	has := func(k string) bool {
		for _, o := range order {
			if o == k {
				return true
			}
		}
		return false
	}
	if ov != nil {
		switch ov.Field {
		case "id", "deleted", "recorded":
			if !has(ov.Field) {
				order = append(order, ov.Field)
			}
		case "ref", "refmember":
			if !has("refs") {
				order = append(order, "refs")
			}
		case "nestedid":
			if !has("props") {
				order = append(order, "props")
			}
		}
	}
	for _, k := range order {
		switch k {
		case "id":
			if ov != nil && ov.Field == "id" {
				kv("id", ov.Raw)
			} else if e.ID != nil {
				kv("id", c15JSONString(e.ID.W))
			}
		case "recorded":
			if ov != nil && ov.Field == "recorded" {
				kv("recorded", ov.Raw)
			} else if e.Recorded != "" {
				kv("recorded", e.Recorded)
			}
		case "deleted":
			if ov != nil && ov.Field == "deleted" {
				kv("deleted", ov.Raw)
			} else if e.Deleted > 0 {
				kv("deleted", fmt.Sprint(e.Deleted == 2))
			}
		case "props":
			var ps []string
			for _, p := range e.Props {
				ps = append(ps, c15JSONString(p.Key.W)+":"+e.Sp+p.Val.Raw)
			}
			if ov != nil && ov.Field == "nestedid" {
				ps = append(ps, c15JSONString("x:zzmut")+":"+`{"props":{},"id":`+ov.Raw+`,"refs":{}}`)
			}
			kv("props", "{"+strings.Join(ps, ","+e.Sp)+"}")
		case "refs":
			var rs []string
			done := false
			for i, r := range e.Refs {
				raw := ""
				switch {
				case ov != nil && ov.Field == "ref" && i == ov.RefIdx:
					raw, done = ov.Raw, true
				case r.Array:
					ms := make([]string, len(r.Targets))
					for j, x := range r.Targets {
						ms[j] = c15JSONString(x.W)
					}
					if ov != nil && ov.Field == "refmember" && i == ov.RefIdx {
						j := ov.MemIdx
						if j > len(ms) {
							j = len(ms)
						}
						ms = append(ms[:j], append([]string{ov.Raw}, ms[j:]...)...)
						done = true
					}
					raw = "[" + strings.Join(ms, ","+e.Sp) + "]"
				default:
					raw = c15JSONString(r.Targets[0].W)
				}
				rs = append(rs, c15JSONString(r.Key.W)+":"+e.Sp+raw)
			}
			if ov != nil && !done {
				switch ov.Field {
				case "ref":
					rs = append(rs, c15JSONString("x:zzmut")+":"+ov.Raw)
				case "refmember":
					rs = append(rs, c15JSONString("x:zzmut")+":["+c15JSONString("x:e1")+","+ov.Raw+"]")
				}
			}
			kv("refs", "{"+strings.Join(rs, ","+e.Sp)+"}")
		}
	}
	return "{" + e.Sp + strings.Join(parts, ","+e.Sp) + e.Sp + "}"
}

// c15GenEntityBody draws props/refs/flags. nested entities may lack an id.
func c15GenEntityBody(t *rapid.T, depth int, cls map[string]bool, nested bool) *c15GenEnt {
	e := &c15GenEnt{Sp: rapid.SampledFrom([]string{"", "", " ", "\n\t"}).Draw(t, "sp")}
	if nested {
		if rapid.IntRange(0, 3).Draw(t, "nid") > 0 {
			id := c15GenIdent(t, []string{"n0", "n1"}, "nid")
			e.ID = &id
		}
	}
	seen := map[string]bool{}
	np := rapid.IntRange(0, 3).Draw(t, "np")
	if nested && np > 1 {
		np = 1
	}
	for i := 0; i < np; i++ {
		k := c15GenIdent(t, c15KeyLocals, "pk")
		if seen[k.Full] {
			continue
		}
		seen[k.Full] = true
		cls["key-"+k.Form] = true
		e.Props = append(e.Props, c15Prop{Key: k, Val: c15GenValue(t, depth, cls)})
	}
	nr := rapid.IntRange(0, 2).Draw(t, "nr")
	if nested && nr > 1 {
		nr = 1
	}
	seen = map[string]bool{}
	for i := 0; i < nr; i++ {
		k := c15GenIdent(t, c15RefLocals, "rk")
		if seen[k.Full] {
			continue
		}
		seen[k.Full] = true
		r := c15Ref{Key: k}
		if rapid.IntRange(0, 2).Draw(t, "arr") == 0 {
			r.Array = true
			n := rapid.IntRange(0, 3).Draw(t, "rn")
			for j := 0; j < n; j++ {
				r.Targets = append(r.Targets, c15GenIdent(t, c15TgtLocals, "tgt"))
			}
			cls["array-ref"] = true
			if n == 0 {
				cls["empty-array-ref"] = true
			}
		} else {
			r.Targets = []c15Ident{c15GenIdent(t, c15TgtLocals, "tgt")}
		}
		for _, x := range r.Targets {
			cls["ref-"+x.Form] = true
		}
		e.Refs = append(e.Refs, r)
	}
	e.HasProps = len(e.Props) > 0 || rapid.IntRange(0, 3).Draw(t, "hp") > 0
	e.HasRefs = len(e.Refs) > 0 || rapid.IntRange(0, 3).Draw(t, "hr") > 0
	switch d := rapid.IntRange(0, 9).Draw(t, "del"); {
	case d <= 1:
		e.Deleted = 2
		cls["deleted"] = true
	case d == 2:
		e.Deleted = 1
		cls["deleted-false-explicit"] = true
	}
	if !nested && rapid.IntRange(0, 4).Draw(t, "rec") == 0 {
		e.Recorded = rapid.SampledFrom([]string{"0", "5", "1696430000000000000"}).Draw(t, "recv")
		cls["recorded-in-payload"] = true
	}
	keys := []string{}
	if e.ID != nil || !nested {
		keys = append(keys, "id")
	}
	if e.Recorded != "" {
		keys = append(keys, "recorded")
	}
	if e.Deleted > 0 {
		keys = append(keys, "deleted")
	}
	if e.HasProps {
		keys = append(keys, "props")
	}
	if e.HasRefs {
		keys = append(keys, "refs")
	}
	if rapid.IntRange(0, 2).Draw(t, "shuffle") == 0 {
		keys = rapid.Permutation(keys).Draw(t, "order")
		cls["shuffled-keys"] = true
	}
	e.Order = keys
	return e
}

type c15Coll struct {
	Ctx  []c15NS
	Ents []*c15GenEnt
	Sep  string
	Cls  map[string]bool
}

func c15GenColl(t *rapid.T, minEnts, maxEnts int) *c15Coll {
	c := &c15Coll{Cls: map[string]bool{}}
	c15NSRot = rapid.IntRange(0, len(c15NSPool)-1).Draw(t, "nsRotation")
	for i := range c15NSPool {
		c.Ctx = append(c.Ctx, c15CurNS(i))
	}
	if rapid.Bool().Draw(t, "extra-ns") {
		c.Ctx = append(c.Ctx, c15NS{"unused", "http://ex.org/unused/"})
	}
	c.Ctx = rapid.Permutation(c.Ctx).Draw(t, "ctxorder")
	c.Sep = rapid.SampledFrom([]string{",", ",", ", ", ",\n"}).Draw(t, "sep")
	n := rapid.IntRange(minEnts, maxEnts).Draw(t, "n")
	// distinct ids: the collection is read back from a fresh dataset as its change feed
	locals := []string{"e0", "e1", "e2", "e3", "e4", "e5", "e6", "a.b", "k:v", "p/q", "Ü-1"}
	used := map[int]bool{}
	for i := 0; i < n; i++ {
		e := c15GenEntityBody(t, 0, c.Cls, false)
		slot := rapid.IntRange(0, len(c15NSPool)*len(locals)-1).Draw(t, "idslot")
		for used[slot] {
			slot = (slot + 1) % (len(c15NSPool) * len(locals))
		}
		used[slot] = true
		id := c15Spell(t, slot%len(c15NSPool), locals[slot/len(c15NSPool)], "id")
		e.ID = &id
		c.Cls["id-"+id.Form] = true
		c.Ents = append(c.Ents, e)
	}
	return c
}

func (c *c15Coll) CtxJSON(namespacesRaw *string, id string) string {
	ns := ""
	if namespacesRaw != nil {
		ns = *namespacesRaw
	} else {
		var ps []string
		for _, n := range c.Ctx {
			ps = append(ps, c15JSONString(n.Prefix)+":"+c15JSONString(n.Exp))
		}
		ns = "{" + strings.Join(ps, ",") + "}"
	}
	if ns == "<absent>" {
		return `{"id":` + c15JSONString(id) + `}`
	}
	return `{"id":` + c15JSONString(id) + `,"namespaces":` + ns + `}`
}

// Elems renders context + entities; ov (optional) applies to entity index at.
func (c *c15Coll) Elems(at int, ov *c15Override) []string {
	out := []string{c.CtxJSON(nil, "@context")}
	for i, e := range c.Ents {
		if ov != nil && i == at {
			out = append(out, e.JSON(ov))
		} else {
			out = append(out, e.JSON(nil))
		}
	}
	return out
}

func c15Stream(elems []string, sep string) string {
	return "[" + strings.Join(elems, sep) + "]"
}

func (c *c15Coll) Fulls() []*c15Full {
	out := make([]*c15Full, len(c.Ents))
	for i, e := range c.Ents {
		out[i] = e.Full()
	}
	return out
}

func (c *c15Coll) classes() []string {
	out := kit.SortedKeys(c.Cls)
	return out
}

func (c *c15Coll) nontrivialA() bool {
	return c.Cls["nested-entity"] || c.Cls["array-ref"] || c.Cls["id-bare"] || c.Cls["key-bare"] || c.Cls["ref-bare"]
}

// c15TxnJSON renders {"@context": {...}, ds: [...], ...}; parts in the given dataset order.
func c15TxnJSON(ctxRaw string, names []string, parts map[string][]string, sep string) string {
	var ms []string
	if ctxRaw != "<absent>" {
		ms = append(ms, `"@context":`+ctxRaw)
	}
	for _, ds := range names {
		ms = append(ms, c15JSONString(ds)+":["+strings.Join(parts[ds], sep)+"]")
	}
	return "{" + strings.Join(ms, sep) + "}"
}

func (c *c15Coll) TxnCtx() string {
	var ps []string
	for _, n := range c.Ctx {
		ps = append(ps, c15JSONString(n.Prefix)+":"+c15JSONString(n.Exp))
	}
	return `{"namespaces":{` + strings.Join(ps, ",") + `}}`
}

// ---- hub helpers ------------------------------------------------------------------

func c15NewHub(t interface{ Fatalf(string, ...any) }) *WHub {
	return NewWHub(kit.HubOpts{})
}

func c15Fail(t interface{ Fatalf(string, ...any) }, c any, format string, a ...any) {
	b, _ := json.MarshalIndent(c, "", " ")
	t.Fatalf("%s\nVERIF-CASE-BEGIN\n%s\nVERIF-CASE-END", fmt.Sprintf(format, a...), b)
}

func c15CreateDataset(t interface{ Fatalf(string, ...any) }, w *WHub, name string) {
	if code, body := w.Do("POST", "/datasets/"+name, "", nil); code != 200 {
		t.Fatalf("VERIF-INFRA cannot create dataset %s: %d %s", name, code, body)
	}
}

// c15ReadBack fetches a collection endpoint page by page and returns every page body.
func c15ReadBack(w *WHub, ds, kind string, limit int) ([]string, error) {
	var bodies []string
	tok := ""
	for i := 0; i < 1000; i++ {
		path := "/datasets/" + ds + "/" + kind + "?"
		if tok != "" {
			if kind == "changes" {
				path += "since=" + urlEsc(tok) + "&"
			} else {
				path += "from=" + urlEsc(tok) + "&"
			}
		}
		if limit > 0 {
			path += fmt.Sprintf("limit=%d", limit)
		}
		code, body := w.Do("GET", path, "", nil)
		if code != 200 {
			return nil, fmt.Errorf("GET %s -> %d %s", path, code, body)
		}
		bodies = append(bodies, body)
		if limit == 0 {
			return bodies, nil
		}
		es, ok := c15RefStream([]byte(body))
		if !ok {
			return bodies, nil // reported by the caller
		}
		n, next := 0, ""
		for _, e := range es {
			if e.ID == "@continuation" {
				next, _ = e.Props["token"].(string)
			} else {
				n++
			}
		}
		if n == 0 || next == "" || next == tok {
			return bodies, nil
		}
		tok = next
	}
	return nil, fmt.Errorf("paging of %s/%s did not terminate", ds, kind)
}

// c15CheckBodies: every page is a collection the strict client decoder accepts
// and the downstream hub's stream parser accepts with the same entities; the
// concatenation denotes want (ordered for the change feed, by id otherwise).
func c15CheckBodies(down *kit.Hub, bodies []string, want []*c15Full, ordered bool) string {
	return c15CheckBodiesX(down, bodies, want, ordered, false)
}

// collapse: a version that denotes the same as the previous version of its id counts once (for
// callers that do not speak about how many versions a repeated write leaves behind).
func c15CheckBodiesX(down *kit.Hub, bodies []string, want []*c15Full, ordered, collapse bool) string {
	var got []*c15Full
	for pi, body := range bodies {
		es, ok := c15RefStream([]byte(body))
		if !ok {
			return fmt.Sprintf("page %d: the hub's output is not a well-formed UDA collection for the strict client decoder: %.2000s", pi, body)
		}
		if len(es) == 0 || es[len(es)-1].ID != "@continuation" {
			return fmt.Sprintf("page %d: no continuation element at the end: %.2000s", pi, body)
		}
		if v, refOK, _ := c15OracleStream(down.Store, []byte(body)); v != "" || !refOK {
			return fmt.Sprintf("page %d, downstream hub: %s\nbody=%.2000s", pi, v, body)
		}
		got = append(got, es[:len(es)-1]...)
	}
	if collapse {
		cur := map[string]string{}
		var g2 []*c15Full
		for _, f := range got {
			if k, ok := cur[f.ID]; ok && k == f.Key() {
				continue
			}
			cur[f.ID] = f.Key()
			g2 = append(g2, f)
		}
		got = g2
	}
	if ordered {
		return c15SameList(got, want)
	}
	g, w := c15Keys(got), c15Keys(want)
	sort.Strings(g)
	sort.Strings(w)
	if strings.Join(g, "\n") != strings.Join(w, "\n") {
		return fmt.Sprintf("entity sets differ\n got=%v\nwant=%v", g, w)
	}
	return ""
}

func c15Downstream() *kit.Hub {
	down := kit.NewHub(kit.HubOpts{})
	// make the downstream prefix numbering differ from the upstream hub's
	for _, ns := range []string{"http://ex.org/down/1/", "http://ex.org/down/2#", "http://ex.org/b#"} {
		if _, err := down.Store.NamespaceManager.AssertPrefixMappingForExpansion(ns); err != nil {
			panic(err)
		}
	}
	return down
}

// ---- (a) round trip ----------------------------------------------------------------

type c15RTCase struct {
	Via     string            `json:"via"`
	Payload string            `json:"payload"`
	Limit   int               `json:"limit"`
	Want    map[string]any    `json:"want"`
	Names   []string          `json:"datasets"`
	Extra   map[string]string `json:"extra,omitempty"`
}

func TestVerif_C15_roundtrip(t *testing.T) {
	defer kit.S().Flush()
	defer kit.CleanupScratch()
	down := c15Downstream()
	defer down.Close()
	rapid.Check(t, func(t *rapid.T) {
		c := c15GenColl(t, 0, 24)
		via := rapid.SampledFrom([]string{"entities", "entities", "transactions"}).Draw(t, "via")
		limit := rapid.SampledFrom([]int{0, 0, 1, 3, 10}).Draw(t, "limit")
		cs := &c15RTCase{Via: via, Limit: limit, Want: map[string]any{}}
		want := map[string][]*c15Full{}
		elems := c.Elems(-1, nil)
		if via == "entities" {
			cs.Names = []string{"d1"}
			cs.Payload = c15Stream(elems, c.Sep)
			want["d1"] = c.Fulls()
		} else {
			cs.Names = []string{"d1", "d2"}
			parts := map[string][]string{"d1": {}, "d2": {}}
			for i, e := range c.Ents {
				ds := rapid.SampledFrom(cs.Names).Draw(t, "part")
				parts[ds] = append(parts[ds], elems[i+1])
				want[ds] = append(want[ds], e.Full())
			}
			cs.Payload = c15TxnJSON(c.TxnCtx(), rapid.Permutation(cs.Names).Draw(t, "dsorder"), parts, c.Sep)
		}
		for ds, fs := range want {
			cs.Want[ds] = c15Keys(fs)
		}
		kit.Journal(cs)
		defer kit.JournalDone()
		cls := append(c.classes(), "via-"+via, fmt.Sprintf("limit-%d", limit))
		if len(c.Ents) > 10 {
			cls = append(cls, "more-than-one-handler-batch")
		}
		kit.S().Case(cs.Payload, c.nontrivialA() && len(c.Ents) > 0, cls...)

		w := c15NewHub(t)
		defer w.Close()
		for _, ds := range cs.Names {
			c15CreateDataset(t, w, ds)
		}
		if rapid.Bool().Draw(t, "readFirst") {
			// the datasets are read before anything is posted: whatever the hub remembers from serving
			// them empty (contexts in particular) must not show in what it serves afterwards
			for _, ds := range cs.Names {
				for _, kind := range []string{"changes", "entities"} {
					if _, err := c15ReadBack(w, ds, kind, 0); err != nil {
						c15Fail(t, cs, "reading the empty dataset: %v", err)
					}
				}
			}
			kit.S().Class("read-before-post", 1)
		}
		path := "/datasets/d1/entities"
		if via == "transactions" {
			path = "/transactions"
		}
		if code, body := w.Do("POST", path, cs.Payload, nil); code != 200 {
			c15Fail(t, cs, "valid payload rejected: POST %s -> %d %s", path, code, body)
		}
		for _, ds := range cs.Names {
			bodies, err := c15ReadBack(w, ds, "changes", limit)
			if err != nil {
				c15Fail(t, cs, "%v", err)
			}
			if d := c15CheckBodies(down, bodies, want[ds], true); d != "" {
				c15Fail(t, cs, "GET /datasets/%s/changes (limit %d) does not give back what was posted: %s", ds, limit, d)
			}
			bodies, err = c15ReadBack(w, ds, "entities", limit)
			if err != nil {
				c15Fail(t, cs, "%v", err)
			}
			if d := c15CheckBodies(down, bodies, want[ds], false); d != "" {
				c15Fail(t, cs, "GET /datasets/%s/entities (limit %d) does not give back what was posted: %s", ds, limit, d)
			}
			kit.S().AddExtra("pages_parsed_back", 2*len(bodies))
		}
		// a second request to the same hub whose context gives the same local prefixes another meaning:
		// every payload is read under its own context, nothing of an earlier request's may stick
		if via == "entities" && rapid.Bool().Draw(t, "secondPost") {
			c2 := c15GenColl(t, 1, 8)
			c15CreateDataset(t, w, "d2")
			payload2 := c15Stream(c2.Elems(-1, nil), c2.Sep)
			cs.Names = append(cs.Names, "d2")
			cs.Payload += "\n-- second request, to d2 --\n" + payload2
			if code, body := w.Do("POST", "/datasets/d2/entities", payload2, nil); code != 200 {
				c15Fail(t, cs, "valid payload rejected: second POST /datasets/d2/entities -> %d %s", code, body)
			}
			bodies, err := c15ReadBack(w, "d2", "changes", limit)
			if err != nil {
				c15Fail(t, cs, "%v", err)
			}
			if d := c15CheckBodies(down, bodies, c2.Fulls(), true); d != "" {
				c15Fail(t, cs, "second request (same local prefixes, other expansions): GET /datasets/d2/changes does not give back what was posted: %s", d)
			}
			kit.S().Class("second-request-with-other-context", 1)
		}
	})
}

// ---- (b) typed mutations --------------------------------------------------------------

type c15Mut struct {
	Kind    string `json:"kind"`
	Raw     string `json:"raw,omitempty"`
	At      int    `json:"at"` // mutated entity index (0-based); -1: context
	Lenient bool   `json:"lenient,omitempty"`
	// Lenient: the wrong value is one the parser does not look at closely enough to
	// reject deterministically (object / nested array where a reference is expected,
	// a context without namespaces): only "no panic" is asserted.
	Payload string `json:"payload"`
	Txn     bool   `json:"txn,omitempty"`
	Cut     int    `json:"cut,omitempty"`
}

type c15Typed struct {
	field   string
	raw     string
	lenient bool
}

// c15DrawTyped: field uniformly, then one of its wrong values.
func c15DrawTyped(t *rapid.T, label string) c15Typed {
	field := rapid.SampledFrom([]string{"id", "deleted", "recorded", "ref", "refmember", "nestedid"}).Draw(t, label+"field")
	var opts []c15Typed
	for _, m := range c15TypedMutations {
		if m.field == field {
			opts = append(opts, m)
		}
	}
	return opts[rapid.IntRange(0, len(opts)-1).Draw(t, label+"raw")]
}

var c15TypedMutations = []c15Typed{
	{"id", `17`, false}, {"id", `1.5`, false}, {"id", `true`, false}, {"id", `null`, false}, {"id", `{}`, false}, {"id", `[]`, false}, {"id", `{"id":"x:e0"}`, false},
	{"id", `""`, false}, {"id", `"nope:e0"`, false},
	{"deleted", `"false"`, false}, {"deleted", `"true"`, false}, {"deleted", `0`, false}, {"deleted", `1`, false}, {"deleted", `null`, false}, {"deleted", `{}`, false}, {"deleted", `[]`, false},
	{"recorded", `"123"`, false}, {"recorded", `true`, false}, {"recorded", `null`, false}, {"recorded", `{}`, false}, {"recorded", `[1]`, false},
	{"ref", `5`, false}, {"ref", `true`, false}, {"ref", `null`, false}, {"ref", `""`, false}, {"ref", `"nope:e1"`, false},
	{"ref", `{}`, true}, {"ref", `{"id":"x:e1"}`, true}, {"ref", `[["x:e1"]]`, true},
	{"refmember", `5`, false}, {"refmember", `false`, false}, {"refmember", `null`, false}, {"refmember", `""`, false}, {"refmember", `"nope:e1"`, false},
	{"refmember", `{}`, true}, {"refmember", `["x:e1"]`, true},
	{"nestedid", `5`, false}, {"nestedid", `null`, false}, {"nestedid", `true`, false}, {"nestedid", `""`, false},
}

var c15CtxMutations = []struct {
	kind    string
	ns      string
	lenient bool
}{
	{"namespaces-type", `"x"`, false}, {"namespaces-type", `7`, false}, {"namespaces-type", `["x","http://ex.org/a/"]`, false}, {"namespaces-type", `true`, false}, {"namespaces-type", `null`, false},
	{"namespaces-member-type", `{"_":"http://ex.org/d/","x":1,"y":"http://ex.org/b#","z9":"https://ex.org/c/"}`, false},
	{"namespaces-member-type", `{"_":"http://ex.org/d/","x":null,"y":"http://ex.org/b#","z9":"https://ex.org/c/"}`, false},
	{"namespaces-member-type", `{"_":"http://ex.org/d/","x":{"a":"http://ex.org/a/"},"y":"http://ex.org/b#","z9":"https://ex.org/c/"}`, false},
	{"namespaces-member-type", `{"_":["http://ex.org/d/"],"x":"http://ex.org/a/","y":"http://ex.org/b#","z9":"https://ex.org/c/"}`, false},
	{"namespaces-missing", `<absent>`, true},
}

// c15Boundaries returns the token boundaries of a JSON text: offsets right
// after each token and right before the next one.
func c15Boundaries(s string) []int {
	set := map[int]bool{}
	dec := json.NewDecoder(strings.NewReader(s))
	for {
		before := int(dec.InputOffset())
		if _, err := dec.Token(); err != nil {
			break
		}
		after := int(dec.InputOffset())
		set[after] = true
		// start of the token just read: skip separators and white space after `before`
		i := before
		for i < after && strings.ContainsRune(" \t\r\n,:", rune(s[i])) {
			i++
		}
		set[i] = true
		set[before] = true
	}
	var out []int
	for k := range set {
		if k < len(s) {
			out = append(out, k)
		}
	}
	sort.Ints(out)
	return out
}

// c15ElemEnds gives, for a stream rendered from elems with sep, the offset just
// after the closing brace of every element.
func c15ElemEnds(elems []string, sep string) []int {
	ends := make([]int, len(elems))
	off := 1
	for i, e := range elems {
		off += len(e)
		ends[i] = off
		off += len(sep)
	}
	return ends
}

type c15MutReport struct {
	Collection string `json:"valid_payload"`
	Mut        c15Mut `json:"mutation"`
}

func TestVerif_C15_mutations(t *testing.T) {
	defer kit.S().Flush()
	defer kit.CleanupScratch()
	knownF16 := kit.Known("F16")
	perCase := kit.EnvInt("VERIF_C15_MUTS", 8)
	rapid.Check(t, func(t *rapid.T) {
		c := c15GenColl(t, 1, 14)
		valid := c15Stream(c.Elems(-1, nil), c.Sep)
		fulls := c.Fulls()
		w := c15NewHub(t)
		defer w.Close()
		dsCount := 0
		newDS := func() string {
			dsCount++
			name := fmt.Sprintf("m%d", dsCount)
			c15CreateDataset(t, w, name)
			return name
		}
		fail := func(m c15Mut, format string, a ...any) {
			c15Fail(t, c15MutReport{Collection: valid, Mut: m}, format, a...)
		}
		// sanity of the generator: the unmutated payload parses to its denotation
		if r := c15RunStream(w.Store, []byte(valid)); r.Panic != "" || r.Err != nil || r.ConvErr != nil || c15SameList(r.Emitted, fulls) != "" {
			fail(c15Mut{Kind: "none", Payload: valid}, "valid payload is not parsed to what it denotes: panic=%q err=%v conv=%v %s", r.Panic, r.Err, r.ConvErr, c15SameList(r.Emitted, fulls))
		}

		// parser-level oracle for one mutated stream
		checkStream := func(m c15Mut, wantEmitted []*c15Full) {
			kit.Journal(m)
			defer kit.JournalDone()
			nt := m.At >= 1
			if m.Kind == "truncation" {
				// every token boundary of the payload is cut: counted, one case per payload below
				kit.S().AddExtra("truncated_prefixes_parsed", 1)
			} else {
				kit.S().Case([]any{m.Kind, m.Raw, m.At, len(m.Payload), m.Payload}, nt, "stream-"+m.Kind)
			}
			if knownF16 && c15F16Shape([]byte(m.Payload), false) {
				kit.S().Exclude("F16")
				return
			}
			r := c15RunStream(w.Store, []byte(m.Payload))
			if r.Panic != "" {
				fail(m, "ParseStream panicked on a malformed payload (%s): %s", m.Kind, r.Panic)
			}
			if m.Lenient {
				kit.S().Class("lenient-no-panic-only", 1)
				if m.Kind == "namespaces-missing" && r.Err == nil {
					// accepted as an empty context: then every identifier must have been absolute
					if d := c15SameList(r.Emitted, fulls); d != "" || r.ConvErr != nil {
						fail(m, "context without namespaces accepted, but the entities are not what the payload denotes: %v %s", r.ConvErr, d)
					}
				}
				return
			}
			if r.Err == nil {
				fail(m, "ParseStream accepted a malformed payload (%s %s at element %d)", m.Kind, m.Raw, m.At)
			}
			if r.ConvErr != nil {
				fail(m, "ParseStream emitted an entity that cannot be expanded: %v", r.ConvErr)
			}
			if d := c15SameList(r.Emitted, wantEmitted); d != "" {
				fail(m, "entities emitted before the error are not exactly the well-formed elements preceding the malformed one (%s): %s", m.Kind, d)
			}
		}
		// handler-level oracle
		checkPost := func(m c15Mut, preceding []*c15Full) {
			if m.Lenient {
				return
			}
			ds := newDS()
			code, body := w.Do("POST", "/datasets/"+ds+"/entities", m.Payload, nil)
			kit.S().Class("handler-post", 1)
			if code == 200 {
				fail(m, "POST of a malformed payload (%s) answered 200 %s", m.Kind, body)
			}
			bodies, err := c15ReadBack(w, ds, "changes", 0)
			if err != nil {
				fail(m, "%v", err)
			}
			es, ok := c15RefStream([]byte(bodies[0]))
			if !ok {
				fail(m, "after a rejected POST the change feed is not a well-formed collection: %.2000s", bodies[0])
			}
			allowed := map[string]bool{}
			for _, f := range preceding {
				allowed[f.Key()] = true
			}
			for _, e := range es {
				if e.ID == "@continuation" {
					continue
				}
				if !allowed[e.Key()] {
					fail(m, "a rejected POST (%s, HTTP %d) stored an entity that is not one of the well-formed elements preceding the malformed one: %s", m.Kind, code, e.Key())
				}
			}
		}

		var muts []c15Mut
		for i := 0; i < perCase; i++ {
			at := rapid.IntRange(0, len(c.Ents)-1).Draw(t, "at")
			tm := c15DrawTyped(t, "typed")
			ov := &c15Override{Field: tm.field, Raw: tm.raw}
			if tm.field == "ref" || tm.field == "refmember" {
				ov.RefIdx = rapid.IntRange(0, 2).Draw(t, "refidx")
				ov.MemIdx = rapid.IntRange(0, 3).Draw(t, "memidx")
				if tm.field == "refmember" {
					// refmember needs an array reference at RefIdx; otherwise the element gets one added
					if ov.RefIdx >= len(c.Ents[at].Refs) || !c.Ents[at].Refs[ov.RefIdx].Array {
						ov.RefIdx = 99
					}
				} else if ov.RefIdx >= len(c.Ents[at].Refs) {
					ov.RefIdx = 99
				}
			}
			m := c15Mut{Kind: tm.field + "-type", Raw: tm.raw, At: at, Lenient: tm.lenient, Payload: c15Stream(c.Elems(at, ov), c.Sep)}
			muts = append(muts, m)
			checkStream(m, fulls[:at])
		}
		// context mutations
		cm := rapid.SampledFrom(c15CtxMutations).Draw(t, "ctxmut")
		{
			elems := c.Elems(-1, nil)
			elems[0] = c.CtxJSON(&cm.ns, "@context")
			m := c15Mut{Kind: cm.kind, Raw: cm.ns, At: -1, Lenient: cm.lenient, Payload: c15Stream(elems, c.Sep)}
			muts = append(muts, m)
			checkStream(m, nil)
			elems = c.Elems(-1, nil)
			switch rapid.IntRange(0, 2).Draw(t, "ctxpos") {
			case 0:
				m = c15Mut{Kind: "context-missing", At: -1, Payload: c15Stream(elems[1:], c.Sep)}
			case 1:
				sw := append([]string{elems[1], elems[0]}, elems[2:]...)
				m = c15Mut{Kind: "context-not-first", At: -1, Payload: c15Stream(sw, c.Sep)}
			default:
				elems[0] = c.CtxJSON(nil, "@ctx")
				m = c15Mut{Kind: "context-wrong-id", At: -1, Payload: c15Stream(elems, c.Sep)}
			}
			muts = append(muts, m)
			checkStream(m, nil)
		}
		// truncation at every token boundary (parser level)
		elems := c.Elems(-1, nil)
		ends := c15ElemEnds(elems, c.Sep)
		cuts := c15Boundaries(valid)
		kit.S().Case([]any{"truncation at every token boundary", valid}, len(c.Ents) >= 2, "stream-truncation-all-boundaries")
		for _, cut := range cuts {
			n := 0
			for i := 1; i < len(ends); i++ {
				if ends[i] <= cut {
					n = i
				}
			}
			m := c15Mut{Kind: "truncation", At: n, Cut: cut, Payload: valid[:cut]}
			checkStream(m, fulls[:n])
		}
		// a cut inside a token as well
		if len(valid) > 2 {
			cut := rapid.IntRange(1, len(valid)-1).Draw(t, "cut")
			n := 0
			for i := 1; i < len(ends); i++ {
				if ends[i] <= cut {
					n = i
				}
			}
			m := c15Mut{Kind: "truncation-anywhere", At: n, Cut: cut, Payload: valid[:cut]}
			muts = append(muts, m)
			checkStream(m, fulls[:n])
		}
		if len(cuts) > 0 {
			cut := rapid.SampledFrom(cuts).Draw(t, "hcut")
			n := 0
			for i := 1; i < len(ends); i++ {
				if ends[i] <= cut {
					n = i
				}
			}
			muts = append(muts, c15Mut{Kind: "truncation", At: n, Cut: cut, Payload: valid[:cut]})
		}
		// through the handler: two of the mutations of this case
		for i := 0; i < 2 && len(muts) > 0; i++ {
			m := rapid.SampledFrom(muts).Draw(t, "posted")
			at := m.At
			if at < 0 {
				at = 0
			}
			checkPost(m, fulls[:at])
		}

		// ---- transactions ----
		names := []string{"t1", "t2"}
		for _, ds := range names {
			c15CreateDataset(t, w, ds)
		}
		partOf := make([]string, len(c.Ents))
		for i := range c.Ents {
			partOf[i] = rapid.SampledFrom(names).Draw(t, "tpart")
		}
		renderTxn := func(at int, ov *c15Override, ctxRaw string) string {
			el := c.Elems(at, ov)
			parts := map[string][]string{"t1": {}, "t2": {}}
			for i := range c.Ents {
				parts[partOf[i]] = append(parts[partOf[i]], el[i+1])
			}
			return c15TxnJSON(ctxRaw, names, parts, c.Sep)
		}
		validTxn := renderTxn(-1, nil, c.TxnCtx())
		if v, refOK, _ := c15OracleTxn(w.Store, []byte(validTxn)); v != "" || !refOK {
			fail(c15Mut{Kind: "none", Txn: true, Payload: validTxn}, "valid transaction is not parsed to what it denotes (ref accepted=%v): %s", refOK, v)
		}
		checkTxn := func(m c15Mut) {
			m.Txn = true
			kit.Journal(m)
			defer kit.JournalDone()
			if m.Kind == "truncation" {
				kit.S().AddExtra("truncated_prefixes_parsed", 1)
			} else {
				kit.S().Case([]any{"txn", m.Kind, m.Raw, m.At, m.Payload}, m.At >= 1, "txn-"+m.Kind)
			}
			if knownF16 && c15F16Shape([]byte(m.Payload), true) {
				kit.S().Exclude("F16")
				return
			}
			r := c15RunTxn(w.Store, []byte(m.Payload))
			if r.Panic != "" {
				fail(m, "ParseTransaction panicked on a malformed payload (%s): %s", m.Kind, r.Panic)
			}
			if m.Lenient {
				kit.S().Class("lenient-no-panic-only", 1)
				return
			}
			if r.Err == nil {
				fail(m, "ParseTransaction accepted a malformed payload (%s %s at element %d)", m.Kind, m.Raw, m.At)
			}
		}
		var tmuts []c15Mut
		for i := 0; i < perCase/2+1; i++ {
			at := rapid.IntRange(0, len(c.Ents)-1).Draw(t, "tat")
			tm := c15DrawTyped(t, "ttyped")
			ov := &c15Override{Field: tm.field, Raw: tm.raw, RefIdx: 99}
			m := c15Mut{Kind: tm.field + "-type", Raw: tm.raw, At: at, Lenient: tm.lenient, Payload: renderTxn(at, ov, c.TxnCtx())}
			tmuts = append(tmuts, m)
			checkTxn(m)
		}
		{
			cm := rapid.SampledFrom(c15CtxMutations).Draw(t, "tctxmut")
			ctxRaw := `{"namespaces":` + cm.ns + `}`
			if cm.ns == "<absent>" {
				ctxRaw = `{}`
			}
			m := c15Mut{Kind: cm.kind, Raw: cm.ns, At: -1, Lenient: cm.lenient, Payload: renderTxn(-1, nil, ctxRaw)}
			tmuts = append(tmuts, m)
			checkTxn(m)
			m = c15Mut{Kind: "context-missing", At: -1, Payload: renderTxn(-1, nil, "<absent>")}
			tmuts = append(tmuts, m)
			checkTxn(m)
		}
		tcuts := c15Boundaries(validTxn)
		kit.S().Case([]any{"txn truncation at every token boundary", validTxn}, len(c.Ents) >= 2, "txn-truncation-all-boundaries")
		for _, cut := range tcuts {
			checkTxn(c15Mut{Kind: "truncation", At: 1, Cut: cut, Payload: validTxn[:cut]})
		}
		if len(tcuts) > 0 {
			cut := rapid.SampledFrom(tcuts).Draw(t, "thcut")
			tmuts = append(tmuts, c15Mut{Kind: "truncation", At: 1, Cut: cut, Payload: validTxn[:cut]})
		}
		// through POST /transactions: nothing of a rejected transaction is stored
		for i := 0; i < 2 && len(tmuts) > 0; i++ {
			m := rapid.SampledFrom(tmuts).Draw(t, "tposted")
			if m.Lenient {
				continue
			}
			before := map[string]string{}
			for _, ds := range names {
				b, err := c15ReadBack(w, ds, "changes", 0)
				if err != nil {
					fail(m, "%v", err)
				}
				before[ds] = b[0]
			}
			code, body := w.Do("POST", "/transactions", m.Payload, nil)
			kit.S().Class("handler-post-txn", 1)
			if code == 200 {
				m.Txn = true
				fail(m, "POST /transactions of a malformed payload (%s) answered 200 %s", m.Kind, body)
			}
			for _, ds := range names {
				b, err := c15ReadBack(w, ds, "changes", 0)
				if err != nil {
					fail(m, "%v", err)
				}
				if b[0] != before[ds] {
					m.Txn = true
					fail(m, "a rejected transaction (%s, HTTP %d) changed dataset %s:\nbefore=%.1500s\n after=%.1500s", m.Kind, code, ds, before[ds], b[0])
				}
			}
		}
	})
}

// ---- (c) corpus replay --------------------------------------------------------------

func c15CorpusRoots() (fuzzDir, regressDir string) {
	fuzzDir = os.Getenv("VERIF_C15_CORPUS")
	if fuzzDir == "" {
		fuzzDir = "/verif/harness/fuzz/testdata/fuzz"
	}
	regressDir = os.Getenv("VERIF_C15_REGRESS")
	if regressDir == "" {
		regressDir = "/verif/regress/C15"
	}
	return
}

type c15Input struct {
	Name string
	Txn  bool
	Data []byte
}

func c15LoadInputs(t *testing.T) []c15Input {
	var out []c15Input
	for _, s := range c15SeedsStream {
		out = append(out, c15Input{"const/" + s.Name, false, []byte(s.Data)})
	}
	for _, s := range c15SeedsTxn {
		out = append(out, c15Input{"const/" + s.Name, true, []byte(s.Data)})
		// a transaction document is also a hostile collection and vice versa
		out = append(out, c15Input{"const-as-stream/" + s.Name, false, []byte(s.Data)})
	}
	for _, s := range c15SeedsStream {
		out = append(out, c15Input{"const-as-txn/" + s.Name, true, []byte(s.Data)})
	}
	fuzzDir, regressDir := c15CorpusRoots()
	for _, root := range []string{fuzzDir, regressDir} {
		_ = filepath.Walk(root, func(p string, info os.FileInfo, err error) error {
			if err != nil || info.IsDir() {
				return nil
			}
			data, err := c15ReadCorpusFile(p)
			if err != nil {
				t.Fatalf("VERIF-INFRA unreadable corpus entry: %v", err)
			}
			rel, _ := filepath.Rel(root, p)
			lower := strings.ToLower(rel)
			txn := strings.Contains(lower, "transaction") || strings.HasPrefix(lower, "txn")
			out = append(out, c15Input{filepath.Base(root) + "/" + rel, txn, data})
			return nil
		})
	}
	return out
}

func TestVerif_C15_corpus(t *testing.T) {
	defer kit.S().Flush()
	defer kit.CleanupScratch()
	knownF16 := kit.Known("F16")
	shard, shards := kit.EnvInt("VERIF_SHARD", 0), kit.EnvInt("VERIF_SHARDS", 1)
	w := c15NewHub(t)
	defer w.Close()
	inputs := c15LoadInputs(t)
	files := 0
	for i, in := range inputs {
		if !strings.HasPrefix(in.Name, "const") {
			files++
		}
		if i%shards != shard {
			continue
		}
		desc := map[string]any{"input": in.Name, "txn": in.Txn, "data": string(in.Data)}
		if len(in.Data) > 2000 {
			desc["data"] = string(in.Data[:2000]) + "…"
		}
		kit.Journal(desc)
		cls := "corpus-stream"
		if in.Txn {
			cls = "corpus-txn"
		}
		if !c15InDomain(in.Data) {
			kit.S().Case(desc, false, cls, "corpus-out-of-domain")
			continue
		}
		if knownF16 && c15F16Shape(in.Data, in.Txn) {
			kit.S().Case(desc, true, cls)
			kit.S().Exclude("F16")
			continue
		}
		var v string
		var refOK bool
		if in.Txn {
			v, refOK, _ = c15OracleTxn(w.Store, in.Data)
		} else {
			v, refOK, _ = c15OracleStream(w.Store, in.Data)
		}
		if refOK {
			cls += "-accepted-by-reference"
		}
		kit.S().Case(desc, true, cls)
		if v != "" {
			c15Fail(t, desc, "saved input %s: %s", in.Name, v)
		}
	}
	kit.JournalDone()
	if shard == 0 {
		kit.S().AddExtra("corpus_files_replayed", files)
		kit.S().AddExtra("corpus_constants", len(inputs)-files)
	}
}

// F16 (probe): unchecked type assertions in the stream parser. Fails while a
// malformed payload makes ParseStream / ParseTransaction panic instead of
// returning an error.
func TestVerifProbe_F16(t *testing.T) {
	defer kit.CleanupScratch()
	w := c15NewHub(t)
	defer w.Close()
	ctx := `{"id":"@context","namespaces":{"x":"http://ex.org/a/"}}`
	// a context without "namespaces" may be read as an empty context: only "no panic" there
	if r := c15RunStream(w.Store, []byte(`[{"id":"@context"},{"id":"http://ex.org/a/e0"}]`)); r.Panic != "" {
		t.Errorf("ParseStream(context without namespaces): panic=%q", r.Panic)
	}
	stream := []string{
		`[{"id":"@context","namespaces":"x"},{"id":"http://ex.org/a/e0"}]`,
		`[{"id":"@context","namespaces":{"x":1}},{"id":"x:e0"}]`,
		`[` + ctx + `,{"id":"x:e0","deleted":"false","props":{},"refs":{}}]`,
		`[` + ctx + `,{"id":17}]`,
		`[` + ctx + `,{"id":"x:e0","recorded":"5"}]`,
	}
	if r := c15RunTxn(w.Store, []byte(`{"@context":{},"a":[]}`)); r.Panic != "" {
		t.Errorf("ParseTransaction(context without namespaces): panic=%q", r.Panic)
	}
	txn := []string{
		`{"@context":{"namespaces":7},"a":[]}`,
		`{"@context":{"namespaces":{"x":"http://ex.org/a/"}},"a":[{"id":"x:e0","deleted":"false"}]}`,
		`{"@context":{"namespaces":{"x":"http://ex.org/a/"}},"a":[{"id":"x:e0"}]`,
		`{"@context":{"namespaces":{"x":"http://ex.org/a/"}},"a":[[],5]}`,
	}
	bad := 0
	for _, p := range stream {
		r := c15RunStream(w.Store, []byte(p))
		if r.Panic != "" || r.Err == nil {
			t.Errorf("ParseStream(%s): panic=%q err=%v (want an error, no panic)", p, r.Panic, r.Err)
			bad++
		}
	}
	for _, p := range txn {
		r := c15RunTxn(w.Store, []byte(p))
		if r.Panic != "" || r.Err == nil {
			t.Errorf("ParseTransaction(%s): panic=%q err=%v (want an error, no panic)", p, r.Panic, r.Err)
			bad++
		}
	}
	if bad > 0 || t.Failed() {
		t.Fatalf("F16 present: %d malformed payloads are not answered with an error", bad)
	}
}
