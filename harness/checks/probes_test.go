package verifchecks

import (
	"testing"

	kit "github.com/mimiro-io/datahub/internal/verifkit"
)

// Deterministic probes: one minimal history per finding (known or fixed).
// A probe FAILS while the defect is present. The driver turns a failing probe
// of a "known" finding into a KNOWN-FINDING line and a failing probe of a
// "fixed" finding into a VIOLATION.

func probeGM(t *testing.T) *gm {
	g := newGMf(nil, t, []string{"a", "b", "c"}, kit.GenCfg{})
	t.Cleanup(func() { g.close(); kit.CleanupScratch() })
	return g
}

func ent(id string, props, refs map[string]any, deleted bool) *kit.Ent {
	if props == nil {
		props = map[string]any{}
	}
	if refs == nil {
		refs = map[string]any{}
	}
	return &kit.Ent{ID: id, Props: props, Refs: refs, Deleted: deleted}
}

// F01 (fixed): un-delete plus a property of 15 bytes has the same serialized
// length as the deleted version and was dropped.
func TestVerifProbe_F01(t *testing.T) {
	g := probeGM(t)
	a := g.h.P[0]
	g.applyBatch(Op{K: "batch", DS: "a", Via: "store", Ents: []*kit.Ent{ent(a+":e0", map[string]any{a + ":p0": 1}, nil, true)}})
	g.applyBatch(Op{K: "batch", DS: "a", Via: "store", Ents: []*kit.Ent{ent(a+":e0", map[string]any{a + ":p0": 1, a + ":p1": "xyz"}, nil, false)}})
	c01Oracle(g)
	c02Oracle(g)
}

// F02 (fixed): a brand-new entity twice in one batch gave two change entries.
func TestVerifProbe_F02(t *testing.T) {
	g := probeGM(t)
	a := g.h.P[0]
	e := ent(a+":e0", map[string]any{a + ":p0": "v"}, nil, false)
	g.applyBatch(Op{K: "batch", DS: "a", Via: "store", Ents: []*kit.Ent{e, e.Clone()}})
	c02Oracle(g)
	// stored X, batch [Y, Y]
	y := ent(a+":e0", map[string]any{a + ":p0": "w"}, nil, false)
	g.applyBatch(Op{K: "batch", DS: "a", Via: "parser", Ents: []*kit.Ent{y, y.Clone()}})
	c02Oracle(g)
}

// F03 (fixed): re-posting an entity that holds a nested entity created a new version each time.
func TestVerifProbe_F03(t *testing.T) {
	g := probeGM(t)
	a := g.h.P[0]
	nested := map[string]any{"id": a + ":n0", "props": map[string]any{a + ":p0": "x"}, "refs": map[string]any{}}
	e := ent(a+":e0", map[string]any{a + ":p1": nested}, nil, false)
	for i := 0; i < 3; i++ {
		g.applyBatch(Op{K: "batch", DS: "a", Via: "http", Ents: []*kit.Ent{e.Clone()}})
		c02Oracle(g)
	}
}

// F04 (known): incoming scan keeps one deleted flag per referencing entity but
// one result per predicate.
func TestVerifProbe_F04(t *testing.T) {
	g := probeGM(t)
	a := g.h.P[0]
	g.applyBatch(Op{K: "batch", DS: "a", Via: "store", Ents: []*kit.Ent{
		ent(a+":e1", nil, map[string]any{a + ":r1": a + ":e0"}, true),
		ent(a+":e1", nil, map[string]any{a + ":r0": a + ":e0"}, false),
	}})
	g.checkRelated(a+":e0", "*", true, nil, nil, false)
	// second shape: a predicate removed while another stays
	g.applyBatch(Op{K: "batch", DS: "b", Via: "store", Ents: []*kit.Ent{ent(a+":e2", nil, map[string]any{a + ":r0": a + ":e0", a + ":r1": a + ":e0"}, false)}})
	g.applyBatch(Op{K: "batch", DS: "b", Via: "store", Ents: []*kit.Ent{ent(a+":e2", nil, map[string]any{a + ":r1": a + ":e0"}, false)}})
	g.checkRelated(a+":e0", "*", true, []string{"b"}, nil, false)
}

// F04b (fixed): paged outgoing query returned a pair present in two datasets on two pages.
func TestVerifProbe_F04b(t *testing.T) {
	g := probeGM(t)
	a := g.h.P[0]
	for _, ds := range []string{"a", "b"} {
		g.applyBatch(Op{K: "batch", DS: ds, Via: "store", Ents: []*kit.Ent{ent(a+":e0", nil, map[string]any{a + ":r0": []any{a + ":e1", a + ":e2"}}, false)}})
	}
	g.checkRelated(a+":e0", "*", false, nil, []int{1}, false)
	g.checkRelated(a+":e0", "*", false, nil, []int{1}, true)
}

// F13 (fixed): transactions through a contextual store copy committed data
// before its ids and could leave the base store with a finished id transaction.
func TestVerifProbe_F13(t *testing.T) {
	g := probeGM(t)
	a := g.h.P[0]
	e0 := ent(a+":e0", nil, nil, false)
	g.applyBatch(Op{K: "batch", DS: "a", Via: "store", Ents: []*kit.Ent{e0}})
	// known entity, new reference target: no new item, id transaction left open
	g.applyTxn(Op{K: "txn", Ctx: true, Via: "ctx", Parts: map[string][]*kit.Ent{"a": {ent(a+":e0", nil, map[string]any{a + ":r0": a + ":zz"}, false)}}})
	g.checkRelated(a+":zz", "*", true, nil, nil, false)
	g.checkRelated(a+":e0", "*", false, nil, nil, false)
	g.applyTxn(Op{K: "txn", Ctx: true, Via: "ctx", Parts: map[string][]*kit.Ent{"a": {ent(a+":e0", nil, map[string]any{a + ":r0": a + ":yy"}, false)}}})
	g.applyBatch(Op{K: "batch", DS: "b", Via: "store", Ents: []*kit.Ent{ent(a+":e9", nil, nil, false)}})
	c01Oracle(g)
}
