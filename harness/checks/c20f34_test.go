package verifchecks

import (
	"fmt"
	"testing"
	"time"

	"pgregory.net/rapid"

	"github.com/mimiro-io/datahub/internal/server"
	kit "github.com/mimiro-io/datahub/internal/verifkit"
)

// F34 (known): the native backup is incremental - every run appends what was
// committed since the previous run - and a deletion reaches the backup file only
// as badger's deletion marker. Badger drops such markers when it compacts its
// lowest level (five tables in level 0 start that; every stop of the hub leaves
// one). A key deleted after a backup run whose marker is compacted away before
// the next run stays in the backup for good: the restored hub has the deleted
// dataset (its record is such a key) again.
func TestVerifProbe_F34(t *testing.T) {
	defer kit.CleanupScratch()
	rapid.Check(t, func(rt *rapid.T) {
		g := newGM(rt, []string{"a", "c"}, kit.GenCfg{NoNested: true})
		defer g.close()
		c := newC20(g, false)
		defer c.close()
		p := g.h.P[0]
		for i := 0; i < 5; i++ {
			g.applyBatch(Op{K: "batch", DS: "a", Via: "store", Ents: []*kit.Ent{ent(fmt.Sprintf("%s:e%d", p, i), map[string]any{p + ":p0": "x"}, nil, false)}})
			c.applyRestart()
		}
		c.applyBackup()
		g.applyDelete(Op{K: "delete", Name: "a", Via: "dsm"})
		c.applyRestart()
		// the sixth stop: badger compacts level 0 in the background; wait until it has (bounded)
		db := server.NewBadgerAccess(g.h.Store, g.h.Dsm).GetDB()
		for t0 := time.Now(); time.Since(t0) < 20*time.Second; time.Sleep(50 * time.Millisecond) {
			if l := db.Levels(); len(l) > 0 && l[0].NumTables == 0 {
				break
			}
		}
		c.applyBackup()
		c.noF34 = true
		c.applyRestore()
	})
}
