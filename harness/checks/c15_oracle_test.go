package verifchecks

// C15 in-target oracle, shared (this very file, through a symlink) by
//   - the in-process checks  /verif/harness/checks/c15_test.go   and
//   - the native fuzz module /verif/harness/fuzz  (FuzzParseStream, FuzzParseTransaction).
// It must therefore stay self-contained: standard library + datahub's server
// package only (no verifkit, no rapid).
//
// Oracle for arbitrary bytes (DESIGN C15 (c)):
//   1. the parser never panics;
//   2. if a STRICT reference decoder (encoding/json tokens + the schema below)
//      accepts the input, the parser accepts it too and produces the same
//      entities (compared after namespace expansion, i.e. as full URIs).
// Nothing is claimed about inputs the reference rejects, except "no panic":
// the real parser is deliberately more lenient in places (unknown keys, nulls).
//
// Input domain: len <= 1 MiB and nesting <= 10000 (the bound encoding/json puts
// on Unmarshal). Inputs outside are skipped, not judged.

import (
	"bytes"
	"encoding/json"
	"errors"
	"fmt"
	"io"
	"os"
	"sort"
	"strconv"
	"strings"

	"github.com/mimiro-io/datahub/internal/server"
)

const (
	c15MaxLen   = 1 << 20
	c15MaxDepth = 10000
)

// c15Full is an entity in comparison form: every identifier is a full URI.
// Nested entities inside Props are map[string]any{"id"?, "props", "refs", "deleted"?}.
type c15Full struct {
	ID      string         `json:"id"`
	Props   map[string]any `json:"props"`
	Refs    map[string]any `json:"refs"`
	Deleted bool           `json:"deleted,omitempty"`
}

func (f *c15Full) Key() string {
	if f == nil {
		return "<nil>"
	}
	g := *f
	if g.Props == nil {
		g.Props = map[string]any{}
	}
	if g.Refs == nil {
		g.Refs = map[string]any{}
	}
	b, err := json.Marshal(g)
	if err != nil {
		return "<unmarshalable: " + err.Error() + ">"
	}
	return string(b)
}

func c15Keys(fs []*c15Full) []string {
	out := make([]string, len(fs))
	for i, f := range fs {
		out[i] = f.Key()
	}
	return out
}

// ---- ordered JSON tree -------------------------------------------------------

type c15Node struct {
	Kind byte // 's' string, 'n' number, 'b' bool, 'z' null, 'a' array, 'o' object
	Str  string
	Num  float64
	Bool bool
	Arr  []*c15Node
	Keys []string
	Vals []*c15Node
}

func (n *c15Node) get(k string) *c15Node {
	for i, x := range n.Keys {
		if x == k {
			return n.Vals[i]
		}
	}
	return nil
}

func (n *c15Node) hasDupKeys() bool {
	seen := map[string]bool{}
	for _, k := range n.Keys {
		if seen[k] {
			return true
		}
		seen[k] = true
	}
	return false
}

// c15InDomain: size and nesting bound of the checked input domain.
func c15InDomain(data []byte) bool {
	if len(data) > c15MaxLen {
		return false
	}
	depth, inStr, esc := 0, false, false
	for _, c := range data {
		if inStr {
			switch {
			case esc:
				esc = false
			case c == '\\':
				esc = true
			case c == '"':
				inStr = false
			}
			continue
		}
		switch c {
		case '"':
			inStr = true
		case '[', '{':
			depth++
			if depth > c15MaxDepth {
				return false
			}
		case ']', '}':
			depth--
		}
	}
	return true
}

// c15ParseTree parses exactly one JSON value (nothing but white space after it).
func c15ParseTree(data []byte) (*c15Node, error) {
	if !json.Valid(data) {
		return nil, errors.New("not valid JSON")
	}
	dec := json.NewDecoder(bytes.NewReader(data))
	n, err := c15ReadNode(dec)
	if err != nil {
		return nil, err
	}
	if _, err := dec.Token(); err != io.EOF {
		return nil, errors.New("trailing data")
	}
	return n, nil
}

func c15ReadNode(dec *json.Decoder) (*c15Node, error) {
	t, err := dec.Token()
	if err != nil {
		return nil, err
	}
	switch v := t.(type) {
	case string:
		return &c15Node{Kind: 's', Str: v}, nil
	case float64:
		return &c15Node{Kind: 'n', Num: v}, nil
	case bool:
		return &c15Node{Kind: 'b', Bool: v}, nil
	case nil:
		return &c15Node{Kind: 'z'}, nil
	case json.Delim:
		switch v {
		case '[':
			n := &c15Node{Kind: 'a'}
			for dec.More() {
				c, err := c15ReadNode(dec)
				if err != nil {
					return nil, err
				}
				n.Arr = append(n.Arr, c)
			}
			if _, err := dec.Token(); err != nil {
				return nil, err
			}
			return n, nil
		case '{':
			n := &c15Node{Kind: 'o'}
			for dec.More() {
				kt, err := dec.Token()
				if err != nil {
					return nil, err
				}
				k, ok := kt.(string)
				if !ok {
					return nil, errors.New("non-string key")
				}
				c, err := c15ReadNode(dec)
				if err != nil {
					return nil, err
				}
				n.Keys = append(n.Keys, k)
				n.Vals = append(n.Vals, c)
			}
			if _, err := dec.Token(); err != nil {
				return nil, err
			}
			return n, nil
		}
	}
	return nil, fmt.Errorf("unexpected token %v", t)
}

// ---- strict reference decoder --------------------------------------------------

// c15Resolve is what an identifier denotes under a namespace context
// (DOCUMENTATION.md "Data Structures"; UDA: absolute URI, prefix:local, or
// local name in the default "_" namespace).
func c15Resolve(s string, ctx map[string]string) (string, bool) {
	if s == "" {
		return "", false
	}
	if strings.HasPrefix(s, "http://") || strings.HasPrefix(s, "https://") {
		return s, true
	}
	i := strings.Index(s, ":")
	if i < 0 {
		exp := ctx["_"]
		if exp == "" {
			return "", false
		}
		return exp + s, true
	}
	exp := ctx[s[:i]]
	if exp == "" {
		return "", false
	}
	return exp + s[i+1:], true
}

func c15RefNamespaces(n *c15Node) (map[string]string, bool) {
	if n == nil || n.Kind != 'o' || n.hasDupKeys() {
		return nil, false
	}
	ctx := map[string]string{}
	for i, k := range n.Keys {
		v := n.Vals[i]
		if v.Kind != 's' || v.Str == "" {
			return nil, false
		}
		ctx[k] = v.Str
	}
	return ctx, true
}

func c15OnlyKeys(n *c15Node, allowed ...string) bool {
	for _, k := range n.Keys {
		ok := false
		for _, a := range allowed {
			if k == a {
				ok = true
			}
		}
		if !ok {
			return false
		}
	}
	return true
}

// c15RefValue: property value. top = directly under props (where null is
// documented as "dropped"); returns (value, keep, ok).
func c15RefValue(n *c15Node, ctx map[string]string, top bool) (any, bool, bool) {
	switch n.Kind {
	case 's':
		return n.Str, true, true
	case 'n':
		return n.Num, true, true
	case 'b':
		return n.Bool, true, true
	case 'z':
		if top {
			return nil, false, true
		}
		return nil, false, false // null inside an array: no claim
	case 'a':
		out := make([]any, 0, len(n.Arr))
		for _, c := range n.Arr {
			v, _, ok := c15RefValue(c, ctx, false)
			if !ok {
				return nil, false, false
			}
			out = append(out, v)
		}
		return out, true, true
	case 'o':
		e, ok := c15RefEntity(n, ctx, true)
		if !ok {
			return nil, false, false
		}
		m := map[string]any{"props": e.Props, "refs": e.Refs}
		if e.ID != "" {
			m["id"] = e.ID
		}
		if e.Deleted {
			m["deleted"] = true
		}
		return m, true, true
	}
	return nil, false, false
}

func c15RefEntity(n *c15Node, ctx map[string]string, nested bool) (*c15Full, bool) {
	if n.Kind != 'o' || n.hasDupKeys() || !c15OnlyKeys(n, "id", "internalId", "recorded", "deleted", "props", "refs") {
		return nil, false
	}
	e := &c15Full{Props: map[string]any{}, Refs: map[string]any{}}
	if id := n.get("id"); id != nil {
		if id.Kind != 's' || id.Str == "@continuation" || id.Str == "@context" {
			return nil, false
		}
		full, ok := c15Resolve(id.Str, ctx)
		if !ok {
			return nil, false
		}
		e.ID = full
	} else if !nested {
		return nil, false
	}
	for _, k := range []string{"internalId", "recorded"} {
		if v := n.get(k); v != nil && (v.Kind != 'n' || v.Num < 0 || v.Num > 1.8e19 || v.Num != float64(uint64(v.Num))) {
			return nil, false
		}
	}
	if d := n.get("deleted"); d != nil {
		if d.Kind != 'b' {
			return nil, false
		}
		e.Deleted = d.Bool
	}
	if p := n.get("props"); p != nil {
		if p.Kind != 'o' || p.hasDupKeys() {
			return nil, false
		}
		for i, k := range p.Keys {
			fk, ok := c15Resolve(k, ctx)
			if !ok {
				return nil, false
			}
			if _, dup := e.Props[fk]; dup {
				return nil, false
			}
			v, keep, ok := c15RefValue(p.Vals[i], ctx, true)
			if !ok {
				return nil, false
			}
			if keep {
				e.Props[fk] = v
			} else {
				// a dropped null still occupies the key: a second spelling of
				// the same key would be ambiguous
				e.Props[fk] = nil
			}
		}
		for k, v := range e.Props {
			if v == nil {
				delete(e.Props, k)
			}
		}
	}
	if r := n.get("refs"); r != nil {
		if r.Kind != 'o' || r.hasDupKeys() {
			return nil, false
		}
		for i, k := range r.Keys {
			fk, ok := c15Resolve(k, ctx)
			if !ok {
				return nil, false
			}
			if _, dup := e.Refs[fk]; dup {
				return nil, false
			}
			v := r.Vals[i]
			switch v.Kind {
			case 's':
				full, ok := c15Resolve(v.Str, ctx)
				if !ok {
					return nil, false
				}
				e.Refs[fk] = full
			case 'a':
				arr := make([]any, 0, len(v.Arr))
				for _, m := range v.Arr {
					if m.Kind != 's' {
						return nil, false
					}
					full, ok := c15Resolve(m.Str, ctx)
					if !ok {
						return nil, false
					}
					arr = append(arr, full)
				}
				e.Refs[fk] = arr
			default:
				return nil, false
			}
		}
	}
	return e, true
}

// c15RefStream: the strict reference for an entity collection
// [context, entity..., continuation?]. ok=false means "no claim".
func c15RefStream(data []byte) ([]*c15Full, bool) {
	if !c15InDomain(data) {
		return nil, false
	}
	root, err := c15ParseTree(data)
	if err != nil || root.Kind != 'a' || len(root.Arr) == 0 {
		return nil, false
	}
	c := root.Arr[0]
	if c.Kind != 'o' || c.hasDupKeys() || len(c.Keys) != 2 || !c15OnlyKeys(c, "id", "namespaces") {
		return nil, false
	}
	if id := c.get("id"); id == nil || id.Kind != 's' || id.Str != "@context" {
		return nil, false
	}
	ctx, ok := c15RefNamespaces(c.get("namespaces"))
	if !ok {
		return nil, false
	}
	var out []*c15Full
	for i, n := range root.Arr[1:] {
		if n.Kind == 'o' && len(n.Keys) == 2 && n.Keys[0] == "id" && n.Keys[1] == "token" &&
			n.Vals[0].Kind == 's' && n.Vals[0].Str == "@continuation" && n.Vals[1].Kind == 's' {
			if i != len(root.Arr)-2 {
				return nil, false
			}
			out = append(out, &c15Full{ID: "@continuation", Props: map[string]any{"token": n.Vals[1].Str}, Refs: map[string]any{}})
			continue
		}
		e, ok := c15RefEntity(n, ctx, false)
		if !ok {
			return nil, false
		}
		out = append(out, e)
	}
	return out, true
}

// c15RefTxn: strict reference for {"@context": {"namespaces": {...}}, "<dataset>": [entity...], ...}.
func c15RefTxn(data []byte) (map[string][]*c15Full, bool) {
	if !c15InDomain(data) {
		return nil, false
	}
	root, err := c15ParseTree(data)
	if err != nil || root.Kind != 'o' || root.hasDupKeys() || len(root.Keys) == 0 || root.Keys[0] != "@context" {
		return nil, false
	}
	c := root.Vals[0]
	if c.Kind != 'o' || c.hasDupKeys() || !c15OnlyKeys(c, "id", "namespaces") || c.get("namespaces") == nil {
		return nil, false
	}
	if id := c.get("id"); id != nil && (id.Kind != 's' || id.Str != "@context") {
		return nil, false
	}
	ctx, ok := c15RefNamespaces(c.get("namespaces"))
	if !ok {
		return nil, false
	}
	out := map[string][]*c15Full{}
	for i, ds := range root.Keys[1:] {
		v := root.Vals[i+1]
		if ds == "" || v.Kind != 'a' {
			return nil, false
		}
		ents := []*c15Full{}
		for _, n := range v.Arr {
			e, ok := c15RefEntity(n, ctx, false)
			if !ok {
				return nil, false
			}
			ents = append(ents, e)
		}
		out[ds] = ents
	}
	return out, true
}

// ---- what the parser produced, in comparison form --------------------------------

func c15ExpandStore(store *server.Store, curie string) (string, error) {
	return store.ExpandCurie(curie)
}

func c15FromValue(store *server.Store, v any) (any, error) {
	switch x := v.(type) {
	case nil, string, float64, bool:
		return x, nil
	case int:
		return float64(x), nil
	case []interface{}:
		out := make([]any, len(x))
		for i, c := range x {
			cv, err := c15FromValue(store, c)
			if err != nil {
				return nil, err
			}
			out[i] = cv
		}
		return out, nil
	case *server.Entity:
		f, err := c15FromEntity(store, x, true)
		if err != nil {
			return nil, err
		}
		m := map[string]any{"props": f.Props, "refs": f.Refs}
		if f.ID != "" {
			m["id"] = f.ID
		}
		if f.Deleted {
			m["deleted"] = true
		}
		return m, nil
	}
	return nil, fmt.Errorf("parser produced a value of type %T", v)
}

// c15FromEntity expands a parsed entity with the store's namespace table.
func c15FromEntity(store *server.Store, e *server.Entity, nested bool) (*c15Full, error) {
	if e == nil {
		return nil, errors.New("nil entity")
	}
	f := &c15Full{Props: map[string]any{}, Refs: map[string]any{}, Deleted: e.IsDeleted}
	if e.ID == "@continuation" && !nested {
		f.ID = e.ID
		for k, v := range e.Properties {
			f.Props[k] = v
		}
		return f, nil
	}
	if e.ID != "" {
		id, err := c15ExpandStore(store, e.ID)
		if err != nil {
			return nil, fmt.Errorf("id %q: %v", e.ID, err)
		}
		f.ID = id
	} else if !nested {
		return nil, errors.New("entity without id")
	}
	for k, v := range e.Properties {
		fk, err := c15ExpandStore(store, k)
		if err != nil {
			return nil, fmt.Errorf("property key %q: %v", k, err)
		}
		fv, err := c15FromValue(store, v)
		if err != nil {
			return nil, err
		}
		f.Props[fk] = fv
	}
	for k, v := range e.References {
		fk, err := c15ExpandStore(store, k)
		if err != nil {
			return nil, fmt.Errorf("reference key %q: %v", k, err)
		}
		switch x := v.(type) {
		case string:
			fv, err := c15ExpandStore(store, x)
			if err != nil {
				return nil, fmt.Errorf("reference %q: %v", x, err)
			}
			f.Refs[fk] = fv
		case []string:
			arr := make([]any, len(x))
			for i, s := range x {
				fv, err := c15ExpandStore(store, s)
				if err != nil {
					return nil, fmt.Errorf("reference %q: %v", s, err)
				}
				arr[i] = fv
			}
			f.Refs[fk] = arr
		case []interface{}:
			arr := make([]any, len(x))
			for i, s := range x {
				str, ok := s.(string)
				if !ok {
					return nil, fmt.Errorf("reference array member of type %T", s)
				}
				fv, err := c15ExpandStore(store, str)
				if err != nil {
					return nil, fmt.Errorf("reference %q: %v", str, err)
				}
				arr[i] = fv
			}
			f.Refs[fk] = arr
		default:
			return nil, fmt.Errorf("reference value of type %T", v)
		}
	}
	return f, nil
}

// ---- running the parser -----------------------------------------------------------

type c15Run struct {
	Panic   string // non-empty: the parser panicked (value + where)
	Err     error  // parser's error
	Emitted []*c15Full
	ConvErr error // emitted entity could not be expanded
	Txn     map[string][]*c15Full
}

func c15PanicString(r any) string {
	return fmt.Sprintf("%v", r)
}

// c15RunStream calls ParseStream the way its callers without a recover do
// (HTTPDatasetSource, ProxyDataset), catching a panic for the report.
func c15RunStream(store *server.Store, data []byte) (res c15Run) {
	defer func() {
		if r := recover(); r != nil {
			res.Panic = c15PanicString(r)
		}
	}()
	p := server.NewEntityStreamParser(store)
	res.Err = p.ParseStream(bytes.NewReader(data), func(e *server.Entity) error {
		f, err := c15FromEntity(store, e, false)
		if err != nil && res.ConvErr == nil {
			res.ConvErr = err
		}
		res.Emitted = append(res.Emitted, f)
		return nil
	})
	return res
}

func c15RunTxn(store *server.Store, data []byte) (res c15Run) {
	defer func() {
		if r := recover(); r != nil {
			res.Panic = c15PanicString(r)
		}
	}()
	p := server.NewEntityStreamParser(store)
	txn, err := p.ParseTransaction(bytes.NewReader(data))
	res.Err = err
	if err == nil && txn != nil {
		res.Txn = map[string][]*c15Full{}
		for ds, es := range txn.DatasetEntities {
			fs := []*c15Full{}
			for _, e := range es {
				f, err := c15FromEntity(store, e, false)
				if err != nil && res.ConvErr == nil {
					res.ConvErr = err
				}
				fs = append(fs, f)
			}
			res.Txn[ds] = fs
		}
	}
	return res
}

func c15SameList(got, want []*c15Full) string {
	if len(got) != len(want) {
		return fmt.Sprintf("%d entities, want %d\n got=%v\nwant=%v", len(got), len(want), c15Keys(got), c15Keys(want))
	}
	for i := range want {
		if got[i].Key() != want[i].Key() {
			return fmt.Sprintf("entity %d differs\n got=%s\nwant=%s", i, got[i].Key(), want[i].Key())
		}
	}
	return ""
}

// c15OracleStream is the in-target oracle for arbitrary bytes. It returns a
// non-empty violation text, and whether the strict reference accepted the input.
func c15OracleStream(store *server.Store, data []byte) (violation string, refOK bool, run c15Run) {
	if !c15InDomain(data) {
		return "", false, run
	}
	want, refOK := c15RefStream(data)
	run = c15RunStream(store, data)
	if run.Panic != "" {
		return "ParseStream panicked: " + run.Panic, refOK, run
	}
	if !refOK {
		return "", false, run
	}
	if run.Err != nil {
		return "strict reference accepts the payload but ParseStream rejects it: " + run.Err.Error(), true, run
	}
	if run.ConvErr != nil {
		return "ParseStream emitted an entity that cannot be expanded: " + run.ConvErr.Error(), true, run
	}
	if d := c15SameList(run.Emitted, want); d != "" {
		return "ParseStream entities differ from what the payload denotes: " + d, true, run
	}
	return "", true, run
}

func c15OracleTxn(store *server.Store, data []byte) (violation string, refOK bool, run c15Run) {
	if !c15InDomain(data) {
		return "", false, run
	}
	want, refOK := c15RefTxn(data)
	run = c15RunTxn(store, data)
	if run.Panic != "" {
		return "ParseTransaction panicked: " + run.Panic, refOK, run
	}
	if !refOK {
		return "", false, run
	}
	if run.Err != nil {
		return "strict reference accepts the transaction but ParseTransaction rejects it: " + run.Err.Error(), true, run
	}
	if run.ConvErr != nil {
		return "ParseTransaction produced an entity that cannot be expanded: " + run.ConvErr.Error(), true, run
	}
	if len(run.Txn) != len(want) {
		return fmt.Sprintf("ParseTransaction has %d datasets, want %d", len(run.Txn), len(want)), true, run
	}
	names := make([]string, 0, len(want))
	for ds := range want {
		names = append(names, ds)
	}
	sort.Strings(names)
	for _, ds := range names {
		got, ok := run.Txn[ds]
		if !ok {
			return "ParseTransaction lost dataset " + ds, true, run
		}
		if d := c15SameList(got, want[ds]); d != "" {
			return "dataset " + ds + ": " + d, true, run
		}
	}
	return "", true, run
}

// ---- input shape of finding F16 -----------------------------------------------------

// c15F16Shape describes, over the INPUT only, the payloads that reach one of
// the parser's unchecked type assertions (finding F16): somewhere a key "id" /
// "deleted" / "recorded" carries a value of another JSON type than string /
// bool / number; the context has no "namespaces" object of strings; or (a
// transaction) the document ends or is malformed at the top level after its
// context, or a dataset member is not a flat array of objects.
func c15F16Shape(data []byte, txn bool) bool {
	type frame struct {
		obj       bool
		expectKey bool
		key       string
	}
	dec := json.NewDecoder(bytes.NewReader(data))
	var st []frame
	topMembers := 0
	wrong := func(key string, kind byte) bool {
		switch key {
		case "id":
			return kind != 's'
		case "deleted":
			return kind != 'b'
		case "recorded":
			return kind != 'n'
		}
		return false
	}
	value := func(kind byte) bool { // a value token/opening was read in the current frame
		if len(st) == 0 {
			return false
		}
		f := &st[len(st)-1]
		if f.obj {
			bad := wrong(f.key, kind)
			f.expectKey = true
			if txn && len(st) == 1 {
				topMembers++
				if topMembers > 1 && kind != 'a' {
					return true
				}
			}
			return bad
		}
		if txn && len(st) == 2 && st[0].obj && topMembers > 1 && kind != 'o' {
			return true // dataset array with a non-object member
		}
		return false
	}
	for {
		t, err := dec.Token()
		if err != nil {
			if txn && len(st) == 1 && st[0].obj && st[0].expectKey && topMembers >= 1 {
				return true // ends / breaks where a dataset name or '}' is expected
			}
			break
		}
		switch v := t.(type) {
		case json.Delim:
			switch v {
			case '{', '[':
				kind := byte('o')
				if v == '[' {
					kind = 'a'
				}
				if value(kind) {
					return true
				}
				st = append(st, frame{obj: v == '{', expectKey: v == '{'})
			default:
				if len(st) > 0 {
					st = st[:len(st)-1]
				}
			}
		case string:
			if len(st) > 0 && st[len(st)-1].obj && st[len(st)-1].expectKey {
				st[len(st)-1].key = v
				st[len(st)-1].expectKey = false
			} else if value('s') {
				return true
			}
		case float64:
			if value('n') {
				return true
			}
		case bool:
			if value('b') {
				return true
			}
		case nil:
			if value('z') {
				return true
			}
		}
	}
	// context checks, mirroring how the document is laid out
	dec = json.NewDecoder(bytes.NewReader(data))
	if _, err := dec.Token(); err != nil {
		return false
	}
	if txn {
		if _, err := dec.Token(); err != nil {
			return false
		}
	}
	ctx := map[string]any{}
	if err := dec.Decode(&ctx); err != nil {
		return false
	}
	if !txn && ctx["id"] != "@context" {
		return false
	}
	ns, ok := ctx["namespaces"].(map[string]any)
	if !ok {
		return true
	}
	for _, v := range ns {
		if _, ok := v.(string); !ok {
			return true
		}
	}
	return false
}

// ---- corpus ------------------------------------------------------------------------

type c15Seed struct {
	Name string
	Data string
}

const c15Ctx = `{"id":"@context","namespaces":{"_":"http://data.mimiro.io/core/","people":"http://data.mimiro.io/people/","x":"http://ex.org/a/","y":"http://ex.org/b#"}}`

// c15SeedsStream: the repository's own test payloads (streamparser_test.go),
// the user guide examples (DOCUMENTATION.md "Data Structures", including
// "deleted": "false"), serialised hub output, and hostile constants.
var c15SeedsStream = []c15Seed{
	{"repo-context-data-continuation", `[ { "id" : "@context", "namespaces" : { "mimiro-people" : "http://data.mimiro.io/people/", "_" : "http://data.mimiro.io/core/" } }, { "id" : "mimiro-people:homer", "props" : { "Name" : "Homer Simpson" }, "refs" : { "friends" : [ "mimiro-people:jon" , "mimiro-people:james"] } }, { "id" : "@continuation", "token" : "next-20" } ]`},
	{"repo-empty-id", ` [ { "id" : "@context", "namespaces" : { "mimiro-people" : "http://data.mimiro.io/people/", "_" : "http://data.mimiro.io/core/" } }, { "id" : "", "props" : { "Name" : "Homer Simpson" }, "refs" : { "friends" : [ "mimiro-people:jon" ] } }, { "id" : "@continuation", "token" : "next-20" }]`},
	{"repo-missing-default-ns", `[ { "id" : "@context", "namespaces" : { "mimiro" : "http://data.mimiro.io/core/", "mimiro-people" : "http://data.mimiro.io/people/" } }, { "id" : "mimiro:23", "props" : { "Name" : "Homer Simpson" }, "refs" : { "friends" : [ "mimiro-people:jon" ] } } ]`},
	{"repo-missing-expansion", ` [ { "id" : "@context", "namespaces" : { "mimiro" : "http://data.mimiro.io/core/" } }, { "id" : "woddle:23", "props" : { }, "refs" : { } } ]`},
	{"repo-empty-props-refs", ` [ { "id" : "@context", "namespaces" : { "mimiro" : "http://data.mimiro.io/core/", "mimiro-people" : "http://data.mimiro.io/people/" } }, { "id" : "mimiro-people:23", "props" : { } }, { "id" : "mimiro-people:24", "refs" : { } }, { "id" : "mimiro-people:25" }, { "id" : "mimiro-people:26", "refs" : { }, "props" : { } }, { "id" : "@continuation", "token" : "next-20" } ]`},
	{"repo-nested", ` [ { "id" : "@context", "namespaces" : { "_" : "http://data.mimiro.io/core/", "people" : "http://data.mimiro.io/people/" } }, { "id" : "people:23", "props" : { "address" : { "props" : { "line1" : "earth" } } } } ]`},
	{"repo-nested-with-id", ` [ { "id" : "@context", "namespaces" : { "_" : "http://data.mimiro.io/core/", "people" : "http://data.mimiro.io/people/", "addresses" : "http://data.mimiro.io/addresses/" } }, { "id" : "people:23", "props" : { "address" : { "id" : "addresses:44", "props" : { "line1" : "earth" } } } } ]`},
	{"repo-keys-outside-props", ` [ { "id" : "@context", "namespaces" : { "_" : "http://data.mimiro.io/core/", "people" : "http://data.mimiro.io/people/", "addresses" : "http://data.mimiro.io/addresses/" } }, { "id" : "people:23", "props" : { "address" : { "id" : "addresses:44", "line1" : "earth" } } } ]`},
	{"repo-incomplete-array", ` [ { "id" : "@context", "namespaces" : { "_" : "http://data.mimiro.io/core/", "people" : "http://data.mimiro.io/people/" } }, { "id" : "people:23", "props" : { }, "refs" : { } } `},
	{"guide-deleted-string", `[ { "id": "@context", "namespaces": { "schema": "http://data.mimiro.io/schema/", "rdf": "http://www.w3.org/1999/02/22-rdf-syntax-ns#", "person": "http://data.mimiro.io/schema/person/", "people": "http://data.mimiro.io/people/", "companies": "http://data.mimiro.io/companies/" } }, { "id": "people:homer", "deleted": "false", "props": { "person:fullname": "Homer Simpson" }, "refs": { "person:worksfor": "companies:mimiro", "rdf:type": "schema:person" } } ]`},
	{"guide-people-json", `[ { "id": "@context", "namespaces": { "schema": "http://data.mimiro.io/schema/", "rdf": "http://www.w3.org/1999/02/22-rdf-syntax-ns#", "person": "http://data.mimiro.io/schema/person/", "people": "http://data.mimiro.io/people/", "companies": "http://data.mimiro.io/companies/" } }, { "id": "people:homer", "props": { "person:fullname": "Homer Simpson" }, "refs": { "person:worksfor": "companies:mimiro", "rdf:type": "schema:person" } } ]`},
	{"guide-absolute-uris", `[ { "id": "@context", "namespaces": {} }, { "id": "http://data.mimiro.io/people/homer", "deleted": false, "props": { "http://data.mimiro.io/schema/person/fullname": "homer simpson" }, "refs": { "http://data.mimiro.io/schema/person/worksfor": "http://data.mimiro.io/companies/mimiro", "http://www.w3.org/1999/02/22-rdf-syntax-ns#type": "http://data.mimiro.io/schema/person" } } ]`},
	{"hub-output", `[{"id":"@context","namespaces":{"ns0":"http://data.mimiro.io/core/dataset/","ns1":"http://data.mimiro.io/core/","ns2":"http://www.w3.org/1999/02/22-rdf-syntax-ns#","ns3":"http://ex.org/a/"}},{"refs":{"ns3:r0":["ns3:e1","ns3:e2"]},"props":{"ns3:p0":[1,"a",[true],{"refs":{},"props":{"ns3:p1":"v"},"id":"ns3:n0"}],"ns3:p1":1e+21},"id":"ns3:e0","internalId":12,"recorded":1696430000000000000,"deleted":true}, {"id":"@continuation","token":"MTI="}]`},
	{"all-value-shapes", `[` + c15Ctx + `,{"id":"x:e0","recorded":5,"deleted":false,"props":{"p":"s","x:q":-1.5e3,"y:r":true,"n":null,"http://ex.org/a/arr":[[],[1,[2,["x"]]],{"id":"y:n","props":{"k":{"props":{"kk":[{"props":{}}]}}},"refs":{"r":"x:t"},"deleted":true}],"https://ex.org/c/e":""},"refs":{"r":"e1","x:s":[],"y:t":["x:a","x:a","http://ex.org/z#q"]}},{"id":"e1"},{"id":"_:e2","refs":{},"props":{}}]`},
	{"only-context", `[` + c15Ctx + `]`},
	// hostile constants: wrong JSON types
	{"ctx-no-namespaces", `[{"id":"@context"},{"id":"http://ex.org/a/e0","props":{},"refs":{}}]`},
	{"ctx-namespaces-null", `[{"id":"@context","namespaces":null}]`},
	{"ctx-namespaces-string", `[{"id":"@context","namespaces":"x"},{"id":"x:e0"}]`},
	{"ctx-namespaces-array", `[{"id":"@context","namespaces":["x","http://ex.org/a/"]}]`},
	{"ctx-namespaces-number", `[{"id":"@context","namespaces":7}]`},
	{"ctx-namespace-member-number", `[{"id":"@context","namespaces":{"x":1}},{"id":"x:e0"}]`},
	{"ctx-namespace-member-null", `[{"id":"@context","namespaces":{"x":null}}]`},
	{"ctx-namespace-member-object", `[{"id":"@context","namespaces":{"x":{"y":"http://ex.org/"}}}]`},
	{"ctx-id-number", `[{"id":1,"namespaces":{}}]`},
	{"ctx-null", `[null,{"id":"x:e0"}]`},
	{"ctx-array", `[[],{"id":"x:e0"}]`},
	{"ctx-missing", `[{"id":"http://ex.org/a/e0","props":{},"refs":{}}]`},
	{"ctx-second", `[{"id":"http://ex.org/a/e0","props":{},"refs":{}},` + c15Ctx + `]`},
	{"empty-array", `[]`},
	{"id-number", `[` + c15Ctx + `,{"id":"x:e0"},{"id":17,"props":{},"refs":{}}]`},
	{"id-bool", `[` + c15Ctx + `,{"id":true}]`},
	{"id-null", `[` + c15Ctx + `,{"id":null,"props":{}}]`},
	{"id-object", `[` + c15Ctx + `,{"id":{"id":"x:e0"},"props":{}}]`},
	{"id-array", `[` + c15Ctx + `,{"id":["x:e0"],"props":{}}]`},
	{"nested-id-number", `[` + c15Ctx + `,{"id":"x:e0","props":{"p":{"id":5,"props":{}}}}]`},
	{"deleted-string-true", `[` + c15Ctx + `,{"id":"x:e0","deleted":"true"}]`},
	{"deleted-number", `[` + c15Ctx + `,{"id":"x:e0","deleted":1}]`},
	{"deleted-null", `[` + c15Ctx + `,{"id":"x:e0","deleted":null}]`},
	{"deleted-object", `[` + c15Ctx + `,{"id":"x:e0","deleted":{}}]`},
	{"recorded-string", `[` + c15Ctx + `,{"id":"x:e0","recorded":"1696430000"}]`},
	{"recorded-bool", `[` + c15Ctx + `,{"id":"x:e0","recorded":false}]`},
	{"recorded-null", `[` + c15Ctx + `,{"id":"x:e0","recorded":null}]`},
	{"recorded-array", `[` + c15Ctx + `,{"id":"x:e0","recorded":[1]}]`},
	{"recorded-negative", `[` + c15Ctx + `,{"id":"x:e0","recorded":-1}]`},
	{"recorded-huge", `[` + c15Ctx + `,{"id":"x:e0","recorded":1e300}]`},
	{"ref-number", `[` + c15Ctx + `,{"id":"x:e0","refs":{"r":5}}]`},
	{"ref-bool", `[` + c15Ctx + `,{"id":"x:e0","refs":{"r":false}}]`},
	{"ref-null", `[` + c15Ctx + `,{"id":"x:e0","refs":{"r":null}}]`},
	{"ref-object", `[` + c15Ctx + `,{"id":"x:e0","refs":{"r":{"id":"x:e1"}}}]`},
	{"ref-member-number", `[` + c15Ctx + `,{"id":"x:e0","refs":{"r":["x:e1",5]}}]`},
	{"ref-member-null", `[` + c15Ctx + `,{"id":"x:e0","refs":{"r":[null]}}]`},
	{"ref-member-array", `[` + c15Ctx + `,{"id":"x:e0","refs":{"r":[["x:e1"]]}}]`},
	{"ref-empty-string", `[` + c15Ctx + `,{"id":"x:e0","refs":{"r":""}}]`},
	{"refs-array", `[` + c15Ctx + `,{"id":"x:e0","refs":["x:e1"]}]`},
	{"refs-string", `[` + c15Ctx + `,{"id":"x:e0","refs":"x:e1","props":{}}]`},
	{"props-string", `[` + c15Ctx + `,{"id":"x:e0","props":"x","refs":{}}]`},
	{"props-null", `[` + c15Ctx + `,{"id":"x:e0","props":null,"refs":null}]`},
	{"prop-null-in-array", `[` + c15Ctx + `,{"id":"x:e0","props":{"p":[null]}}]`},
	{"unknown-key-object", `[` + c15Ctx + `,{"id":"x:e0","extra":{"deleted":"x"}}]`},
	{"token-no-continuation", `[` + c15Ctx + `,{"token":"t","id":"@continuation"}]`},
	{"continuation-token-number", `[` + c15Ctx + `,{"id":"@continuation","token":5}]`},
	{"entity-number", `[` + c15Ctx + `,5]`},
	{"entity-string", `[` + c15Ctx + `,"x:e0"]`},
	{"entity-nested-array", `[` + c15Ctx + `,[{"id":"x:e0"}]]`},
	{"top-object", `{"id":"x:e0"}`},
	{"top-string", `"x"`},
	{"empty", ``},
	{"whitespace", "  \n\t"},
	{"nul-bytes", "\x00\x00"},
	{"trailing-garbage", `[` + c15Ctx + `,{"id":"x:e0"}]]`},
	{"trailing-entity", `[` + c15Ctx + `]{"id":1}`},
	{"dup-keys", `[` + c15Ctx + `,{"id":"x:e0","id":"x:e1","props":{"a":1,"a":2}}]`},
	{"number-overflow", `[` + c15Ctx + `,{"id":"x:e0","props":{"p":1e999}}]`},
	{"bad-escape", `[` + c15Ctx + `,{"id":"x:e0","props":{"p":"\ud800"}}]`},
	{"invalid-utf8", "[" + c15Ctx + ",{\"id\":\"x:e0\",\"props\":{\"p\":\"\xff\xfe\"}}]"},
	// truncations
	{"trunc-after-bracket", `[`},
	{"trunc-in-context", `[{"id":"@context","namespaces":{"x":"http://ex`},
	{"trunc-after-context", `[` + c15Ctx},
	{"trunc-after-comma", `[` + c15Ctx + `,`},
	{"trunc-in-id", `[` + c15Ctx + `,{"id":"x:e`},
	{"trunc-after-id-key", `[` + c15Ctx + `,{"id":`},
	{"trunc-after-deleted-key", `[` + c15Ctx + `,{"id":"x:e0","deleted":`},
	{"trunc-in-props", `[` + c15Ctx + `,{"id":"x:e0","props":{"p":[1,{"props":{`},
	{"trunc-in-refs", `[` + c15Ctx + `,{"id":"x:e0","refs":{"r":["x:e1"`},
	{"trunc-after-entity", `[` + c15Ctx + `,{"id":"x:e0"}`},
	{"deep-nesting", `[` + c15Ctx + `,{"id":"x:e0","props":{"p":` + strings.Repeat("[", 3000) + strings.Repeat("]", 3000) + `}}]`},
	{"deep-nesting-unclosed", `[` + c15Ctx + `,{"id":"x:e0","props":{"p":` + strings.Repeat("[", 5000)},
	{"deep-entities", `[` + c15Ctx + `,{"id":"x:e0","props":{"p":` + strings.Repeat(`{"props":{"p":`, 1000) + `1` + strings.Repeat(`}}`, 1000) + `}}]`},
}

const c15TxnCtx = `"@context":{"namespaces":{"_":"http://data.mimiro.io/core/","mimiro-people":"http://data.mimiro.io/people/","x":"http://ex.org/a/"}}`

var c15SeedsTxn = []c15Seed{
	{"repo-txn-entities", `{ "@context" : { "namespaces" : { "mimiro-people" : "http://data.mimiro.io/people/", "_" : "http://data.mimiro.io/core/" } }, "people" : [ { "id" : "http://data.mimiro.io/people/12345000" }, { "id" : "http://data.mimiro.io/people/12345999" } ] }`},
	{"repo-txn-empty-array", `{ "@context" : { "namespaces" : { "mimiro-people" : "http://data.mimiro.io/people/", "_" : "http://data.mimiro.io/core/" } }, "people" : [] }`},
	{"repo-txn-no-context", `{ "people" : [ { "id" : "http://data.mimiro.io/people/12345" } ] }`},
	{"repo-txn-only-context", `{ "@context" : { "namespaces" : { "mimiro-people" : "http://data.mimiro.io/people/", "_" : "http://data.mimiro.io/core/" } } }`},
	{"txn-two-datasets", `{` + c15TxnCtx + `,"a":[{"id":"x:e0","props":{"p":[1,{"id":"x:n","props":{"q":"v"},"refs":{}}],"n":null},"refs":{"r":["x:e1","e2"]},"deleted":true}],"b":[{"id":"e0","recorded":1},{"id":"mimiro-people:homer","deleted":false}]}`},
	{"txn-deleted-string", `{` + c15TxnCtx + `,"a":[{"id":"x:e0","deleted":"false"}]}`},
	{"txn-id-number", `{` + c15TxnCtx + `,"a":[{"id":"x:e0"},{"id":5}]}`},
	{"txn-recorded-string", `{` + c15TxnCtx + `,"a":[{"id":"x:e0","recorded":"5"}]}`},
	{"txn-ref-number", `{` + c15TxnCtx + `,"a":[{"id":"x:e0","refs":{"r":1}}]}`},
	{"txn-ref-member-bool", `{` + c15TxnCtx + `,"a":[{"id":"x:e0","refs":{"r":["x:e1",true]}}]}`},
	{"txn-ctx-no-namespaces", `{"@context":{},"a":[]}`},
	{"txn-ctx-namespaces-string", `{"@context":{"namespaces":"x"},"a":[]}`},
	{"txn-ctx-namespaces-null", `{"@context":{"namespaces":null}}`},
	{"txn-ctx-member-number", `{"@context":{"namespaces":{"x":1}},"a":[]}`},
	{"txn-ctx-null", `{"@context":null,"a":[]}`},
	{"txn-ctx-string", `{"@context":"x","a":[]}`},
	{"txn-dataset-object", `{` + c15TxnCtx + `,"a":{"id":"x:e0"}}`},
	{"txn-dataset-number", `{` + c15TxnCtx + `,"a":5}`},
	{"txn-dataset-nested-array", `{` + c15TxnCtx + `,"a":[[],5]}`},
	{"txn-dataset-scalars", `{` + c15TxnCtx + `,"a":[1,"x",null,{"id":"x:e0"}]}`},
	{"txn-empty-object", `{}`},
	{"txn-array", `[` + c15Ctx + `]`},
	{"txn-empty", ``},
	{"txn-trunc-brace", `{`},
	{"txn-trunc-key", `{"@context"`},
	{"txn-trunc-in-context", `{"@context":{"namespaces":{"x":"http://ex.org/a/"`},
	{"txn-trunc-after-context", `{` + c15TxnCtx},
	{"txn-trunc-after-comma", `{` + c15TxnCtx + `,`},
	{"txn-trunc-in-name", `{` + c15TxnCtx + `,"a`},
	{"txn-trunc-after-name", `{` + c15TxnCtx + `,"a"`},
	{"txn-trunc-after-colon", `{` + c15TxnCtx + `,"a":`},
	{"txn-trunc-in-array", `{` + c15TxnCtx + `,"a":[{"id":"x:e0"}`},
	{"txn-trunc-in-entity", `{` + c15TxnCtx + `,"a":[{"id":"x:e0","props":{"p":`},
	{"txn-trunc-after-array", `{` + c15TxnCtx + `,"a":[{"id":"x:e0"}]`},
	{"txn-trailing", `{` + c15TxnCtx + `,"a":[]}}`},
	{"txn-dup-dataset", `{` + c15TxnCtx + `,"a":[{"id":"x:e0"}],"a":[{"id":"x:e1"}]}`},
}

// c15ReadCorpusFile reads a saved input: either the native fuzzing format
// ("go test fuzz v1" + one []byte("...") line) or a raw file.
func c15ReadCorpusFile(path string) ([]byte, error) {
	b, err := os.ReadFile(path)
	if err != nil {
		return nil, err
	}
	const hdr = "go test fuzz v1\n"
	if !bytes.HasPrefix(b, []byte(hdr)) {
		return b, nil
	}
	line := strings.TrimSpace(string(b[len(hdr):]))
	if !strings.HasPrefix(line, "[]byte(") || !strings.HasSuffix(line, ")") {
		return nil, fmt.Errorf("%s: unsupported corpus entry %.40q", path, line)
	}
	s, err := strconv.Unquote(line[len("[]byte(") : len(line)-1])
	if err != nil {
		return nil, fmt.Errorf("%s: %v", path, err)
	}
	return []byte(s), nil
}

func c15WriteCorpusFile(path string, data []byte) error {
	return os.WriteFile(path, []byte("go test fuzz v1\n[]byte("+strconv.Quote(string(data))+")\n"), 0o644)
}
