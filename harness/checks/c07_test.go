package verifchecks

import (
	"reflect"
	"testing"

	"pgregory.net/rapid"

	kit "github.com/mimiro-io/datahub/internal/verifkit"

	"github.com/mimiro-io/datahub/internal/server"
)

var mgmtPool = []string{"a", "b", "c", "d"}

// names of proxy / virtual datasets (catalogue only, never part of a data operation)
var specialPool = []string{"px", "vx"}

// mgmtActions are the dataset-management actions shared by C07, C19 and C14.
func (g *gm) mgmtActions(withGC, withRestart bool) map[string]func(*rapid.T) {
	notLive := func() []string {
		var out []string
		for _, n := range mgmtPool {
			if g.m.DS[n] == nil {
				out = append(out, n)
			}
		}
		return out
	}
	via := func(t *rapid.T) string { return rapid.SampledFrom([]string{"dsm", "http"}).Draw(t, "via") }
	acts := map[string]func(*rapid.T){
		"batch": func(t *rapid.T) {
			g.t = t
			if len(g.live()) == 0 {
				t.Skip("no dataset")
			}
			g.applyBatch(g.genBatchOp())
		},
		"txn": func(t *rapid.T) {
			g.t = t
			if len(g.live()) == 0 {
				t.Skip("no dataset")
			}
			g.applyTxn(g.genTxnOp())
		},
		"create": func(t *rapid.T) {
			g.t = t
			nl := notLive()
			if len(nl) == 0 {
				t.Skip("all names live")
			}
			g.applyCreate(Op{K: "create", Name: rapid.SampledFrom(nl).Draw(t, "name"), Via: via(t)})
		},
		"createSpecial": func(t *rapid.T) {
			g.t = t
			var nl []string
			for _, n := range specialPool {
				if g.m.DS[n] == nil {
					nl = append(nl, n)
				}
			}
			if len(nl) == 0 {
				t.Skip("all special names live")
			}
			g.applyCreate(Op{K: "create", Name: rapid.SampledFrom(nl).Draw(t, "name"), Via: via(t), Kind: rapid.SampledFrom([]string{"proxy", "virtual"}).Draw(t, "kind")})
		},
		"deleteSpecial": func(t *rapid.T) {
			g.t = t
			var l []string
			for _, n := range specialPool {
				if g.m.DS[n] != nil {
					l = append(l, n)
				}
			}
			if len(l) == 0 {
				t.Skip("no special dataset")
			}
			g.applyDelete(Op{K: "delete", Name: rapid.SampledFrom(l).Draw(t, "name"), Via: via(t)})
		},
		"delete": func(t *rapid.T) {
			g.t = t
			if len(g.live()) == 0 {
				t.Skip("no dataset")
			}
			g.applyDelete(Op{K: "delete", Name: rapid.SampledFrom(g.live()).Draw(t, "name"), Via: via(t)})
		},
		"rename": func(t *rapid.T) {
			g.t = t
			nl := notLive()
			if len(g.live()) == 0 || len(nl) == 0 {
				t.Skip("nothing to rename")
			}
			g.applyRename(Op{K: "rename", Name: rapid.SampledFrom(g.live()).Draw(t, "name"), ID: rapid.SampledFrom(nl).Draw(t, "to"), Via: via(t)})
		},
	}
	acts["setPublicNamespaces"] = func(t *rapid.T) {
		g.t = t
		if len(g.live()) == 0 {
			t.Skip("no dataset")
		}
		name := rapid.SampledFrom(g.live()).Draw(t, "ds")
		all := append([]string{}, kit.PoolNS...)
		all = append(all, "http://data.mimiro.io/core/dataset/")
		list := []string{}
		for _, ns := range all {
			if rapid.Bool().Draw(t, "in") {
				list = append(list, ns)
			}
		}
		g.applyPubNS(Op{K: "pubns", Name: name, Scope: list})
	}
	acts["rejectedBatch"] = g.rejectedBatchAction()
	acts["rejectedRename"] = func(t *rapid.T) {
		g.t = t
		if len(g.live()) < 2 {
			t.Skip("needs two datasets")
		}
		names := rapid.Permutation(g.live()).Draw(t, "names")
		g.applyBadRename(Op{K: "badrename", Name: names[0], ID: names[1], Via: via(t)})
	}
	if withGC {
		acts["gc"] = func(t *rapid.T) {
			g.t = t
			g.applyGC(Op{K: "gc", N: rapid.IntRange(0, 1).Draw(t, "valuelog")})
		}
	}
	if withGC {
		acts["gcdel"] = func(t *rapid.T) {
			g.t = t
			if len(g.live()) == 0 || rapid.IntRange(0, 1).Draw(t, "rare") != 0 {
				t.Skip("no dataset / rare")
			}
			g.applyGCDel(Op{K: "gcdel", Name: rapid.SampledFrom(g.live()).Draw(t, "name"),
				ID: rapid.SampledFrom([]string{"gc.afterEntities", "gc.afterOutgoing", "gc.afterIncoming", "gc.storeObject"}).Draw(t, "point")})
		}
	}
	if withRestart {
		acts["restart"] = func(t *rapid.T) { g.t = t; g.applyRestart(Op{K: "restart"}) }
	}
	return acts
}

// checkDatasetList: the dataset list equals the model's live names.
func (g *gm) checkDatasetList() {
	got := g.h.DatasetNames()
	want := g.m.AllNames()
	if len(got) == 0 && len(want) == 0 {
		return
	}
	if !reflect.DeepEqual(got, want) {
		g.fail("DATASET-LIST impl=%v model=%v", got, want)
	}
	for _, n := range append(append([]string{}, mgmtPool...), specialPool...) {
		if g.m.DS[n] == nil && g.h.Dsm.IsDataset(n) {
			g.fail("DATASET-GHOST %s is reported as a dataset but was deleted/renamed away", n)
		}
	}
	g.checkKinds()
}

// checkKinds: a dataset is a proxy / virtual dataset iff it was created as one, with the
// settings it was created with.
func (g *gm) checkKinds() {
	for _, n := range g.m.AllNames() {
		md, d := g.m.DS[n], g.h.Dsm.GetDataset(n)
		if d == nil {
			g.fail("DATASET-LIST %s is listed but GetDataset does not know it", n)
		}
		if d.IsProxy() != md.Proxy || d.IsVirtual() != md.Virtual {
			g.fail("DATASET-KIND %s was created with proxy=%v virtual=%v, the hub now says proxy=%v virtual=%v", n, md.Proxy, md.Virtual, d.IsProxy(), d.IsVirtual())
		}
		if md.Proxy && (d.ProxyConfig.RemoteURL != gmProxyURL || d.ProxyConfig.TimeoutSeconds != 1) {
			g.fail("DATASET-KIND proxy dataset %s: settings %+v differ from what it was created with", n, *d.ProxyConfig)
		}
		if md.Virtual && d.VirtualDatasetConfig.Transform != gmVirtualJS {
			g.fail("DATASET-KIND virtual dataset %s: transform differs from what it was created with", n)
		}
	}
}

// C07: deleting a dataset hides all its data everywhere, at once and for good.
// The model drops a deleted incarnation entirely, so "nothing of it is visible"
// is model equality of every read API over the surviving datasets (scoped,
// unscoped, wildcard relations), before and after GC and restart.
func TestVerif_C07(t *testing.T) {
	defer kit.S().Flush()
	defer kit.CleanupScratch()
	rapid.Check(t, func(t *rapid.T) {
		g := newGM(t, []string{"a", "b"}, kit.GenCfg{MaxRefs: 2})
		defer g.close()
		defer func() {
			nt := g.has("dataset-deleted") && g.has("deleted-dataset-shared-id", "deleted-dataset-shared-ref") && g.has("gc-after-delete", "restart")
			kit.S().Case(g.hist, nt, g.classes()...)
			kit.JournalDone()
		}()
		acts := g.mgmtActions(true, true)
		acts["pagedQueryAcrossDelete"] = func(t *rapid.T) { g.t = t; g.pagedQueryAcrossDelete() }
		acts[""] = func(t *rapid.T) { g.t = t; c07Oracle(g) }
		t.Repeat(acts)
	})
}

// pagedQueryAcrossDelete: the first page of an outgoing relation query (limit
// 1, scope naming the dataset about to go) is read, the dataset is deleted,
// and the query is continued through the continuation it had returned. No page
// read after the delete may contain a relation that only the deleted dataset
// held: what the surviving datasets of the scope say is all that is left.
func (g *gm) pagedQueryAcrossDelete() {
	live := g.live()
	if len(live) == 0 {
		g.t.Skip("no dataset")
	}
	victim := rapid.SampledFrom(live).Draw(g.t, "victim")
	scope := []string{victim}
	if len(live) > 1 && rapid.Bool().Draw(g.t, "wider") {
		scope = append([]string{}, live...)
	}
	start := rapid.SampledFrom(g.pool.IDs).Draw(g.t, "start")
	g.record(Op{K: "pagedQueryAcrossDelete", Name: victim, ID: start, Scope: scope})
	var cont []*server.RelatedFrom
	res, err := g.h.Store.GetManyRelatedEntitiesBatch([]string{start}, "*", false, scope, 1, true)
	if err != nil && !isNoPredicate(err) {
		g.fail("first page: %v", err)
	}
	if err == nil {
		cont = res.Cont
	}
	g.applyDelete(Op{K: "delete", Name: victim, Via: "dsm"})
	if len(cont) == 0 {
		return
	}
	var rest []string
	for _, ds := range scope {
		if ds != victim {
			rest = append(rest, ds)
		}
	}
	allowed := map[string]bool{}
	if len(rest) > 0 {
		allowed = g.m.Outgoing(start, "*", rest)
	}
	g.cls["continuation-followed-after-delete"] = true
	for i := 0; i < 1000 && len(cont) > 0; i++ {
		res, err := g.h.Store.GetManyRelatedEntitiesAtTime(cont, 1, true)
		if err != nil {
			g.fail("continued page after the delete: %v", err)
		}
		for _, x := range res.Relations {
			id := ""
			if x.RelatedEntity != nil {
				id = x.RelatedEntity.ID
			}
			if k := x.PredicateURI + "|" + id; !allowed[k] {
				g.fail("DELETED-DATASET-RELATION-SERVED start=%s: a page of a query begun before %s was deleted, read after the delete, contains %s; the surviving datasets of its scope %v hold %s", start, victim, k, rest, kit.SetStr(allowed))
			}
		}
		cont = res.Cont
	}
}

func c07Oracle(g *gm) {
	g.checkDatasetList()
	for _, ds := range g.live() {
		g.checkLatest(ds, nil, false)
		g.checkLatest(ds, []int{2}, true)
		g.checkFeed(ds, nil, false)
		g.checkFeed(ds, []int{1, 3}, true)
	}
	for _, id := range g.pool.IDs {
		for _, scope := range g.scopes() {
			g.checkLookup(id, scope, false)
		}
		g.checkLookup(id, nil, true)
	}
	g.sweepRelations()
}

// C07, crash part: the process dies at every instrumented boundary inside
// create, rename and delete (and the writes around them); after restart the
// dataset in flight is either fully there or fully hidden, every other
// dataset is unaffected (model equality), raw indexes are consistent.
func TestVerif_C07_crash(t *testing.T) {
	defer kit.S().Flush()
	defer kit.CleanupScratch()
	maxPlans := kit.EnvInt("VERIF_C07_MAXPLANS", 40)
	rapid.Check(t, func(t *rapid.T) {
		g := newModelGM(t, t, nil, kit.GenCfg{MaxRefs: 2})
		g.maxBatch = 4
		g.applyOp(Op{K: "create", Name: "a", Via: "dsm"})
		g.applyOp(Op{K: "create", Name: "b", Via: "dsm"})
		// shared ids and references between the datasets, then management ops
		g.applyBatch(g.genBatchOp())
		g.applyBatch(g.genBatchOp())
		acts := g.mgmtActions(false, false)
		// bias towards management
		acts["delete2"] = acts["delete"]
		acts["rename2"] = acts["rename"]
		acts["create2"] = acts["create"]
		t.Repeat(acts)
		ops := append([]Op{}, g.hist...)
		if !g.has("dataset-deleted", "rename", "re-create") {
			t.Skip("no management op in history")
		}
		runCrashCase(t, ops, maxPlans, []string{"create.", "delete.", "rename."})
	})
}

// rejectedBatchAction: a batch that is rejected as a whole (its last element
// cannot be stored), often followed by the client sending its valid part again.
func (g *gm) rejectedBatchAction() func(*rapid.T) {
	return func(t *rapid.T) {
		g.t = t
		if len(g.live()) == 0 {
			t.Skip("no dataset")
		}
		op := g.genBatchOp()
		op.K, op.Via = "badbatch", "store"
		if rapid.IntRange(0, 3).Draw(t, "oversized") == 0 {
			op.N = 1
		}
		if len(op.Ents) > 4 {
			op.Ents = op.Ents[:4]
		}
		g.applyBadBatch(op)
		if rapid.IntRange(0, 2).Draw(t, "resend") > 0 {
			g.applyBatch(Op{K: "batch", DS: op.DS, Via: rapid.SampledFrom([]string{"store", "parser"}).Draw(t, "via"), Ents: op.Ents})
			g.cls["rejected-batch-then-resend"] = true
		}
	}
}
