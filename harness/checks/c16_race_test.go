package verifchecks

// C16 part "aclrace": access-control lists replaced while requests of the same
// client are in flight. Once the call that replaces a client's ACL has
// returned, every request sent afterwards is decided on the new list - however
// many requests of that client were being authorised while the list changed,
// and however quickly a second change followed the first (a revoked grant must
// not survive in anything the hub remembers about the client).
//
// Per case: 2-6 goroutines send requests with the client's token without pause;
// the main goroutine replaces the ACL 20-60 times (lists that allow, lists that
// do not, padded with entries for other resources; now and then two
// replacements back to back) and, after each replacement has returned, sends a
// request of its own and compares the decision with the reference for the
// list it has just set. The racing requests themselves are not judged (they
// overlap the change); only requests sent after it.

import (
	"encoding/json"
	"fmt"
	"sync"
	"sync/atomic"
	"testing"

	"pgregory.net/rapid"

	kit "github.com/mimiro-io/datahub/internal/verifkit"
)

type c16RaceStep struct {
	ACL    []c16AC `json:"acl"`
	Double bool    `json:"double,omitempty"` // a second replacement (the list of this step) right after an intermediate one
	Via    string  `json:"via"`              // api | core
}

type c16RaceCase struct {
	Path     string        `json:"path"`
	Method   string        `json:"method"`
	Racers   int           `json:"racers"`
	Steps    []c16RaceStep `json:"steps"`
	FailedAt int           `json:"failedAt,omitempty"`
}

func TestVerif_C16_aclrace(t *testing.T) {
	defer kit.S().Flush()
	defer kit.CleanupScratch()
	f := c16Setup(t)
	defer f.close()
	budget, cases := kit.EnvInt("VERIF_C16_RACE_CASES", 12), 0
	rapid.Check(t, func(t *rapid.T) {
		if cases >= budget {
			return
		}
		cases++
		f.fresh(t)
		s := f.list
		r := rapid.SampledFrom([]c16Route{
			{Method: "GET", Path: "/datasets/people/entities", Reg: true},
			{Method: "GET", Path: "/datasets/places/changes", Reg: true},
			{Method: "GET", Path: "/jobs", Reg: true},
		}).Draw(t, "route")
		cs := &c16RaceCase{Path: r.Path, Method: r.Method, Racers: rapid.IntRange(2, 6).Draw(t, "racers")}
		nsteps := rapid.IntRange(20, 60).Draw(t, "steps")
		for i := 0; i < nsteps; i++ {
			var acl []c16AC
			// padding: entries for other resources; long lists make whatever the hub derives from a
			// client's list take longer to derive
			for p := rapid.SampledFrom([]int{0, 3, 12, 400, 400, 4000}).Draw(t, "padding"); p > 0; p-- {
				if p%2 == 0 {
					acl = append(acl, c16AC{Resource: fmt.Sprintf("/other/%d*", p), Action: "read"})
				} else {
					acl = append(acl, c16AC{Resource: fmt.Sprintf("/other/%d", p), Action: "write"})
				}
			}
			switch rapid.IntRange(0, 3).Draw(t, "kind") {
			case 0: // nothing that covers the route
			case 1:
				acl = append(acl, c16AC{Resource: r.Path, Action: "read"})
			case 2:
				acl = append(acl, c16AC{Resource: "/*", Action: "write"})
			case 3:
				acl = append(acl, c16AC{Resource: "/*", Action: "read"}, c16AC{Resource: r.Path, Action: "read", Deny: true})
			}
			cs.Steps = append(cs.Steps, c16RaceStep{ACL: acl, Double: rapid.IntRange(0, 2).Draw(t, "double") == 0,
				Via: rapid.SampledFrom([]string{"core", "core", "api"}).Draw(t, "via")})
		}
		kit.Journal(cs)
		defer kit.JournalDone()
		var stop int32
		var sent int64
		var wg sync.WaitGroup
		for k := 0; k < cs.Racers; k++ {
			wg.Add(1)
			go func() {
				defer wg.Done()
				for atomic.LoadInt32(&stop) == 0 {
					_ = s.do(r.Method, r.Path, "", "", f.lcli)
					atomic.AddInt64(&sent, 1)
				}
			}()
		}
		set := func(acl []c16AC, via string) {
			if via == "api" {
				b := mustJSON(c16ToSecurity(acl))
				if resp := s.do("POST", "/security/clients/"+c16Client+"/acl", b, "application/json", f.ladmin); resp.Code != 200 {
					atomic.StoreInt32(&stop, 1)
					wg.Wait()
					t.Fatalf("VERIF-INFRA cannot set ACL through the admin API: %d %s %s", resp.Code, resp.Body, resp.Panic)
				}
				return
			}
			s.Core.SetClientAccessControls(c16Client, c16ToSecurity(acl))
		}
		decided, flips := 0, 0
		last := ""
		for i, st := range cs.Steps {
			if st.Double {
				// an intermediate list with the opposite outcome first, the list of this step right behind it
				inter := []c16AC{{Resource: "/*", Action: "write"}}
				if v := c16Decide(r.Method, r.Path, st.ACL); v.Decision == "allow" {
					inter = nil
				}
				set(inter, "core")
			}
			set(st.ACL, st.Via)
			v := c16Decide(r.Method, r.Path, st.ACL)
			if v.Decision != "allow" && v.Decision != "deny" {
				continue
			}
			if kit.Known("F17") && (v.F17a || v.F17b) {
				kit.S().Exclude("F17")
				continue
			}
			resp := s.do(r.Method, r.Path, "", "", f.lcli)
			d := resp.decision()
			decided++
			if v.Decision != last {
				flips++
			}
			last = v.Decision
			if (v.Decision == "deny" && d != "forbidden") || (v.Decision == "allow" && d != "passed") {
				atomic.StoreInt32(&stop, 1)
				wg.Wait()
				cs.FailedAt = i
				c16Fail(t, cs, "step %d: the ACL of the client was replaced (the call had returned) while %d goroutines kept sending its requests; a request sent afterwards was answered HTTP %d (%s), the list now in force says %s (%s)",
					i, cs.Racers, resp.Code, d, v.Decision, v.Rule)
			}
		}
		atomic.StoreInt32(&stop, 1)
		wg.Wait()
		kit.S().AddExtra("aclrace requests decided after a replacement", decided)
		kit.S().AddExtra("aclrace racing requests", int(atomic.LoadInt64(&sent)))
		kit.S().Case(cs, flips >= 5 && atomic.LoadInt64(&sent) >= int64(len(cs.Steps)), "aclrace", fmt.Sprintf("aclrace-racers-%d", cs.Racers))
	})
}

func mustJSON(v any) string {
	b, err := json.Marshal(v)
	if err != nil {
		panic(err)
	}
	return string(b)
}
