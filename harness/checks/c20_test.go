package verifchecks

import (
	"crypto/sha256"
	"encoding/hex"
	"encoding/json"
	"fmt"
	"os"
	"os/exec"
	"os/signal"
	"path/filepath"
	"sort"
	"strings"
	"sync"
	"syscall"
	"testing"
	"time"

	"github.com/bamzi/jobrunner"
	"github.com/dgraph-io/badger/v4"
	"go.uber.org/zap"
	"pgregory.net/rapid"

	kit "github.com/mimiro-io/datahub/internal/verifkit"

	"github.com/mimiro-io/datahub/internal/conf"
	"github.com/mimiro-io/datahub/internal/server"
)

// C20: a backup contains everything committed before it ran.
//
// Histories of writes (the graph machine's batches and transactions through
// store, parser, HTTP and contextual-store paths), dataset create / delete /
// rename, garbage collection, hub restarts and backup runs
// (server.NewBackupManager(...).Run(), the function the cron scheduler calls).
// Oracle (no model needed): `restore` loads the backup location into an EMPTY
// directory — native mode: badger DB.Load of datahub-backup.kv, rsync mode: a
// copy of the mirrored store directory — opens a hub on it and compares its
// kit.Dump (every read API: dataset list, latest views, change feeds, scoped
// and merged lookups, relations in both directions, namespace context) with
// the source hub's kit.Dump taken when the last COMPLETED backup run started.
// Second configuration: a second store with its own DATAHUB_BACKUPID aimed at
// the same location: the location's files must be byte-identical before and
// after its attempt.
//
// A backup run that panics is not "completed"; because a panic in a scheduled
// job takes the hub process down (jobrunner re-panics), the harness follows it
// with a restart.

type c20m struct {
	g     *gm
	loc   string
	rsync bool
	bm    *server.BackupManager
	// state of the source when the last completed run started
	snap    map[string]any
	snapF04 map[string]bool // targets whose incoming relations are in F04's input shape at that time
	snapAt  int             // index in the history
	runs    int             // completed runs
	dirty   bool            // something was written since the last completed run
	restart bool            // a restart happened since the last completed run
	nt      bool
	// F34 shape: keys deleted after the first completed backup run / stops of the hub so far
	deletedAfterBackup bool
	stops              int
	noF34              bool // probes run without the exclusion
	restores           int
	clock              int
}

var c20CronOnce sync.Once

func newC20(g *gm, rsync bool) *c20m {
	c20CronOnce.Do(func() { jobrunner.Start() }) // NewBackupManager schedules itself on jobrunner.MainCron
	c := &c20m{g: g, loc: kit.NewDir("backup"), rsync: rsync}
	c.newManager()
	return c
}

func (c *c20m) env(storeLocation string) *conf.Config {
	return &conf.Config{
		Logger:         zap.NewNop().Sugar(),
		StoreLocation:  storeLocation,
		BackupLocation: c.loc,
		BackupSchedule: "0 0 1 1 *", // never fires during a test; Run() is called directly
		BackupRsync:    c.rsync,
	}
}

func (c *c20m) newManager() {
	bm, err := server.NewBackupManager(c.g.h.Store, c.env(c.g.h.Env.StoreLocation))
	if err != nil || bm == nil {
		c.g.fail("VERIF-INFRA NewBackupManager: %v", err)
	}
	c.bm = bm
}

func (c *c20m) close() { _ = os.RemoveAll(c.loc) }

// run calls f and reports a panic as a string.
func c20Recover(f func()) (panicked string) {
	defer func() {
		if r := recover(); r != nil {
			panicked = fmt.Sprint(r)
			if panicked == "" {
				panicked = "panic"
			}
		}
	}()
	f()
	return ""
}

func (c *c20m) f04Targets() map[string]bool {
	out := map[string]bool{}
	if !kit.Known("F04") {
		return out
	}
	for _, byTarget := range c.g.refHist {
		for tgt := range byTarget {
			if !out[tgt] && c.g.shapeF04(tgt, "*", nil) {
				out[tgt] = true
			}
		}
	}
	return out
}

// dropF04 removes the incoming-relation answers that are in known finding F04's
// input shape (they are nondeterministic) from a dump.
func c20DropF04(d map[string]any, targets map[string]bool) map[string]any {
	if len(targets) == 0 {
		return d
	}
	rel, _ := d["rel"].(map[string]any)
	out := map[string]any{}
	for k, v := range d {
		out[k] = v
	}
	nrel := map[string]any{}
	dropped := 0
	for k, v := range rel {
		parts := strings.SplitN(k, "|", 3) // in|<scope>|<id>
		if len(parts) == 3 && parts[0] == "in" && targets[parts[2]] {
			dropped++
			continue
		}
		nrel[k] = v
	}
	out["rel"] = nrel
	if dropped > 0 {
		kit.S().Exclude("F04")
	}
	return out
}

// c20VolumeFull runs f while no file of this process can grow beyond size bytes (RLIMIT_FSIZE, the
// signal that comes with it ignored): every append to the backup file fails as on a full volume.
// The store's own files are pre-allocated and memory-mapped; nothing else writes during f.
func c20VolumeFull(size int64, f func()) {
	var old syscall.Rlimit
	if err := syscall.Getrlimit(syscall.RLIMIT_FSIZE, &old); err != nil {
		f()
		return
	}
	signal.Ignore(syscall.SIGXFSZ)
	defer signal.Reset(syscall.SIGXFSZ)
	if err := syscall.Setrlimit(syscall.RLIMIT_FSIZE, &syscall.Rlimit{Cur: uint64(size), Max: old.Max}); err != nil {
		f()
		return
	}
	defer func() { _ = syscall.Setrlimit(syscall.RLIMIT_FSIZE, &old) }()
	kit.S().AddExtra("backup runs on a full volume", 1)
	f()
}

func (c *c20m) applyBackup() { c.applyBackupX(false) }

// volumeFull (native mode): the run cannot append to the backup file. It either fails - then it is
// not a completed run - or it returns normally, and then it counts as completed like any other.
func (c *c20m) applyBackupX(volumeFull bool) {
	g := c.g
	exists := false
	if _, err := os.Stat(filepath.Join(c.loc, "datahub-backup.kv")); err == nil {
		exists = true
	}
	if kit.Known("F18") && exists && !c.rsync {
		// known finding F18: a native backup run onto an existing backup file
		kit.S().Exclude("F18")
		return
	}
	g.record(Op{K: "backup", Lo: volumeFull})
	snap := kit.Dump(g.h.Hub)
	f04 := c.f04Targets()
	if c.rsync {
		c.ageStoreFiles()
	}
	run := c.bm.Run
	if volumeFull && !c.rsync {
		var size int64
		if st, err := os.Stat(filepath.Join(c.loc, "datahub-backup.kv")); err == nil {
			size = st.Size()
		}
		run = func() { c20VolumeFull(size, c.bm.Run) }
		g.cls["backup-run-on-a-full-volume"] = true
	}
	p := c20Recover(run)
	if p != "" {
		// not completed; the hub process would be gone: restart it
		g.cls["backup-panicked"] = true
		kit.S().AddExtra("backup_runs_panicked", 1)
		g.hist[len(g.hist)-1].Name = "panic: " + p
		c.applyRestart()
		return
	}
	if c.runs >= 1 && (c.dirty || c.restart) {
		c.nt = true
	}
	if c.runs >= 1 && c.dirty {
		g.cls["incremental-run-with-new-writes"] = true
	}
	if c.runs >= 1 && !c.dirty {
		g.cls["run-with-nothing-new"] = true
	}
	if c.runs >= 1 && c.restart {
		g.cls["run-after-restart"] = true
	}
	c.runs++
	c.snap, c.snapF04, c.snapAt = snap, f04, len(g.hist)-1
	c.dirty, c.restart = false, false
	kit.S().AddExtra("backup_runs_completed", 1)
}

// ageStoreFiles emulates the passage of time between scheduled backups: rsync's
// quick check skips a file whose size and modification time are unchanged, and
// badger's pre-allocated, memory-mapped files keep their size (and, within one
// second or on tmpfs, their mtime) while their content changes. Production runs
// are hours apart; here every store file gets a fresh, strictly increasing mtime
// before an rsync run.
func (c *c20m) ageStoreFiles() {
	c.clock++
	ts := time.Now().Add(time.Duration(c.clock) * time.Hour)
	_ = filepath.Walk(c.g.h.Env.StoreLocation, func(p string, info os.FileInfo, err error) error {
		if err == nil && !info.IsDir() {
			_ = os.Chtimes(p, ts, ts)
		}
		return nil
	})
}

func (c *c20m) applyRestart() {
	c.g.applyRestart(Op{K: "restart"})
	c.newManager()
	c.restart = true
	c.stops++
}

// applyRestore is the oracle.
func (c *c20m) applyRestore() {
	g := c.g
	if c.snap == nil {
		return
	}
	if kit.Known("F34") && !c.noF34 && !c.rsync && c.deletedAfterBackup && c.stops >= 5 {
		// known finding F34 (input shape: keys were deleted after a backup run and the hub has been
		// stopped five times or more - five tables in badger's level 0 start the compaction that drops
		// the deletion markers an incremental backup run depends on)
		kit.S().Exclude("F34")
		return
	}
	g.record(Op{K: "restore"})
	dir := kit.NewDir("restored")
	defer os.RemoveAll(dir)
	storeDir := filepath.Join(dir, "store")
	if c.rsync {
		src := filepath.Join(c.loc, filepath.Base(g.h.Env.StoreLocation))
		if out, err := exec.Command("cp", "-a", src, storeDir).CombinedOutput(); err != nil {
			g.fail("RESTORE-FAILED cannot copy the mirrored store %s: %v %s", src, err, out)
		}
		_ = os.Remove(filepath.Join(storeDir, "LOCK"))
	} else {
		if err := c20Load(filepath.Join(c.loc, "datahub-backup.kv"), storeDir); err != nil {
			g.fail("RESTORE-FAILED loading the backup file into an empty store: %v", err)
		}
	}
	rh := kit.NewHub(kit.HubOpts{Dir: dir})
	got := kit.Dump(rh)
	rh.Close()
	want := c20DropF04(c.snap, c.snapF04)
	got = c20DropF04(got, c.snapF04)
	c.restores++
	kit.S().AddExtra("restores_compared", 1)
	if !kit.DumpEqual(want, got) {
		g.fail("RESTORE-MISMATCH the restored hub differs from the source as it was when the last completed backup run (step %d, run #%d) started; source != restored:\n%s",
			c.snapAt, c.runs, kit.DumpDiff(want, got, 10))
	}
}

// c20Load restores a native backup file into an empty badger directory.
func c20Load(file, dir string) error {
	if err := os.MkdirAll(dir, 0o755); err != nil {
		return err
	}
	f, err := os.Open(file)
	if err != nil {
		return err
	}
	defer f.Close()
	opts := badger.DefaultOptions(dir).WithLogger(nil).WithMemTableSize(8 << 20).WithValueLogFileSize(16 << 20)
	db, err := badger.Open(opts)
	if err != nil {
		return err
	}
	if err := db.Load(f, 16); err != nil {
		_ = db.Close()
		return err
	}
	return db.Close()
}

// c20Files fingerprints every file below dir (relative name -> size:sha256).
func c20Files(dir string) map[string]string {
	out := map[string]string{}
	_ = filepath.Walk(dir, func(p string, info os.FileInfo, err error) error {
		if err != nil {
			return nil
		}
		rel, _ := filepath.Rel(dir, p)
		if info.IsDir() {
			out[rel+"/"] = "dir"
			return nil
		}
		b, err := os.ReadFile(p)
		if err != nil {
			out[rel] = "ERR " + err.Error()
			return nil
		}
		h := sha256.Sum256(b)
		out[rel] = fmt.Sprintf("%d:%s", len(b), hex.EncodeToString(h[:8]))
		return nil
	})
	return out
}

// applyForeign: another store (own DATAHUB_BACKUPID) is aimed at the location
// that belongs to the source store.
// variant: what BACKUP_SOURCE_LOCATION of the second hub says - 0 unset, 1 its own store's
// directory, 2 the directory of the store the location belongs to (a configuration copied from the
// first hub, or left over after a store was moved).
func (c *c20m) applyForeign(variant int) {
	g := c.g
	if c.runs == 0 {
		return // the location does not belong to anybody yet
	}
	g.record(Op{K: "foreign", N: variant})
	g.cls[fmt.Sprintf("foreign-source-location-variant-%d", variant)] = true
	other := kit.NewHub(kit.HubOpts{})
	defer other.Close()
	if _, err := other.Dsm.CreateDataset("x", nil); err != nil {
		g.fail("VERIF-INFRA create dataset in second store: %v", err)
	}
	if err := other.StoreBatch("x", []*kit.Ent{ent(other.P[0]+":foreign", map[string]any{other.P[0] + ":p0": "x"}, nil, false)}, "store"); err != nil {
		g.fail("VERIF-INFRA write in second store: %v", err)
	}
	before := c20Files(c.loc)
	env := c.env(other.Env.StoreLocation)
	switch variant {
	case 1:
		env.BackupSourceLocation = other.Env.StoreLocation
	case 2:
		env.BackupSourceLocation = g.h.Env.StoreLocation
	}
	bm, err := server.NewBackupManager(other.Store, env)
	refused := "constructor refused"
	if err == nil && bm != nil {
		refused = c20Recover(bm.Run)
	}
	after := c20Files(c.loc)
	kit.S().AddExtra("foreign_attempts", 1)
	if refused != "" {
		g.cls["foreign-store-refused"] = true
	} else {
		g.cls["foreign-store-run-returned"] = true
	}
	bb, _ := json.Marshal(before)
	ab, _ := json.Marshal(after)
	if string(bb) != string(ab) {
		var diff []string
		keys := map[string]bool{}
		for k := range before {
			keys[k] = true
		}
		for k := range after {
			keys[k] = true
		}
		for _, k := range kit.SortedKeys(keys) {
			if before[k] != after[k] {
				diff = append(diff, fmt.Sprintf("%s: %q -> %q", k, before[k], after[k]))
			}
		}
		sort.Strings(diff)
		g.fail("FOREIGN-OVERWRITE a store with a different DATAHUB_BACKUPID changed the backup location (Run outcome: %q):\n%s", refused, strings.Join(diff, "\n"))
	}
}

func c20Actions(c *c20m) map[string]func(*rapid.T) {
	g := c.g
	acts := g.mgmtActions(true, false)
	for name, f := range acts {
		f := f
		acts[name] = func(t *rapid.T) {
			n := len(g.hist)
			f(t)
			if len(g.hist) > n {
				c.dirty = true
			}
			for _, op := range g.hist[n:] {
				if c.runs >= 1 && (op.K == "delete" || op.K == "rename" || op.K == "gc" || op.K == "gcdel") {
					c.deletedAfterBackup = true // these remove keys from the store
				}
			}
		}
	}
	acts["backup"] = func(t *rapid.T) { g.t = t; c.applyBackup() }
	acts["backup2"] = acts["backup"] // weight
	acts["restart"] = func(t *rapid.T) { g.t = t; c.applyRestart() }
	acts["restore"] = func(t *rapid.T) {
		g.t = t
		if c.snap == nil {
			t.Skip("no completed backup yet")
		}
		c.applyRestore()
	}
	if !c.rsync && kit.EnvInt("VERIF_C20_NO_VOLUME_FULL", 0) == 0 {
		acts["backupVolumeFull"] = func(t *rapid.T) {
			g.t = t
			if rapid.IntRange(0, 1).Draw(t, "rare") != 0 {
				t.Skip("rare")
			}
			c.applyBackupX(true)
		}
	}
	acts["foreign"] = func(t *rapid.T) {
		g.t = t
		if c.runs == 0 || rapid.IntRange(0, 2).Draw(t, "rare") != 0 {
			t.Skip("rare")
		}
		c.applyForeign(rapid.IntRange(0, 2).Draw(t, "sourceLocation"))
	}
	return acts
}

// c20GenAge draws the age of the store: the badger version its first commit gets. Half of the cases run on
// a young store (as every test does). The others start somewhere inside a decade (1 to 10 digits), or just
// below a power of ten or of 256, so that the versions - and the backup cursor that is made of them - grow by
// a digit or a byte while the case runs.
func c20GenAge(t *rapid.T) uint64 {
	if rapid.IntRange(0, 1).Draw(t, "aged") == 0 {
		return 0
	}
	pow := func(b uint64, k int) uint64 {
		v := uint64(1)
		for ; k > 0; k-- {
			v *= b
		}
		return v
	}
	switch rapid.IntRange(0, 3).Draw(t, "ageKind") {
	case 0:
		return pow(10, rapid.IntRange(2, 10).Draw(t, "ageDec")) - uint64(rapid.IntRange(1, 60).Draw(t, "ageBelow"))
	case 1:
		return pow(256, rapid.IntRange(1, 5).Draw(t, "ageByte")) - uint64(rapid.IntRange(1, 60).Draw(t, "ageBelow"))
	default:
		k := rapid.IntRange(2, 9).Draw(t, "ageDigits")
		return uint64(rapid.IntRange(100, 999).Draw(t, "ageMantissa")) * pow(10, k) / 100
	}
}

func c20Run(t *testing.T, rsync bool) {
	rapid.Check(t, func(t *rapid.T) {
		age := c20GenAge(t)
		g := newGMfo(t, t, []string{"a", "b"}, kit.GenCfg{MaxRefs: 2}, kit.HubOpts{Age: age})
		defer g.close()
		if age > 0 {
			g.cls["aged-store"] = true
			g.cls[fmt.Sprintf("store-version-%d-digits", len(fmt.Sprint(age)))] = true
		}
		c := newC20(g, rsync)
		defer c.close()
		defer func() {
			cls := g.classes()
			if rsync {
				cls = append(cls, "mode-rsync")
			} else {
				cls = append(cls, "mode-native")
			}
			kit.S().Case(g.hist, c.nt && c.restores > 0, cls...)
			kit.JournalDone()
		}()
		acts := c20Actions(c)
		t.Repeat(acts)
		// every case ends with a restore of what the last completed run promised
		c.applyRestore()
	})
}

func TestVerif_C20(t *testing.T) {
	defer kit.S().Flush()
	defer kit.CleanupScratch()
	c20Run(t, false)
}

// TestVerif_C20_Rsync: the same histories with BackupRsync (the backup is a
// mirror of the store directory made by rsync -avz --delete).
func TestVerif_C20_Rsync(t *testing.T) {
	defer kit.S().Flush()
	defer kit.CleanupScratch()
	if _, err := exec.LookPath("rsync"); err != nil {
		t.Skip("rsync not installed")
	}
	c20Run(t, true)
}

// TestVerifProbe_F18: the second native backup run opened the existing backup
// file read-only and wrote nothing; the cursor file was read under another
// name than it was written.
func TestVerifProbe_F18(t *testing.T) {
	g := probeGM(t)
	c := newC20(g, false)
	t.Cleanup(c.close)
	a := g.h.P[0]
	w := func(id, v string) {
		g.applyBatch(Op{K: "batch", DS: "a", Via: "store", Ents: []*kit.Ent{ent(a+":"+id, map[string]any{a + ":p0": v}, nil, false)}})
	}
	w("e0", "1")
	c.applyBackup()
	c.applyRestore()
	w("e1", "1")
	c.applyBackup() // second run: must append what is new
	c.applyRestore()
	c.applyRestart()
	w("e2", "1")
	c.applyBackup() // run of a new manager after a restart
	c.applyRestore()
	// the cursor written by a completed run must be what the next manager reads back
	c.applyRestart()
	if id, err := c.bm.LoadLastID(); err != nil || id == 0 {
		t.Fatalf("CURSOR-LOST after three completed runs a new BackupManager on the same location reads cursor %d (err %v): datahub-backup.lastseen is written but another file name is read", id, err)
	}
	c.applyBackup()
	c.applyRestore()
}

// C20, racing writers: entities are stored WHILE backup runs are executing on
// a store large enough for the backup to read its key space with several
// snapshots (badger splits at 10000 memtable entries). When the writers have
// stopped, one more run is made on the quiet hub: everything was committed
// before that run started, so the restored hub answers like the source.
func c20Racing(g *gm, c *c20m, base, rounds int) {
	p := g.h.P[0]
	var es []*kit.Ent
	for i := 0; i < base; i++ {
		es = append(es, ent(fmt.Sprintf("%s:base%d", p, i), map[string]any{p + ":p0": fmt.Sprint("base ", i)}, nil, false))
	}
	g.applyBatch(Op{K: "batch", DS: "a", Via: "store", Ents: es})
	c.applyBackup()
	written := 0
	for r := 0; r < rounds; r++ {
		stop := make(chan struct{})
		var wg sync.WaitGroup
		var werr error
		var mine []*kit.Ent
		wg.Add(1)
		go func() {
			defer wg.Done()
			for k := 0; ; k++ {
				select {
				case <-stop:
					return
				default:
				}
				e := ent(fmt.Sprintf("%s:racing%d-%d", p, r, k), map[string]any{p + ":p0": "racing"}, nil, false)
				if err := g.h.StoreBatch("a", []*kit.Ent{e}, "store"); err != nil {
					werr = err
					return
				}
				mine = append(mine, e)
			}
		}()
		g.record(Op{K: "backupWithRacingWriter", N: r})
		if pmsg := c20Recover(c.bm.Run); pmsg != "" {
			close(stop)
			wg.Wait()
			g.fail("backup run with a racing writer panicked: %s", pmsg)
		}
		close(stop)
		wg.Wait()
		if werr != nil {
			g.fail("racing write failed: %v", werr)
		}
		g.m.Write("a", mine)
		written += len(mine)
	}
	kit.S().AddExtra("entities_written_while_a_backup_ran", written)
	c.dirty = true
	c.applyBackup() // quiet hub
	c.applyRestore()
}

func TestVerif_C20_racing(t *testing.T) {
	defer kit.S().Flush()
	defer kit.CleanupScratch()
	rapid.Check(t, func(t *rapid.T) {
		g := newGM(t, []string{"a"}, kit.GenCfg{})
		defer g.close()
		c := newC20(g, false)
		defer c.close()
		base := rapid.SampledFrom([]int{300, 2500, 4000}).Draw(t, "base")
		rounds := rapid.IntRange(2, 5).Draw(t, "rounds")
		kit.Journal(map[string]any{"racing": true, "base": base, "rounds": rounds})
		c20Racing(g, c, base, rounds)
		kit.S().Case(map[string]any{"racing": true, "base": base, "rounds": rounds}, base >= 2500, "racing-writer", fmt.Sprintf("base-%d", base))
		kit.JournalDone()
	})
}

// F31 (fixed): the native backup stored the newest version the dump had seen as
// its cursor; the dump reads a large store with several snapshots, so a commit
// racing the start of a run could be missed by this run and skipped by all
// later ones. Schedule dependent: several attempts.
func TestVerifProbe_F31(t *testing.T) {
	defer kit.CleanupScratch()
	for i := 0; i < 8; i++ {
		g := newGMf(nil, t, []string{"a"}, kit.GenCfg{})
		c := newC20(g, false)
		c20Racing(g, c, 3000, 4)
		c.close()
		g.close()
	}
}
