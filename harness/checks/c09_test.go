package verifchecks

import (
	"context"
	"encoding/json"
	"fmt"
	"os"
	"runtime"
	"sort"
	"strings"
	"testing"
	"time"

	"pgregory.net/rapid"

	"github.com/mimiro-io/datahub/internal/verifhook"
	kit "github.com/mimiro-io/datahub/internal/verifkit"
)

// C09: a full sync deletes exactly what the completed sync did not contain.
//
// Generated request histories on one dataset ("d") through the real HTTP
// handler (universal-data-api-full-sync-start/-id/-end headers), interleaved
// with plain job-path writes, job-driven syncs (exactly the calls datasetSink
// makes: StartFullSync, StoreEntities, CompleteFullSync) and lease expiry, are
// compared step by step with a model of the statement.
//
// Model (c09m): at most one active sync {owner: http id | job run, seen}.
//   - start supersedes whatever was active;
//   - while a sync is active every written id is recorded as seen (also plain
//     job-path writes: "record every written id while a sync is active");
//   - a request carrying an id that differs from the active sync's identity is
//     rejected (non-200) and has no effect (kit.Dump unchanged). A request
//     WITHOUT id during an http sync is rejected as well (pinned by the repo's
//     own integration test "also try to add id 5 without sync-id");
//   - a request without id during a job-driven sync (whose id is empty) is
//     judged by its status: 200 = it was part of the sync, otherwise no effect;
//   - end of the active sync: every live entity not seen gets exactly one new
//     deleted version; seen ones keep the content written; already deleted
//     ones get nothing;
//   - with no sync active, a batch is a plain write whatever id it carries; an
//     `end` request may store its entities (the hub does, then answers 410) or
//     not, but deletes nothing;
//   - superseded, abandoned and expired syncs never delete anything: the model
//     never deletes for them, and the hub is compared with it after every
//     later step.
//
// Compared after every step: latest view of d (ids, deleted flags, content of
// every non-tombstone version), per-entity version sequence from the change
// feed (= "deleted exactly once"), and the untouched neighbour dataset "o".
// The content of a tombstone is not asserted (the statement says "marked
// deleted"), only its flag and that there is exactly one.

const c09Lease = 100 * time.Millisecond

type c09Op struct {
	K     string     `json:"k"` // http | write | txn | other | jobStart | jobEnd | expire
	Sync  string     `json:"sync,omitempty"`
	Start bool       `json:"start,omitempty"`
	End   bool       `json:"end,omitempty"`
	Run   int        `json:"run,omitempty"`
	Ents  []*kit.Ent `json:"ents,omitempty"`
	Other []*kit.Ent `json:"other,omitempty"` // txn: the part written to the other dataset
	// Stall (end requests of short-lease cases): the completion's deletion pass is held up for 2.5
	// leases at its first write (a slow disk, a writer holding the dataset lock). The request arrived
	// in time; how long its completion takes must not matter.
	Stall bool `json:"stall,omitempty"`
	// filled in at execution, for the printed history only
	Code int    `json:"code,omitempty"`
	Note string `json:"note,omitempty"`
}

type c09Case struct {
	Short bool    `json:"shortLease"`
	Ops   []c09Op `json:"ops"`
}

type c09Sync struct {
	Job    bool
	Run    int
	ID     string
	Seen   map[string]bool
	Leased bool
}

type c09m struct {
	lease time.Duration // the hub's full sync lease (short-lease cases)
	f     fataler
	h     *WHub
	m     *kit.Model
	pool  *kit.Pool
	tomb  map[*kit.Ent]bool
	act   *c09Sync
	jobs  []int // started job runs whose completion has not been called
	runs  int
	cs    c09Case
	cls   map[string]bool
	dead  bool // a real-time precondition was not met: case discarded
	last  time.Time
	dump  string
	stale bool // some sync was superseded / expired / abandoned by a job end exclusion
	nt    bool
}

func newC09(f fataler, short bool) *c09m {
	o := kit.HubOpts{}
	if short {
		o.Lease = c09Lease
	}
	return newC09Lease(f, short, o)
}

func newC09Lease(f fataler, short bool, o kit.HubOpts) *c09m {
	c := &c09m{lease: o.Lease, f: f, h: NewWHub(o), m: kit.NewModel(), tomb: map[*kit.Ent]bool{}, cls: map[string]bool{}}
	c.cs.Short = short
	c.pool = c.h.Pool()
	for _, n := range []string{"d", "o"} {
		if _, err := c.h.Dsm.CreateDataset(n, nil); err != nil {
			f.Fatalf("VERIF-INFRA create dataset: %v", err)
		}
		c.m.Create(n)
	}
	c.dump = kit.DumpJSON(kit.Dump(c.h.Hub))
	return c
}

func (c *c09m) close() {
	// cancel a pending lease timer (not part of the history)
	if d := c.h.Dsm.GetDataset("d"); d != nil && d.FullSyncStarted() {
		_ = d.StartFullSync()
	}
	c.h.Close()
}

func (c *c09m) histJSON() string {
	var sb strings.Builder
	fmt.Fprintf(&sb, "shortLease=%v\n", c.cs.Short)
	for i, op := range c.cs.Ops {
		b, _ := json.Marshal(op)
		fmt.Fprintf(&sb, "%3d %s\n", i, b)
	}
	return sb.String()
}

func (c *c09m) fail(format string, a ...any) {
	c.f.Fatalf("%s\nVERIF-CASE-BEGIN\n%s\nVERIF-CASE-END", fmt.Sprintf(format, a...), c.histJSON())
}

// ---- timing soundness --------------------------------------------------------

// pre: before a step of a short-lease case in which the model believes a leased
// sync to be active, less than 40 % of the lease may have elapsed since the
// last refresh; otherwise the case is discarded (never failed).
func (c *c09m) pre() bool {
	if c.dead {
		return false
	}
	if c.cs.Short && c.act != nil && c.act.Leased && time.Since(c.last) > c.lease*40/100 {
		c.discard()
		return false
	}
	return true
}

// post: the request must have been processed well inside the lease it ran under.
func (c *c09m) post(wasLeased bool, lastBefore time.Time) bool {
	if c.cs.Short && wasLeased && time.Since(lastBefore) > c.lease*80/100 {
		c.discard()
		return false
	}
	return true
}

func (c *c09m) discard() {
	if !c.dead {
		c.dead = true
		kit.S().Inconcl()
		kit.S().AddExtra("timing_discarded_cases", 1)
	}
}

// ---- model -------------------------------------------------------------------

func (c *c09m) write(ents []*kit.Ent) {
	c.m.Write("d", ents)
	if c.act != nil {
		for _, e := range ents {
			if c.act.Seen[e.ID] && c.m.DS["d"].Latest[e.ID] != nil {
				c.cls["rewrite-in-sync"] = true
			}
			c.act.Seen[e.ID] = true
		}
	}
}

func (c *c09m) supersede() {
	if c.act != nil {
		c.stale = true
		if c.act.Job {
			c.cls["job-sync-superseded"] = true
		} else {
			c.cls["http-sync-superseded"] = true
		}
	}
}

func (c *c09m) complete() {
	d := c.m.DS["d"]
	del, kept := 0, 0
	for _, id := range kit.SortedKeys(d.Latest) {
		v := d.Latest[id]
		if v.Deleted {
			continue
		}
		if c.act.Seen[id] {
			kept++
			continue
		}
		tb := v.Clone()
		tb.Deleted = true
		d.Feed = append(d.Feed, tb)
		d.Latest[id] = tb
		c.tomb[tb] = true
		del++
	}
	if del >= 1 && kept >= 1 {
		c.nt = true
		c.cls["completed-deleted+kept"] = true
	}
	if del == 0 {
		c.cls["completed-nothing-to-delete"] = true
	}
	if c.act.Job {
		c.cls["job-sync-completed"] = true
	} else {
		c.cls["http-sync-completed"] = true
	}
	c.act = nil
}

// ---- steps -------------------------------------------------------------------

func (c *c09m) apply(op c09Op) {
	if c.dead {
		return
	}
	if c.stale {
		c.nt = true // a superseded / expired sync is followed by more requests
	}
	idx := len(c.cs.Ops)
	c.cs.Ops = append(c.cs.Ops, op)
	kit.Journal(c.cs)
	rec := &c.cs.Ops[idx]
	d := c.h.Dsm.GetDataset("d")
	if op.K != "expire" && !c.pre() {
		return
	}
	wasLeased := c.act != nil && c.act.Leased
	lastBefore := c.last
	t0 := time.Now()
	switch op.K {
	case "write":
		if err := c.h.StoreBatch("d", op.Ents, "store"); err != nil {
			c.fail("StoreEntities failed: %v", err)
		}
		if !c.post(wasLeased, lastBefore) {
			return
		}
		c.write(op.Ents)
		if c.act != nil {
			c.cls["plain-write-during-sync"] = true
		}
	case "txn":
		// a transaction (POST /transactions, ExecuteTransaction of a transform) writing to the dataset:
		// a write like any other - what it writes while a sync is active is part of that sync
		parts := map[string][]*kit.Ent{"d": op.Ents}
		if len(op.Other) > 0 {
			parts["o"] = op.Other
		}
		if err := c.h.Txn(parts, op.Run == 1); err != nil {
			c.fail("ExecuteTransaction failed: %v", err)
		}
		if !c.post(wasLeased, lastBefore) {
			return
		}
		c.write(op.Ents)
		c.m.Write("o", op.Other)
		if c.act != nil {
			c.cls["transaction-during-sync"] = true
		}
	case "other":
		if err := c.h.StoreBatch("o", op.Ents, "store"); err != nil {
			c.fail("StoreEntities failed: %v", err)
		}
		if !c.post(wasLeased, lastBefore) {
			return
		}
		c.m.Write("o", op.Ents)
	case "jobStart":
		if err := d.StartFullSync(); err != nil {
			c.fail("StartFullSync: %v", err)
		}
		c.supersede()
		c.act = &c09Sync{Job: true, Run: op.Run, Seen: map[string]bool{}}
		c.jobs = append(c.jobs, op.Run)
	case "jobEnd":
		c.dropJob(op.Run)
		mine := c.act != nil && c.act.Job && c.act.Run == op.Run
		switch {
		case !mine && kit.Known("F07"):
			// known finding F07: completion of a job-driven sync that is no longer
			// the active one (superseded by another start, expired through a lease
			// an id-less request gave it, or completed by an id-less end request)
			kit.S().Exclude("F07")
			rec.Note = "excluded F07"
			c.stale = true
			return
		case mine && c.act.Leased && kit.Known("F07b"):
			// known finding F07b: completion on the job path leaves the lease timer
			// of the sync running
			kit.S().Exclude("F07b")
			rec.Note = "excluded F07b"
			c.jobs = append(c.jobs, op.Run)
			return
		}
		if err := d.CompleteFullSync(context.Background()); err != nil {
			c.fail("CompleteFullSync: %v", err)
		}
		if !c.post(wasLeased, lastBefore) {
			return
		}
		if mine {
			c.complete()
		} else {
			// superseded / expired job sync: deletes nothing, and does not disturb
			// the sync that superseded it
			c.cls["stale-job-end"] = true
			c.stale = true
		}
	case "expire":
		if !c.cs.Short || c.act == nil || !c.act.Leased {
			rec.Note = "n/a"
			return
		}
		deadline := time.Now().Add(10 * time.Second)
		for d.FullSyncStarted() {
			if time.Now().After(deadline) {
				c.discard()
				rec.Note = "lease did not expire within 10s"
				return
			}
			time.Sleep(2 * time.Millisecond)
		}
		time.Sleep(5 * time.Millisecond) // let the lease goroutine finish its reset
		if c.act.Job {
			c.cls["job-sync-expired"] = true
		} else {
			c.cls["http-sync-expired"] = true
		}
		c.act = nil
		c.stale = true
	case "http":
		c.http(rec, t0, wasLeased, lastBefore)
	default:
		c.fail("VERIF-INFRA unknown op %q", op.K)
	}
	if c.dead {
		return
	}
	c.check()
}

func (c *c09m) dropJob(run int) {
	out := c.jobs[:0]
	for _, r := range c.jobs {
		if r != run {
			out = append(out, r)
		}
	}
	c.jobs = out
}

func (c *c09m) http(op *c09Op, t0 time.Time, wasLeased bool, lastBefore time.Time) {
	hdr := map[string]string{}
	if op.Sync != "" {
		hdr["universal-data-api-full-sync-id"] = op.Sync
	}
	if op.Start {
		hdr["universal-data-api-full-sync-start"] = "true"
	}
	if op.End {
		hdr["universal-data-api-full-sync-end"] = "true"
	}
	before := c.dump
	var stalledAt time.Time
	if op.Stall && op.End && c.cs.Short {
		verifhook.SetCallback("store.beforeIDCommit", func(int) {
			if !stalledAt.IsZero() {
				return
			}
			pcs := make([]uintptr, 32)
			frames := runtime.CallersFrames(pcs[:runtime.Callers(2, pcs)])
			for {
				fr, more := frames.Next()
				if strings.HasSuffix(fr.Function, ".CompleteFullSync") {
					stalledAt = time.Now()
					time.Sleep(c.lease * 5 / 2)
					return
				}
				if !more {
					return
				}
			}
		})
	}
	code, body := c.h.PostBatch("d", op.Ents, hdr)
	if op.Stall {
		verifhook.SetCallback("store.beforeIDCommit", nil)
	}
	op.Code = code
	if !stalledAt.IsZero() {
		// the completion was reached (the lease was released) this long after the request arrived;
		// everything after that is allowed to take as long as it likes
		c.cls["end-completion-stalled-beyond-the-lease"] = true
		if stalledAt.Sub(t0) > c.lease*50/100 { // (pre() made sure the request arrived early in the lease it refreshes)
			c.discard()
			return
		}
		c.last = time.Now() // nothing is leased any more; keeps the bookkeeping of the following steps sane
	} else {
		if !op.Start && !c.post(wasLeased, lastBefore) {
			return
		}
		if time.Since(t0) > c.lease*50/100 && c.cs.Short {
			c.discard() // the request itself took too long to reason about the lease
			return
		}
	}
	noEffect := func(why string) {
		after := kit.DumpJSON(kit.Dump(c.h.Hub))
		if after != before {
			var a, b map[string]any
			_ = json.Unmarshal([]byte(before), &b)
			_ = json.Unmarshal([]byte(after), &a)
			c.fail("REJECTED-WITH-EFFECT %s: request answered %d %s but the hub's read APIs changed:\n%s", why, code, strings.TrimSpace(body), kit.DumpDiff(b, a, 8))
		}
		c.cls["rejected-no-effect"] = true
	}
	a := c.act
	switch {
	case op.Start:
		if code != 200 {
			c.fail("START-REJECTED start of sync %q answered %d %s", op.Sync, code, body)
		}
		c.supersede()
		c.act = &c09Sync{ID: op.Sync, Seen: map[string]bool{}, Leased: true}
		c.last = t0
		c.write(op.Ents)
		if op.End {
			c.cls["start+end-in-one-request"] = true
			c.complete()
		}
	case a == nil && !op.End:
		if code != 200 {
			c.fail("PLAIN-BATCH-REJECTED no sync is active, batch (id %q) answered %d %s", op.Sync, code, body)
		}
		c.m.Write("d", op.Ents)
		if op.Sync != "" {
			c.cls["batch-with-stale-id-as-plain-write"] = true
		}
	case a == nil && op.End:
		// no sync active: the hub stores the entities and answers 410. Accepted
		// readings: stored as a plain write, or no effect. Never a deletion.
		c.cls["end-without-active-sync"] = true
		if code == 200 {
			c.cls["end-without-active-sync-200"] = true
		}
		if after := kit.DumpJSON(kit.Dump(c.h.Hub)); after != before {
			c.m.Write("d", op.Ents)
		}
	case !a.Job && op.Sync == a.ID, a.Job && op.Sync == "" && code == 200:
		if code != 200 {
			c.fail("MATCHING-BATCH-REJECTED batch of the active sync %q answered %d %s", a.ID, code, body)
		}
		if a.Job {
			c.cls["idless-batch-joins-job-sync"] = true
		}
		a.Leased = true
		c.last = t0
		c.write(op.Ents)
		if op.End {
			c.complete()
		}
	default:
		// foreign id, or a missing id while an http sync is active, or an id-less
		// request a job-driven sync did not take in
		if code == 200 {
			c.fail("FOREIGN-BATCH-ACCEPTED request with sync id %q answered 200 while sync %s is active", op.Sync, c.actStr())
		}
		switch {
		case op.Sync == "":
			c.cls["missing-id-rejected"] = true
		case op.End:
			c.cls["foreign-end-rejected"] = true
		default:
			c.cls["foreign-batch-rejected"] = true
		}
		noEffect(fmt.Sprintf("(sync id %q, active %s)", op.Sync, c.actStr()))
	}
}

func (c *c09m) actStr() string {
	switch {
	case c.act == nil:
		return "none"
	case c.act.Job:
		return fmt.Sprintf("job run %d", c.act.Run)
	}
	return fmt.Sprintf("http %q", c.act.ID)
}

// ---- oracle ------------------------------------------------------------------

func (c *c09m) check() {
	d := c.m.DS["d"]
	got, err := c.h.Latest("d", nil)
	if err != nil {
		c.fail("listing failed: %v", err)
	}
	seen := map[string]bool{}
	for _, e := range got {
		if seen[e.ID] {
			c.fail("LATEST-DUP %s listed twice", e.ID)
		}
		seen[e.ID] = true
		mv := d.Latest[e.ID]
		if mv == nil {
			c.fail("LATEST-EXTRA %s is listed but was never written", e.ID)
		}
		if mv.Deleted != e.Deleted {
			if e.Deleted {
				c.fail("WRONGLY-DELETED %s is deleted, the statement has it live (active sync: %s)\n impl =%s\n model=%s", e.ID, c.actStr(), e.Key(), mv.Key())
			}
			c.fail("NOT-DELETED %s is live, the completed sync did not contain it\n impl =%s\n model=%s", e.ID, e.Key(), mv.Key())
		}
		if !c.tomb[mv] && !kit.SameVersion(e, mv) {
			c.fail("LATEST-CONTENT %s\n impl =%s\n model=%s", e.ID, e.Key(), mv.Key())
		}
	}
	for id := range d.Latest {
		if !seen[id] {
			c.fail("LATEST-MISSING %s is not listed", id)
		}
	}
	// per-entity version sequences ("deleted exactly once")
	feed, _, err := c.h.Feed("d", 0, nil, false)
	if err != nil {
		c.fail("changes failed: %v", err)
	}
	gv := map[string][]*kit.Ent{}
	for _, e := range feed {
		gv[e.ID] = append(gv[e.ID], e)
	}
	mv := map[string][]*kit.Ent{}
	for _, e := range d.Feed {
		mv[e.ID] = append(mv[e.ID], e)
	}
	ids := map[string]bool{}
	for id := range gv {
		ids[id] = true
	}
	for id := range mv {
		ids[id] = true
	}
	for _, id := range kit.SortedKeys(ids) {
		g, m := gv[id], mv[id]
		if len(g) != len(m) {
			c.fail("VERSION-COUNT %s has %d versions in the change feed, the statement gives %d\n impl =%s\n model=%s", id, len(g), len(m), c09Keys(g), c09Keys(m))
		}
		for i := range g {
			if g[i].Deleted != m[i].Deleted || (!c.tomb[m[i]] && !kit.SameVersion(g[i], m[i])) {
				c.fail("VERSION-SEQUENCE %s version %d\n impl =%s\n model=%s", id, i, c09Keys(g), c09Keys(m))
			}
		}
	}
	// neighbour dataset untouched
	o := c.m.DS["o"]
	of, _, err := c.h.Feed("o", 0, nil, false)
	if err != nil {
		c.fail("changes(o) failed: %v", err)
	}
	if len(of) != len(o.Feed) {
		c.fail("OTHER-DATASET-CHANGED dataset o has %d changes, written were %d", len(of), len(o.Feed))
	}
	for i := range of {
		if !kit.SameVersion(of[i], o.Feed[i]) {
			c.fail("OTHER-DATASET-CHANGED o[%d] impl=%s model=%s", i, of[i].Key(), o.Feed[i].Key())
		}
	}
	c.dump = kit.DumpJSON(kit.Dump(c.h.Hub))
}

func c09Keys(es []*kit.Ent) string {
	var s []string
	for _, e := range es {
		s = append(s, e.Key())
	}
	return "[" + strings.Join(s, " ; ") + "]"
}

// ---- generators --------------------------------------------------------------

var c09SyncIDs = []string{"s1", "s2"}

func (c *c09m) genEnts(t *rapid.T, min, max int, ds string) []*kit.Ent {
	n := rapid.IntRange(min, max).Draw(t, "n")
	var out []*kit.Ent
	for i := 0; i < n; i++ {
		cfg := kit.GenCfg{NoNested: true, OnePred: true, MaxRefs: 1, DelPercent: 8}
		e := kit.GenEnt(t, c.pool, cfg, nil)
		if ds == "o" {
			e.Refs = map[string]any{}
		}
		if cur := c.m.DS[ds].Latest[e.ID]; cur != nil && !c.tomb[cur] && rapid.IntRange(0, 3).Draw(t, "same") == 0 {
			e = cur.Clone() // identical re-write: no new version, but seen
		}
		out = append(out, e)
	}
	return out
}

func (c *c09m) genSize(t *rapid.T) (int, int) {
	if rapid.IntRange(0, 11).Draw(t, "big") == 0 {
		return 11, 13 // crosses the handler's chunk size of 10
	}
	return 0, 3
}

func (c *c09m) genHTTP(t *rapid.T, kind string) c09Op {
	op := c09Op{K: "http"}
	lo, hi := c.genSize(t)
	switch kind {
	case "start":
		op.Start = true
		op.Sync = rapid.SampledFrom(c09SyncIDs).Draw(t, "sid")
		op.End = rapid.IntRange(0, 9).Draw(t, "startEnd") == 0
	default:
		// id: the active one (biased), a foreign one, or none
		cands := []string{"", "s1", "s2", "s3"}
		if c.act != nil && !c.act.Job && rapid.IntRange(0, 9).Draw(t, "own") < 6 {
			op.Sync = c.act.ID
		} else if c.act != nil && c.act.Job && rapid.IntRange(0, 9).Draw(t, "own") < 4 {
			op.Sync = ""
		} else {
			op.Sync = rapid.SampledFrom(cands).Draw(t, "sid")
		}
		op.End = kind == "end"
	}
	op.Ents = c.genEnts(t, lo, hi, "d")
	return op
}

func c09Actions(c *c09m) map[string]func(*rapid.T) {
	acts := map[string]func(*rapid.T){
		"start": func(t *rapid.T) { c.apply(c.genHTTP(t, "start")) },
		"batch": func(t *rapid.T) { c.apply(c.genHTTP(t, "batch")) },
		"end":   func(t *rapid.T) { c.apply(c.genHTTP(t, "end")) },
		"write": func(t *rapid.T) { c.apply(c09Op{K: "write", Ents: c.genEnts(t, 1, 3, "d")}) },
		"txn": func(t *rapid.T) {
			op := c09Op{K: "txn", Ents: c.genEnts(t, 1, 3, "d")}
			if rapid.Bool().Draw(t, "twoDatasets") {
				op.Other = c.genEnts(t, 1, 2, "o")
			}
			if rapid.Bool().Draw(t, "contextualStore") {
				op.Run = 1
			}
			c.apply(op)
		},
		"other": func(t *rapid.T) {
			if rapid.IntRange(0, 2).Draw(t, "rare") != 0 {
				t.Skip("rare")
			}
			c.apply(c09Op{K: "other", Ents: c.genEnts(t, 1, 2, "o")})
		},
		"jobStart": func(t *rapid.T) {
			if len(c.jobs) >= 2 {
				t.Skip("two job runs pending")
			}
			c.runs++
			c.apply(c09Op{K: "jobStart", Run: c.runs})
		},
		"jobEnd": func(t *rapid.T) {
			if len(c.jobs) == 0 {
				t.Skip("no job run pending")
			}
			c.apply(c09Op{K: "jobEnd", Run: rapid.SampledFrom(c.jobs).Draw(t, "run")})
		},
	}
	if c.cs.Short {
		acts["expire"] = func(t *rapid.T) {
			if c.act == nil || !c.act.Leased {
				t.Skip("no leased sync")
			}
			c.apply(c09Op{K: "expire"})
		}
	}
	return acts
}

func TestVerif_C09(t *testing.T) {
	defer kit.S().Flush()
	defer kit.CleanupScratch()
	if cs := c09LoadReplay(t); cs != nil {
		c09Replay(t, cs)
		return
	}
	rapid.Check(t, func(t *rapid.T) {
		short := rapid.IntRange(0, 9).Draw(t, "shortLease") < 4
		c := newC09(t, short)
		defer c.close()
		defer func() {
			cls := kit.SortedKeys(c.cls)
			if c.cs.Short {
				cls = append(cls, "short-lease")
			} else {
				cls = append(cls, "long-lease")
			}
			if !c.dead {
				kit.S().Case(c.cs, c.nt, cls...)
			}
			kit.JournalDone()
		}()
		// seed content so that a sync has something to delete and to keep
		c.apply(c09Op{K: "write", Ents: c.genEnts(t, 2, 5, "d")})
		t.Repeat(c09Actions(c))
	})
}

func c09LoadReplay(t *testing.T) *c09Case {
	p := os.Getenv("VERIF_REPLAY_CASE")
	if p == "" {
		return nil
	}
	b, err := os.ReadFile(p)
	if err != nil {
		t.Fatalf("VERIF-INFRA cannot read replay case: %v", err)
	}
	cs := &c09Case{}
	if err := json.Unmarshal(b, cs); err != nil {
		t.Fatalf("VERIF-INFRA cannot parse replay case: %v", err)
	}
	return cs
}

func c09Replay(t *testing.T, cs *c09Case) *c09m {
	c := newC09(t, cs.Short)
	defer c.close()
	for _, op := range cs.Ops {
		op.Code, op.Note = 0, ""
		c.apply(op)
	}
	if c.dead {
		t.Logf("VERIF-INFRA replay inconclusive: a real-time precondition was not met")
	}
	return c
}

// TestVerifProbe_F07: a job-driven sync that was superseded by an HTTP start
// still tombstones at its completion (the job path carries no sync identity).
func TestVerifProbe_F07(t *testing.T) {
	c := newC09(t, false)
	t.Cleanup(func() { c.close(); kit.CleanupScratch() })
	a := c.h.P[0]
	e := func(i int, v string) *kit.Ent {
		return ent(fmt.Sprintf("%s:e%d", a, i), map[string]any{a + ":p0": v}, nil, false)
	}
	c.apply(c09Op{K: "write", Ents: []*kit.Ent{e(0, "a"), e(1, "a")}})
	c.apply(c09Op{K: "jobStart", Run: 1})
	c.apply(c09Op{K: "write", Ents: []*kit.Ent{e(1, "b")}})
	c.apply(c09Op{K: "http", Start: true, Sync: "s1", Ents: []*kit.Ent{e(2, "a")}})
	c.apply(c09Op{K: "jobEnd", Run: 1}) // superseded: must delete nothing
	c.apply(c09Op{K: "http", Sync: "s1", Ents: []*kit.Ent{e(0, "b")}})
	c.apply(c09Op{K: "http", Sync: "s1", End: true}) // s1 completes: e1 deleted once, e0 and e2 live
}

// TestVerifProbe_F07b: completing a job-driven sync that holds a lease (an
// id-less HTTP batch joined it) leaves the lease timer running; when it fires it
// resets the state of the NEXT job-driven sync, whose completion then
// tombstones entities that sync wrote.
func TestVerifProbe_F07b(t *testing.T) {
	c := newC09(t, true)
	t.Cleanup(func() { c.close(); kit.CleanupScratch() })
	a := c.h.P[0]
	e := func(i int, v string) *kit.Ent {
		return ent(fmt.Sprintf("%s:e%d", a, i), map[string]any{a + ":p0": v}, nil, false)
	}
	c.apply(c09Op{K: "write", Ents: []*kit.Ent{e(0, "a"), e(1, "a")}})
	c.apply(c09Op{K: "jobStart", Run: 1})
	c.apply(c09Op{K: "http", Ents: []*kit.Ent{e(0, "b")}}) // id-less batch joins the job sync and starts a lease
	c.apply(c09Op{K: "jobEnd", Run: 1})                    // completes: e1 deleted
	c.apply(c09Op{K: "jobStart", Run: 2})
	c.apply(c09Op{K: "write", Ents: []*kit.Ent{e(0, "c")}})
	time.Sleep(c09Lease + 50*time.Millisecond) // the first sync's timer fires now
	c.apply(c09Op{K: "write", Ents: []*kit.Ent{e(2, "c")}})
	c.apply(c09Op{K: "jobEnd", Run: 2}) // must keep e0 and e2
	if c.dead {
		t.Skip("timing precondition not met")
	}
}

var _ = sort.Strings

// C09 at a size the small pool cannot reach: a completed full sync that has to
// delete around a thousand entities (the deletion pass works in batches of
// 1000). N live entities, a sync (HTTP or job driven) that contains only a few
// of them, completion: every other live entity is marked deleted exactly once.
func TestVerif_C09_large(t *testing.T) {
	defer kit.S().Flush()
	defer kit.CleanupScratch()
	if os.Getenv("VERIF_REPLAY_CASE") != "" {
		return
	}
	rapid.Check(t, func(t *rapid.T) {
		// stall: short lease, and the deletion pass of the completing request is held up for 2.5
		// leases at its first write (which, with >= 1000 deletions, lies in the middle of the pass)
		stall := rapid.IntRange(0, 2).Draw(t, "stall") == 0
		c := newC09(t, false)
		if stall {
			// the read-back between two steps takes far longer than the usual short lease with
			// thousands of entities: a lease of 2 s (the completion is then held up for 5 s)
			c.close()
			c = newC09Lease(t, true, kit.HubOpts{Lease: 2 * time.Second})
		}
		defer func() { c.close() }()
		n := rapid.SampledFrom([]int{999, 1000, 1001, 1002, 1500, 2001, 2010, 3005}).Draw(t, "n")
		kept := rapid.IntRange(0, 12).Draw(t, "kept")
		job := rapid.Bool().Draw(t, "job")
		if stall {
			// the completion's first write must lie inside its pass (>= 1000 deletions), with kept
			// entities on both sides of it
			job = false
			n = rapid.SampledFrom([]int{1500, 2001, 2010, 3005}).Draw(t, "nStall")
			kept = rapid.IntRange(2, 12).Draw(t, "keptStall")
		}
		p := c.h.P[0]
		mk := func(i int, v string) *kit.Ent {
			return ent(fmt.Sprintf("%s:L%d", p, i), map[string]any{p + ":p0": v}, nil, false)
		}
		for from := 0; from < n; from += 400 {
			var es []*kit.Ent
			for i := from; i < from+400 && i < n; i++ {
				es = append(es, mk(i, "v0"))
			}
			c.apply(c09Op{K: "write", Ents: es})
		}
		var keep []*kit.Ent
		for i := 0; i < kept; i++ {
			if stall && i%2 == 0 {
				keep = append(keep, mk(n-1-rapid.IntRange(0, n-1100).Draw(t, "keepLate"), "v1"))
				continue
			}
			keep = append(keep, mk(rapid.IntRange(0, n-1).Draw(t, "keep"), "v1"))
		}
		if job {
			c.apply(c09Op{K: "jobStart", Run: 1})
			if len(keep) > 0 {
				c.apply(c09Op{K: "write", Ents: keep})
			}
			c.apply(c09Op{K: "jobEnd", Run: 1})
		} else {
			c.apply(c09Op{K: "http", Sync: "big", Start: true, Ents: keep})
			c.apply(c09Op{K: "http", Sync: "big", End: true, Stall: stall})
		}
		if c.dead {
			return
		}
		kit.S().Case(map[string]any{"large": n, "kept": kept, "job": job, "stall": stall}, true, "large-sync", fmt.Sprintf("large-stalled-completion-%v", stall), fmt.Sprintf("large-deletes>=%d", (n-kept)/1000*1000))
		kit.JournalDone()
	})
}
