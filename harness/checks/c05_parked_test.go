package verifchecks

// C05 part "parked": a forced schedule. A multi-dataset transaction is held
// at a point after it has staged its writes and before they are committed
// (hook points txn.beforeIDCommit / txn.afterIDCommit). While it is parked a
// second client stores a batch into one of its datasets and a reader reads
// that dataset's feed and latest view. Whatever the reader saw must be a
// state between two commits of the final history: its feed page a prefix of
// the final feed, every entry at its final position ("writers serialize per
// dataset", "a feed page never observes part of a transaction"). With the
// dataset write lock held until the transaction is committed the second client
// simply waits; the check does not depend on that, only on what readers see.

import (
	"fmt"
	"sync"
	"testing"
	"time"

	"pgregory.net/rapid"

	"github.com/mimiro-io/datahub/internal/verifhook"
	kit "github.com/mimiro-io/datahub/internal/verifkit"
)

type c05ParkedCase struct {
	Point string                `json:"point"`
	Txn   map[string][]*kit.Ent `json:"txn"`
	DS    string                `json:"batchDataset"`
	Batch []*kit.Ent            `json:"batch"`
	Ctx   bool                  `json:"ctx"`
}

func TestVerif_C05_parked(t *testing.T) {
	defer kit.S().Flush()
	defer kit.CleanupScratch()
	rapid.Check(t, func(t *rapid.T) {
		pool := (&kit.Hub{P: poolPrefixes()}).Pool()
		mk := func(stamp string) *kit.Ent {
			return &kit.Ent{ID: rapid.SampledFrom(pool.IDs[:4]).Draw(t, "id"), Props: map[string]any{pool.Keys[0]: stamp}, Refs: map[string]any{}}
		}
		cs := &c05ParkedCase{Point: rapid.SampledFrom([]string{"txn.beforeIDCommit", "txn.afterIDCommit"}).Draw(t, "point"),
			Txn: map[string][]*kit.Ent{}, Ctx: rapid.Bool().Draw(t, "ctx")}
		perm := rapid.Permutation(c05Datasets).Draw(t, "perm")
		for i, ds := range perm[:rapid.IntRange(2, 3).Draw(t, "nds")] {
			for k := rapid.IntRange(1, 2).Draw(t, "n"); k > 0; k-- {
				cs.Txn[ds] = append(cs.Txn[ds], mk(fmt.Sprintf("txn-%d-%d", i, k)))
			}
		}
		cs.DS = perm[rapid.IntRange(0, 1).Draw(t, "batchDS")]
		for k := rapid.IntRange(1, 2).Draw(t, "bn"); k > 0; k-- {
			cs.Batch = append(cs.Batch, mk(fmt.Sprintf("batch-%d", k)))
		}
		kit.Journal(cs)
		defer kit.JournalDone()
		h := NewWHub(kit.HubOpts{})
		defer h.Close()
		fail := func(format string, a ...any) { c16Fail(t, cs, format, a...) }
		for _, ds := range c05Datasets {
			if _, err := h.Dsm.CreateDataset(ds, nil); err != nil {
				t.Fatalf("VERIF-INFRA create: %v", err)
			}
			// something to be there before
			if err := h.StoreBatch(ds, []*kit.Ent{{ID: pool.IDs[0], Props: map[string]any{pool.Keys[0]: "base-" + ds}, Refs: map[string]any{}}}, "store"); err != nil {
				t.Fatalf("VERIF-INFRA write: %v", err)
			}
		}
		parked, release := make(chan struct{}), make(chan struct{})
		var once sync.Once
		verifhook.Reset()
		verifhook.SetCallback(cs.Point, func(int) {
			once.Do(func() {
				close(parked)
				select {
				case <-release:
				case <-time.After(20 * time.Second):
				}
			})
		})
		defer verifhook.Reset()
		txnDone, batchDone := make(chan error, 1), make(chan error, 1)
		go func() { txnDone <- h.Txn(cs.Txn, cs.Ctx) }()
		select {
		case <-parked:
		case err := <-txnDone:
			t.Fatalf("VERIF-INFRA the transaction never reached %s (returned %v)", cs.Point, err)
		case <-time.After(20 * time.Second):
			t.Fatalf("VERIF-INFRA the transaction never reached %s", cs.Point)
		}
		go func() { batchDone <- h.StoreBatch(cs.DS, cs.Batch, "store") }()
		overtook := false
		select {
		case err := <-batchDone:
			overtook = true
			batchDone <- err
		case <-time.After(30 * time.Millisecond):
		}
		page, _, err := h.Feed(cs.DS, 0, nil, false)
		if err != nil {
			fail("feed read while the transaction is parked: %v", err)
		}
		listed, err := h.Latest(cs.DS, nil)
		if err != nil {
			fail("listing while the transaction is parked: %v", err)
		}
		close(release)
		if err := <-txnDone; err != nil {
			fail("ExecuteTransaction: %v", err)
		}
		if err := <-batchDone; err != nil {
			fail("StoreEntities: %v", err)
		}
		final, _, err := h.Feed(cs.DS, 0, nil, false)
		if err != nil {
			fail("final feed: %v", err)
		}
		var fs, ps []string
		for _, e := range final {
			fs = append(fs, stampOf(e))
		}
		for i, e := range page {
			ps = append(ps, stampOf(e))
			if i >= len(final) || stampOf(final[i]) != stampOf(e) {
				fail("READ-FEED-NOT-PREFIX ds=%s: while a transaction on the dataset was between staging and commit (%s) a reader got the feed %v..., the final feed is %v: entry %d is not where the reader saw it (a reader following its token never gets what was committed below it)", cs.DS, cs.Point, ps, fs, i)
			}
		}
		// the listing the reader saw is the fold of the feed prefix it could have seen
		want := map[string]string{}
		for _, e := range final[:len(page)] {
			want[e.ID] = stampOf(e)
		}
		for _, e := range listed {
			if w, ok := want[e.ID]; ok && w != stampOf(e) {
				// a listing taken a moment after the page may already be further: accept any later version
				later := false
				for _, f := range final[len(page):] {
					later = later || (f.ID == e.ID && stampOf(f) == stampOf(e))
				}
				if !later {
					fail("READ-LIST ds=%s: listing taken while the transaction was parked shows %s=%s, which is neither the state of the feed page read just before nor a later one", cs.DS, e.ID, stampOf(e))
				}
			}
		}
		cls := []string{"parked", "parked-" + cs.Point}
		if overtook {
			cls = append(cls, "second-writer-did-not-wait")
		} else {
			cls = append(cls, "second-writer-waited")
		}
		kit.S().Case(cs, len(cs.Txn[cs.DS]) > 0, cls...)
	})
}
