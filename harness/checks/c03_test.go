package verifchecks

import (
	"testing"

	"pgregory.net/rapid"

	kit "github.com/mimiro-io/datahub/internal/verifkit"
)

// C03: relationship queries equal the graph implied by the latest versions.
// The generator is biased to references (up to 3 reference keys per entity,
// single and array values, several predicates between the same pair). After
// every write every start x predicate-or-* x direction x scope is compared with
// the model, the implementation's outgoing and incoming answers are checked to
// be each other's transpose, and paged queries (store API and POST /query)
// must return the same set with no pair twice.
func TestVerif_C03(t *testing.T) {
	defer kit.S().Flush()
	defer kit.CleanupScratch()
	if ops := loadReplayOps(t); ops != nil {
		replayGraph(t, ops, c03Oracle)
		return
	}
	rapid.Check(t, func(t *rapid.T) {
		g := newGM(t, []string{"a", "b", "c"}, kit.GenCfg{MaxRefs: 3, NoNested: true})
		defer g.close()
		defer func() {
			nt := g.has("multi-pred-same-pair", "id-in-2-datasets-different-delete-state", "refs-changed")
			kit.S().Case(g.hist, nt && len(g.hist) > 0, g.classes()...)
			kit.JournalDone()
		}()
		t.Repeat(map[string]func(*rapid.T){
			"batch":         func(t *rapid.T) { g.t = t; g.applyBatch(g.genBatchOp()) },
			"rejectedBatch": g.rejectedBatchAction(),
			"txn":           func(t *rapid.T) { g.t = t; g.applyTxn(g.genTxnOp()) },
			"pagedQuery": func(t *rapid.T) {
				g.t = t
				op := Op{K: "pagedQuery",
					ID:     rapid.SampledFrom(g.pool.IDs).Draw(t, "start"),
					Pred:   rapid.SampledFrom(append([]string{"*", "*"}, g.pool.Preds...)).Draw(t, "pred"),
					Inv:    rapid.Bool().Draw(t, "inv"),
					Scope:  rapid.SampledFrom(g.scopes()).Draw(t, "scope"),
					Limits: kit.GenLimits(t, false),
					Lo:     rapid.Bool().Draw(t, "http"),
				}
				if len(op.Limits) == 0 {
					op.Limits = []int{1}
				}
				g.record(op)
				g.checkRelated(op.ID, op.Pred, op.Inv, op.Scope, op.Limits, op.Lo)
			},
			"": func(t *rapid.T) { g.t = t; c03Oracle(g) },
		})
	})
}

func c03Oracle(g *gm) {
	g.sweepRelations()
	// paged sweep with limit 1 for "*" in both directions, unscoped
	for _, id := range g.pool.IDs {
		g.checkRelated(id, "*", false, nil, []int{1}, false)
		g.checkRelated(id, "*", true, nil, []int{1}, false)
		g.checkRelated(id, "*", true, nil, []int{2}, true)
	}
}
