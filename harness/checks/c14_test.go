package verifchecks

import (
	"context"
	"encoding/json"
	"fmt"
	"os"
	"path/filepath"
	"reflect"
	"sort"
	"sync"
	"testing"
	"time"

	"github.com/DataDog/datadog-go/v5/statsd"
	"go.uber.org/zap"
	"pgregory.net/rapid"

	kit "github.com/mimiro-io/datahub/internal/verifkit"

	"github.com/mimiro-io/datahub/internal/conf"
	"github.com/mimiro-io/datahub/internal/jobs"
	"github.com/mimiro-io/datahub/internal/security"
	"github.com/mimiro-io/datahub/internal/server"
)

// fhub is a whole hub: storage + HTTP handlers + job scheduler + security core
// + login providers, as app.go wires them.
type fhub struct {
	*WHub
	Sched *jobs.Scheduler
	Core  *security.ServiceCore
	PM    *security.ProviderManager
}

var (
	keyTemplateOnce sync.Once
	keyTemplateDir  string
)

// keyTemplate generates the node key pair once per process (RSA-4096 keygen
// takes seconds); cases copy the key files into their own security directory.
func keyTemplate() string {
	keyTemplateOnce.Do(func() {
		keyTemplateDir = kit.NewDir("keys")
		security.NewServiceCore(&conf.Config{Logger: zap.NewNop().Sugar(), SecurityStorageLocation: keyTemplateDir, NodeID: "node1"})
	})
	return keyTemplateDir
}

func newFHub() *fhub {
	f := &fhub{WHub: NewWHub(kit.HubOpts{})}
	sec := filepath.Join(f.Dir, "security")
	_ = os.MkdirAll(sec, 0o755)
	for _, n := range []string{"node_key", "node_key.pub"} {
		b, err := os.ReadFile(filepath.Join(keyTemplate(), n))
		if err != nil {
			panic("VERIF-INFRA key template: " + err.Error())
		}
		_ = os.WriteFile(filepath.Join(sec, n), b, 0o600)
	}
	f.wireFull()
	return f
}

func (f *fhub) wireFull() {
	log := zap.NewNop().Sugar()
	f.Env.SecurityStorageLocation = filepath.Join(f.Dir, "security")
	f.Env.NodeID = "node1"
	f.Core = security.NewServiceCore(f.Env)
	f.PM = security.NewProviderManager(f.Env, f.Store, log)
	tps := security.NewTokenProviders(log, f.PM, f.Core)
	runner := jobs.NewRunner(f.Env, f.Store, tps, server.NoOpBus(), &statsd.NoOpClient{})
	f.Sched = jobs.NewScheduler(f.Env, f.Store, f.Dsm, runner)
}

func (f *fhub) restartFull() {
	_ = f.Sched.Stop(context.Background())
	f.WHub.Restart()
	f.wireFull()
}

func (f *fhub) closeFull() {
	_ = f.Sched.Stop(context.Background())
	f.WHub.Close()
}

func canonJSON(v any) any {
	b, err := json.Marshal(v)
	if err != nil {
		return "ERR: " + err.Error()
	}
	var out any
	_ = json.Unmarshal(b, &out)
	return out
}

// fullDump is everything the hub reports through its read APIs.
func (f *fhub) fullDump() map[string]any {
	d := kit.Dump(f.Hub)
	tokens := map[string]any{}
	for _, n := range f.DatasetNames() {
		_, tok, err := f.Feed(n, 0, nil, false)
		if err != nil {
			tokens[n] = "ERR: " + err.Error()
		} else {
			tokens[n] = fmt.Sprint(tok)
		}
	}
	d["feedEndTokens"] = tokens
	// dataset settings: the public namespaces a dataset works with and the context it serves
	pub, served := map[string]any{}, map[string]any{}
	for _, n := range f.DatasetNames() {
		if ds := f.Dsm.GetDataset(n); ds != nil {
			l := append([]string{}, ds.PublicNamespaces...)
			sort.Strings(l)
			pub[n] = l
		}
		if code, body := f.Do("GET", "/datasets/"+n+"/entities?limit=1", "", nil); code == 200 {
			if _, _, ctx, err := parseCollection(body); err == nil {
				served[n] = ctx
			} else {
				served[n] = "ERR: " + err.Error()
			}
		} else {
			served[n] = fmt.Sprintf("HTTP %d", code)
		}
	}
	d["publicNamespaces"] = pub
	d["servedContext"] = served
	kinds := map[string]any{}
	for _, n := range f.DatasetNames() {
		if ds := f.Dsm.GetDataset(n); ds != nil {
			k := map[string]any{"proxy": ds.IsProxy(), "virtual": ds.IsVirtual()}
			if ds.ProxyConfig != nil {
				k["proxyConfig"] = canonJSON(ds.ProxyConfig)
			}
			if ds.VirtualDatasetConfig != nil {
				k["virtualConfig"] = canonJSON(ds.VirtualDatasetConfig)
			}
			kinds[n] = k
		}
	}
	d["datasetKinds"] = kinds
	jl := f.Sched.ListJobs()
	sort.Slice(jl, func(i, j int) bool { return jl[i].ID < jl[j].ID })
	d["jobs"] = canonJSON(jl)
	states := map[string]any{}
	for _, j := range jl {
		st, err := f.Sched.GetJobState(j.ID)
		if err != nil {
			states[j.ID] = "ERR: " + err.Error()
		} else {
			states[j.ID] = canonJSON(st)
		}
	}
	d["jobStates"] = states
	hist := f.Sched.GetJobHistory()
	hs := map[string]any{}
	for _, r := range hist {
		c := canonJSON(r)
		if m, ok := c.(map[string]any); ok {
			hs[fmt.Sprint(m["id"])] = m
		}
	}
	d["jobHistory"] = hs
	d["clients"] = canonJSON(f.Core.GetClients())
	d["acls"] = canonJSON(f.Core.GetAllAccessControls())
	provs, err := f.PM.ListProviders()
	if err != nil {
		d["providers"] = "ERR: " + err.Error()
	} else {
		sort.Slice(provs, func(i, j int) bool { return provs[i].Name < provs[j].Name })
		d["providers"] = canonJSON(provs)
	}
	// GET /namespaces and GET /datasets through the handlers
	_, ns := f.Do("GET", "/namespaces", "", nil)
	d["httpNamespaces"] = canonJSONString(ns)
	_, dl := f.Do("GET", "/datasets", "", nil)
	d["httpDatasets"] = canonJSONString(dl)
	return canonJSON(d).(map[string]any)
}

func canonJSONString(s string) any {
	var v any
	if err := json.Unmarshal([]byte(s), &v); err != nil {
		return s
	}
	return v
}

// diffDump returns the first paths at which two dumps differ.
func diffDump(a, b any, path string, out *[]string) {
	if len(*out) >= 6 {
		return
	}
	switch x := a.(type) {
	case map[string]any:
		y, ok := b.(map[string]any)
		if !ok {
			*out = append(*out, fmt.Sprintf("%s: %v != %v", path, trunc(a), trunc(b)))
			return
		}
		keys := map[string]bool{}
		for k := range x {
			keys[k] = true
		}
		for k := range y {
			keys[k] = true
		}
		for _, k := range kit.SortedKeys(keys) {
			xv, xo := x[k]
			yv, yo := y[k]
			if !xo || !yo {
				bs, as := trunc(xv), trunc(yv)
				if !xo {
					bs = "<absent>"
				}
				if !yo {
					as = "<absent>"
				}
				*out = append(*out, fmt.Sprintf("%s/%s: before=%v after=%v", path, k, bs, as))
				continue
			}
			diffDump(xv, yv, path+"/"+k, out)
		}
	case []any:
		y, ok := b.([]any)
		if !ok || len(x) != len(y) {
			*out = append(*out, fmt.Sprintf("%s: before=%v after=%v", path, trunc(a), trunc(b)))
			return
		}
		for i := range x {
			diffDump(x[i], y[i], fmt.Sprintf("%s[%d]", path, i), out)
		}
	default:
		if !reflect.DeepEqual(a, b) {
			*out = append(*out, fmt.Sprintf("%s: before=%v after=%v", path, trunc(a), trunc(b)))
		}
	}
}

func trunc(v any) string {
	s := fmt.Sprint(v)
	if b, err := json.Marshal(v); err == nil {
		s = string(b)
	}
	if len(s) > 300 {
		return s[:300] + "..."
	}
	return s
}

// C14: stopping and starting the hub is observably a no-op.
func TestVerif_C14(t *testing.T) {
	defer kit.S().Flush()
	defer kit.CleanupScratch()
	rapid.Check(t, func(t *rapid.T) {
		f := newFHub()
		g := &gm{t: t, f: t, h: f.WHub, m: kit.NewModel(), names: nil, gen: kit.GenCfg{MaxRefs: 2}, cls: map[string]bool{}}
		g.pool = f.Pool()
		defer f.closeFull()
		g.applyCreate(Op{K: "create", Name: "a", Via: "dsm"})
		g.applyCreate(Op{K: "create", Name: "b", Via: "dsm"})
		paths := map[string]bool{}
		restarts := 0
		pathsBeforeRestart := 0
		jobIDs := []string{"job-1", "job-2", "job-3"}
		clients := []string{"client-1", "client-2", "client-3"}
		defer func() {
			kit.S().Case(g.hist, restarts >= 1 && pathsBeforeRestart >= 3, append(g.classes(), kit.SortedKeys(paths)...)...)
			kit.JournalDone()
		}()
		acts := g.mgmtActions(false, false)
		wrap := func(name string, path string) {
			inner := acts[name]
			acts[name] = func(t *rapid.T) { inner(t); paths["path:"+path] = true }
		}
		wrap("batch", "entities+ids+sequences")
		wrap("txn", "entities+ids+sequences")
		wrap("create", "dataset-records+next-dataset-id")
		wrap("delete", "deleted-set")
		wrap("rename", "dataset-records")
		// first use of a namespace by a READ: a lookup or relation query by full URI in a namespace the hub
		// has not seen hands out a prefix (visible in GET /namespaces and every @context) - it has to be
		// the same prefix after a restart
		acts["readNewNamespace"] = func(t *rapid.T) {
			g.t = t
			k := rapid.IntRange(0, 5).Draw(t, "ns")
			uri := fmt.Sprintf("http://fresh.example/read%d/x", k)
			how := rapid.IntRange(0, 2).Draw(t, "how")
			g.record(Op{K: "readNewNamespace", ID: uri, N: how})
			switch how {
			case 0:
				_, _ = f.Lookup(uri, nil)
			case 1:
				_, _ = f.Do("POST", "/query", `{"entityId":"`+uri+`"}`, nil)
			default:
				_, _, _ = f.Related(uri, "*", false, nil, nil)
			}
			paths["path:namespaces-by-read"] = true
		}
		acts["addJob"] = func(t *rapid.T) {
			g.t = t
			id := rapid.SampledFrom(jobIDs).Draw(t, "job")
			cfg := genJobConfig(t, id, g.live())
			g.record(Op{K: "addJob", Name: id, ID: string(cfg)})
			jc, err := f.Sched.Parse(cfg)
			if err != nil {
				g.fail("job config does not parse: %v", err)
			}
			if err := f.Sched.AddJob(jc); err != nil {
				kit.S().Class("job-rejected", 1)
				return
			}
			paths["path:job-config"] = true
		}
		acts["pauseJob"] = func(t *rapid.T) {
			g.t = t
			id := rapid.SampledFrom(jobIDs).Draw(t, "job")
			pause := rapid.Bool().Draw(t, "pause")
			if !f.jobExists(id) {
				t.Skip("no such job")
			}
			g.record(Op{K: "pauseJob", Name: id, Lo: pause})
			var err error
			if pause {
				err = f.Sched.PauseJob(id)
			} else {
				err = f.Sched.UnpauseJob(id)
			}
			if err == nil {
				paths["path:job-paused-flag"] = true
			}
		}
		acts["deleteJob"] = func(t *rapid.T) {
			g.t = t
			id := rapid.SampledFrom(jobIDs).Draw(t, "job")
			if !f.jobExists(id) {
				t.Skip("no such job")
			}
			g.record(Op{K: "deleteJob", Name: id})
			_ = f.Sched.DeleteJob(id)
		}
		acts["runJob"] = func(t *rapid.T) {
			g.t = t
			id := rapid.SampledFrom(jobIDs).Draw(t, "job")
			if !f.jobExists(id) {
				t.Skip("no such job")
			}
			g.record(Op{K: "runJob", Name: id})
			if _, err := f.Sched.RunJob(id, jobs.JobTypeIncremental); err != nil {
				return
			}
			// wait until the run has ended and its result is stored (bounded; inconclusive beyond)
			deadline := time.Now().Add(10 * time.Second)
			for time.Now().Before(deadline) {
				if f.Sched.GetRunningJob(id) == nil {
					time.Sleep(20 * time.Millisecond)
					if f.Sched.GetRunningJob(id) == nil {
						paths["path:job-state-token"] = true
						return
					}
				}
				time.Sleep(5 * time.Millisecond)
			}
			kit.S().Inconcl()
			t.Skip("job did not finish within the watchdog (inconclusive)")
		}
		acts["registerClient"] = func(t *rapid.T) {
			g.t = t
			id := rapid.SampledFrom(clients).Draw(t, "client")
			del := rapid.IntRange(0, 4).Draw(t, "deleted") == 0
			g.record(Op{K: "registerClient", Name: id, Lo: del})
			f.Core.RegisterClient(&security.ClientInfo{ClientID: id, PublicKey: []byte("pk-" + id), Deleted: del})
			paths["path:clients.json"] = true
		}
		acts["setACL"] = func(t *rapid.T) {
			g.t = t
			id := rapid.SampledFrom(clients).Draw(t, "client")
			n := rapid.IntRange(0, 3).Draw(t, "n")
			var acls []*security.AccessControl
			for i := 0; i < n; i++ {
				acls = append(acls, &security.AccessControl{
					Resource: rapid.SampledFrom([]string{"/datasets/a", "/datasets/*", "/jobs", "/*"}).Draw(t, "res"),
					Action:   rapid.SampledFrom([]string{"read", "write"}).Draw(t, "act"),
					Deny:     rapid.Bool().Draw(t, "deny"),
				})
			}
			g.record(Op{K: "setACL", Name: id, N: n})
			f.Core.SetClientAccessControls(id, acls)
			paths["path:acls.json"] = true
		}
		acts["deleteACL"] = func(t *rapid.T) {
			g.t = t
			id := rapid.SampledFrom(clients).Draw(t, "client")
			g.record(Op{K: "deleteACL", Name: id})
			f.Core.DeleteClientAccessControls(id)
			paths["path:acls.json"] = true
		}
		acts["provider"] = func(t *rapid.T) {
			g.t = t
			name := rapid.SampledFrom([]string{"prov-1", "prov-2"}).Draw(t, "prov")
			if rapid.IntRange(0, 3).Draw(t, "del") == 0 {
				g.record(Op{K: "deleteProvider", Name: name})
				_ = f.PM.DeleteProvider(name)
			} else {
				g.record(Op{K: "addProvider", Name: name})
				_ = f.PM.AddProvider(security.ProviderConfig{Name: name, Type: "basic",
					User:     &security.ValueReader{Type: "text", Value: rapid.SampledFrom([]string{"u1", "u2"}).Draw(t, "user")},
					Password: &security.ValueReader{Type: "text", Value: "pw"}})
			}
			paths["path:login-providers"] = true
		}
		acts["restart"] = func(t *rapid.T) {
			g.t = t
			g.record(Op{K: "restart"})
			// incoming answers in known finding F04's input shape are nondeterministic (left out, counted)
			f04 := (&c20m{g: g}).f04Targets()
			before := c20DropF04(f.fullDump(), f04)
			f.restartFull()
			g.h = f.WHub
			after := c20DropF04(f.fullDump(), f04)
			if !reflect.DeepEqual(before, after) {
				var diffs []string
				diffDump(before, after, "", &diffs)
				g.fail("RESTART-NOT-A-NOOP: read APIs answer differently after close+reopen:\n  %s", joinLines(diffs))
			}
			restarts++
			if len(paths) > pathsBeforeRestart {
				pathsBeforeRestart = len(paths)
			}
			g.cls["restart"] = true
		}
		acts[""] = func(t *rapid.T) {
			g.t = t
			// writes after a restart behave as if it had not happened: the model keeps running
			c07Oracle(g)
		}
		t.Repeat(acts)
		// final: restart once more and compare, then raw consistency
		f04 := (&c20m{g: g}).f04Targets()
		before := c20DropF04(f.fullDump(), f04)
		f.restartFull()
		g.h = f.WHub
		after := c20DropF04(f.fullDump(), f04)
		if !reflect.DeepEqual(before, after) {
			var diffs []string
			diffDump(before, after, "", &diffs)
			g.fail("RESTART-NOT-A-NOOP (final): %s", joinLines(diffs))
		}
		restarts++
		if len(paths) > pathsBeforeRestart {
			pathsBeforeRestart = len(paths)
		}
		if v := kit.RawScan(f.Hub, true); len(v) > 0 {
			g.fail("RAW-INCONSISTENT after restart: %s", joinLines(v))
		}
	})
}

func joinLines(s []string) string {
	out := ""
	for _, l := range s {
		out += "\n  " + l
	}
	return out
}

func (f *fhub) jobExists(id string) bool {
	for _, j := range f.Sched.ListJobs() {
		if j.ID == id {
			return true
		}
	}
	return false
}

// genJobConfig draws a job definition from the shapes the scheduler validates.
func genJobConfig(t *rapid.T, id string, live []string) []byte {
	src := "a"
	if len(live) > 0 {
		src = rapid.SampledFrom(live).Draw(t, "src")
	}
	trig := map[string]any{"jobType": rapid.SampledFrom([]string{"incremental", "fullsync"}).Draw(t, "jobType")}
	if rapid.Bool().Draw(t, "cron") {
		trig["triggerType"] = "cron"
		trig["schedule"] = rapid.SampledFrom([]string{"@every 24h", "0 0 1 1 *"}).Draw(t, "schedule")
	} else {
		trig["triggerType"] = "onchange"
		trig["monitoredDataset"] = src
	}
	var handlers []map[string]any
	switch rapid.IntRange(0, 4).Draw(t, "handlers") {
	case 1:
		handlers = append(handlers, map[string]any{"errorHandler": "log", "maxItems": rapid.IntRange(0, 5).Draw(t, "maxItems")})
	case 2:
		handlers = append(handlers, map[string]any{"errorHandler": "reRun", "maxRetries": rapid.IntRange(0, 3).Draw(t, "maxRetries"), "retryDelay": rapid.SampledFrom([]int{0, 1, 30}).Draw(t, "retryDelay")})
	case 3:
		handlers = append(handlers, map[string]any{"errorHandler": "log"}, map[string]any{"errorHandler": "reRun", "retryDelay": 5})
	}
	if handlers != nil {
		trig["onError"] = handlers
	}
	cfg := map[string]any{
		"id": id, "title": id,
		"source":    map[string]any{"Type": "DatasetSource", "Name": src, "LatestOnly": rapid.Bool().Draw(t, "latestOnly")},
		"sink":      map[string]any{"Type": "DevNullSink"},
		"triggers":  []any{trig},
		"paused":    rapid.IntRange(0, 3).Draw(t, "paused") == 0,
		"batchSize": rapid.IntRange(0, 5).Draw(t, "batchSize"),
	}
	if rapid.IntRange(0, 3).Draw(t, "tags") == 0 {
		cfg["tags"] = []string{"x"}
		cfg["description"] = "d"
	}
	b, _ := json.Marshal(cfg)
	return b
}

func probeRestartNoop(t *testing.T, setup func(f *fhub)) {
	defer kit.CleanupScratch()
	f := newFHub()
	defer f.closeFull()
	setup(f)
	before := f.fullDump()
	f.restartFull()
	after := f.fullDump()
	if !reflect.DeepEqual(before, after) {
		var diffs []string
		diffDump(before, after, "", &diffs)
		t.Fatalf("restart is not a no-op: %s", joinLines(diffs))
	}
}

// F14 (fixed): DeleteClientAccessControls wrote the client registry into acls.json.
func TestVerifProbe_F14_restart(t *testing.T) {
	probeRestartNoop(t, func(f *fhub) {
		for _, c := range []string{"c1", "c2"} {
			f.Core.RegisterClient(&security.ClientInfo{ClientID: c, PublicKey: []byte("k")})
			f.Core.SetClientAccessControls(c, []*security.AccessControl{{Resource: "/datasets/*", Action: "read"}})
		}
		f.Core.DeleteClientAccessControls("c2")
	})
}

// F14b (fixed): Init stopped at the first missing file: ACLs for a subject that
// is not a registered client were not loaded after restart.
func TestVerifProbe_F14b_restart(t *testing.T) {
	probeRestartNoop(t, func(f *fhub) {
		f.Core.SetClientAccessControls("subject-without-client-record", []*security.AccessControl{{Resource: "/jobs", Action: "write", Deny: true}})
	})
}

// F15 (fixed): the stored job configuration carried the converted retryDelay,
// which was converted again on every load.
func TestVerifProbe_F15(t *testing.T) {
	probeRestartNoop(t, func(f *fhub) {
		if _, err := f.Dsm.CreateDataset("a", nil); err != nil {
			t.Fatal(err)
		}
		cfg := `{"id":"j1","title":"j1","source":{"Type":"DatasetSource","Name":"a"},"sink":{"Type":"DevNullSink"},
		 "triggers":[{"triggerType":"cron","jobType":"incremental","schedule":"@every 24h","onError":[{"errorHandler":"reRun","maxRetries":2,"retryDelay":30}]}]}`
		jc, err := f.Sched.Parse([]byte(cfg))
		if err != nil {
			t.Fatal(err)
		}
		if err := f.Sched.AddJob(jc); err != nil {
			t.Fatal(err)
		}
		if err := f.Sched.PauseJob("j1"); err != nil {
			t.Fatal(err)
		}
		if err := f.Sched.UnpauseJob("j1"); err != nil {
			t.Fatal(err)
		}
	})
}
