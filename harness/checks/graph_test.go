package verifchecks

import (
	"encoding/binary"
	"encoding/json"
	"fmt"
	"os"
	"reflect"
	"runtime"
	"sort"
	"strings"
	"testing"
	"time"

	"github.com/dgraph-io/badger/v4"
	"pgregory.net/rapid"

	kit "github.com/mimiro-io/datahub/internal/verifkit"

	"github.com/mimiro-io/datahub/internal/server"
	"github.com/mimiro-io/datahub/internal/verifhook"
)

// Op is one step of a generated history. Histories are data: they are drawn
// by rapid, journalled, printed on failure and can be re-applied without rapid.
type Op struct {
	K      string                `json:"k"`
	DS     string                `json:"ds,omitempty"`
	Via    string                `json:"via,omitempty"` // store | parser | http
	Ents   []*kit.Ent            `json:"ents,omitempty"`
	Parts  map[string][]*kit.Ent `json:"parts,omitempty"`
	Ctx    bool                  `json:"ctx,omitempty"`
	Name   string                `json:"name,omitempty"`
	Limits []int                 `json:"limits,omitempty"`
	ID     string                `json:"id,omitempty"`
	Pred   string                `json:"pred,omitempty"`
	Inv    bool                  `json:"inv,omitempty"`
	Scope  []string              `json:"scope,omitempty"`
	N      int                   `json:"n,omitempty"`
	Lo     bool                  `json:"lo,omitempty"`
	Kind   string                `json:"kind,omitempty"` // create: "" | proxy | virtual
}

// settings of the proxy / virtual datasets the machine creates (nothing ever talks to the remote:
// such datasets are only catalogued; port 9 refuses connections at once)
const (
	gmProxyURL  = "http://127.0.0.1:9/datasets/remote"
	gmVirtualJS = "ZnVuY3Rpb24gYnVpbGRfZW50aXRpZXMocGFyYW1zLCBzaW5jZSwgZW1pdCkgeyByZXR1cm4gc2luY2U7IH0="
)

func gmCreateConfig(kind string) *server.CreateDatasetConfig {
	switch kind {
	case "proxy":
		return &server.CreateDatasetConfig{ProxyDatasetConfig: &server.ProxyDatasetConfig{RemoteURL: gmProxyURL, TimeoutSeconds: 1}}
	case "virtual":
		return &server.CreateDatasetConfig{VirtualDatasetConfig: &server.VirtualDatasetConfig{Transform: gmVirtualJS}}
	}
	return nil
}

// gm is the graph machine: a hub, the reference model and the history.
type fataler interface {
	Fatalf(format string, args ...any)
}

type gm struct {
	t     *rapid.T
	f     fataler
	h     *WHub
	m     *kit.Model
	pool  *kit.Pool
	gen   kit.GenCfg
	names []string
	hist  []Op
	cls   map[string]bool
	// refHist[source][target][dataset][pred]: every reference ever written (any version)
	refHist  map[string]map[string]map[string]map[string]bool
	dsIDs    map[uint32]string          // internal dataset ids ever handed out -> owner
	deadIDs  []uint32                   // internal ids of deleted datasets
	tokens   map[string]int             // job-token objects stored (crash rig)
	maxBatch int                        // cap on generated batch size (0 = 14)
	pubNS    map[*kit.MDataset][]string // public namespaces last set for a dataset incarnation (C19)
}

func newGM(t *rapid.T, names []string, gen kit.GenCfg) *gm {
	return newGMf(t, t, names, gen)
}

// poolPrefixes returns the store prefixes a fresh hub assigns to kit.PoolNS
// (deterministic; learnt once per process from a throw-away hub).
var poolPrefixesOnce []string

func poolPrefixes() []string {
	if poolPrefixesOnce == nil {
		h := kit.NewHub(kit.HubOpts{})
		poolPrefixesOnce = append([]string{}, h.P...)
		h.Close()
	}
	return poolPrefixesOnce
}

// newModelGM builds a machine without a hub: ops are generated and applied to
// the reference model only (the crash rig executes them in child processes).
func newModelGM(t *rapid.T, f fataler, names []string, gen kit.GenCfg) *gm {
	g := &gm{t: t, f: f, m: kit.NewModel(), names: names, gen: gen, cls: map[string]bool{}}
	p := poolPrefixes()
	g.pool = (&kit.Hub{P: p}).Pool()
	for _, n := range names {
		g.m.Create(n)
	}
	return g
}

func newGMf(t *rapid.T, f fataler, names []string, gen kit.GenCfg) *gm {
	return newGMfo(t, f, names, gen, kit.HubOpts{})
}

func newGMfo(t *rapid.T, f fataler, names []string, gen kit.GenCfg, ho kit.HubOpts) *gm {
	g := &gm{t: t, f: f, h: NewWHub(ho), m: kit.NewModel(), names: names, gen: gen, cls: map[string]bool{}}
	g.pool = g.h.Pool()
	for _, n := range names {
		if _, err := g.h.Dsm.CreateDataset(n, nil); err != nil {
			f.Fatalf("create dataset: %v", err)
		}
		g.m.Create(n)
		if d := g.h.Dsm.GetDataset(n); d != nil {
			if g.dsIDs == nil {
				g.dsIDs = map[uint32]string{}
			}
			g.dsIDs[d.InternalID] = n + "#1"
		}
	}
	return g
}

func (g *gm) close() {
	if g.h != nil {
		g.h.Close()
	}
}

// live returns the names of the datasets that currently exist (model).
func (g *gm) live() []string { return g.m.Names() }

func (g *gm) histJSON() string {
	var sb strings.Builder
	for i, op := range g.hist {
		b, _ := json.Marshal(op)
		fmt.Fprintf(&sb, "%3d %s\n", i, b)
	}
	return sb.String()
}

// fail reports a violation with the full history in a machine-readable block.
func (g *gm) fail(format string, a ...any) {
	msg := fmt.Sprintf(format, a...)
	if _, soft := g.f.(softFataler); soft {
		g.f.Fatalf("%s", msg)
	}
	g.f.Fatalf("%s\nVERIF-CASE-BEGIN\n%s\nVERIF-CASE-END", msg, g.histJSON())
}

func (g *gm) record(op Op) {
	g.hist = append(g.hist, op)
	kit.Journal(g.hist)
}

// ---- write ops -------------------------------------------------------------

// execOp applies one write/management op to a hub (implementation only).
func execOp(h *WHub, op Op) error {
	switch op.K {
	case "batch":
		if op.Via == "http" {
			if code, body := h.PostBatch(op.DS, op.Ents, nil); code != 200 {
				return fmt.Errorf("POST batch rejected: %d %s", code, body)
			}
			return nil
		}
		if err := h.StoreBatch(op.DS, op.Ents, op.Via); err != nil {
			return fmt.Errorf("StoreEntities failed: %w", err)
		}
	case "txn":
		if op.Via == "http" {
			if code, resp := h.Do("POST", "/transactions", txnPayload(h.P, op.Parts), nil); code != 200 {
				return fmt.Errorf("POST /transactions rejected: %d %s", code, resp)
			}
			return nil
		}
		if err := h.Txn(op.Parts, op.Ctx); err != nil {
			return fmt.Errorf("ExecuteTransaction failed: %w", err)
		}
	case "create":
		if op.Via == "http" {
			path, reqBody := "/datasets/"+op.Name, ""
			if cfg := gmCreateConfig(op.Kind); cfg != nil {
				b, _ := json.Marshal(cfg)
				reqBody = string(b)
				if op.Kind == "proxy" {
					path += "?proxy=true"
				}
			}
			if code, body := h.Do("POST", path, reqBody, nil); code != 200 {
				return fmt.Errorf("POST %s -> %d %s", path, code, body)
			}
			return nil
		}
		if _, err := h.Dsm.CreateDataset(op.Name, gmCreateConfig(op.Kind)); err != nil {
			return fmt.Errorf("CreateDataset(%s): %w", op.Name, err)
		}
	case "delete":
		if op.Via == "http" {
			if code, body := h.Do("DELETE", "/datasets/"+op.Name, "", nil); code != 200 {
				return fmt.Errorf("DELETE /datasets/%s -> %d %s", op.Name, code, body)
			}
			return nil
		}
		if err := h.Dsm.DeleteDataset(op.Name); err != nil {
			return fmt.Errorf("DeleteDataset(%s): %w", op.Name, err)
		}
	case "rename":
		if op.Via == "http" {
			body, _ := json.Marshal(map[string]string{"ID": op.ID})
			if code, resp := h.Do("PATCH", "/datasets/"+op.Name, string(body), nil); code != 200 {
				return fmt.Errorf("PATCH /datasets/%s -> %d %s", op.Name, code, resp)
			}
			return nil
		}
		if _, err := h.Dsm.UpdateDataset(op.Name, &server.UpdateDatasetConfig{ID: op.ID}); err != nil {
			return fmt.Errorf("UpdateDataset(%s -> %s): %w", op.Name, op.ID, err)
		}
	case "pubns":
		// the documented way to configure public namespaces: rewrite the dataset's meta-entity in
		// core.Dataset (read-modify-write, the list always present; op.Scope holds the list)
		metas, err := h.Latest("core.Dataset", nil)
		if err != nil {
			return fmt.Errorf("listing core.Dataset: %w", err)
		}
		var me *kit.Ent
		for _, e := range metas {
			if _, n, _ := strings.Cut(e.ID, ":"); n == op.Name && !e.Deleted {
				me = e.Clone()
			}
		}
		if me == nil {
			return fmt.Errorf("CATALOGUE-META no live meta-entity for existing dataset %s", op.Name)
		}
		prefix, _, _ := strings.Cut(me.ID, ":")
		arr := make([]any, len(op.Scope))
		for i, ns := range op.Scope {
			arr[i] = ns
		}
		me.Props[prefix+":publicNamespaces"] = arr
		if err := h.StoreBatch("core.Dataset", []*kit.Ent{me}, "store"); err != nil {
			return fmt.Errorf("storing the meta-entity of %s: %w", op.Name, err)
		}
	case "badrename":
		// renaming onto the name of an existing dataset is refused and changes nothing
		var err error
		if op.Via == "http" {
			body, _ := json.Marshal(map[string]string{"ID": op.ID})
			if code, _ := h.Do("PATCH", "/datasets/"+op.Name, string(body), nil); code == 200 {
				return fmt.Errorf("REJECTED-RENAME-ACCEPTED PATCH /datasets/%s {ID:%s} answered 200 although %s exists", op.Name, op.ID, op.ID)
			}
			return nil
		}
		if _, err = h.Dsm.UpdateDataset(op.Name, &server.UpdateDatasetConfig{ID: op.ID}); err == nil {
			return fmt.Errorf("REJECTED-RENAME-ACCEPTED UpdateDataset(%s -> %s) succeeded although %s exists", op.Name, op.ID, op.ID)
		}
	case "badbatch":
		// valid entities followed by one that cannot be stored (a null inside a reference array): the
		// batch is rejected as a whole
		es := append([]*kit.Ent{}, op.Ents...)
		bad := &kit.Ent{ID: h.P[0] + ":bad", Props: map[string]any{}, Refs: map[string]any{h.P[0] + ":r0": []any{nil}}}
		why := "carries a null reference"
		if op.N == 1 {
			// an identifier longer than the storage engine accepts as a key (65000 bytes)
			bad.Refs = map[string]any{h.P[0] + ":r0": h.P[0] + ":" + strings.Repeat("x", 66000)}
			why = "refers to an identifier of 66000 bytes"
		}
		es = append(es, bad)
		if err := h.StoreBatch(op.DS, es, "store"); err == nil {
			return fmt.Errorf("REJECTED-BATCH-ACCEPTED a batch whose last element %s was stored in %s", why, op.DS)
		}
		// the refusal leaves the hub able to write: a batch that changes nothing (the latest version of
		// some entity again) goes through the same locks as any other
		if cur, err := h.Latest(op.DS, nil); err == nil && len(cur) > 0 {
			done := make(chan error, 1)
			go func() { done <- h.StoreBatch(op.DS, cur[:1], "store") }()
			select {
			case err := <-done:
				if err != nil {
					return fmt.Errorf("WRITE-AFTER-REJECTED-BATCH storing the unchanged latest version of %s in %s failed: %w", cur[0].ID, op.DS, err)
				}
			case <-time.After(gmBlockedWait()):
				// slow machine or a lock left behind? a lock left behind never comes back
				if !gmBlockedConfirmed {
					select {
					case err := <-done:
						if err != nil {
							return fmt.Errorf("WRITE-AFTER-REJECTED-BATCH storing the unchanged latest version of %s in %s failed: %w", cur[0].ID, op.DS, err)
						}
						kit.S().Inconcl()
						return nil
					case <-time.After(120 * time.Second):
					}
				}
				gmBlockedConfirmed = true
				return fmt.Errorf("WRITER-BLOCKED after a batch whose last element %s was refused, a write to %s did not return (waited minutes): the refused batch left a lock behind, every later writer hangs", why, op.DS)
			}
		}
	case "token":
		if err := h.Store.StoreObject(server.JobDataIndex, op.Name, map[string]any{"id": op.Name, "token": fmt.Sprint(op.N)}); err != nil {
			return fmt.Errorf("StoreObject: %w", err)
		}
	case "gc":
		if err := h.GC.Cleandeleted(); err != nil {
			return fmt.Errorf("Cleandeleted: %w", err)
		}
		if op.N == 1 {
			_ = h.GC.GC()
		}
	case "gcdel":
		// a dataset is deleted WHILE the garbage collector runs (the delete request arrives between two
		// of the collector's scans, op.ID names the point)
		var derr error
		done := false
		if op.ID == "gc.storeObject" {
			// whenever the collector itself persists something (the unchanged collector does not): the
			// delete arrives while that write is under way
			verifhook.SetFault("store.object", func(int) error {
				if !done && gmInStack(".Cleandeleted") {
					done = true
					derr = h.Dsm.DeleteDataset(op.Name)
				}
				return nil
			})
		} else {
			verifhook.SetCallback(op.ID, func(int) {
				if !done {
					done = true
					derr = h.Dsm.DeleteDataset(op.Name)
				}
			})
		}
		err := h.GC.Cleandeleted()
		verifhook.SetCallback(op.ID, nil)
		verifhook.SetFault("store.object", nil)
		if err != nil {
			return fmt.Errorf("Cleandeleted: %w", err)
		}
		if !done && op.ID == "gc.storeObject" {
			// the collector persisted nothing: the delete simply follows the run
			done = true
			derr = h.Dsm.DeleteDataset(op.Name)
		}
		if !done {
			return fmt.Errorf("VERIF-INFRA the collector never reached %s", op.ID)
		}
		if derr != nil {
			return fmt.Errorf("DeleteDataset(%s) during garbage collection: %w", op.Name, derr)
		}
	case "restart":
		h.Restart()
	}
	return nil
}

func (g *gm) applyBatch(op Op) {
	g.record(op)
	if g.h != nil {
		if err := execOp(g.h, op); err != nil {
			g.fail("%v", err)
		}
	}
	ents := op.Ents
	if op.Via != "store" {
		ents = kit.StripNulls(ents) // what the stream parser makes of the payload
	}
	g.classifyBatch(op.DS, ents)
	g.noteRefs(op.DS, ents)
	g.m.Write(op.DS, ents)
}

func (g *gm) applyTxn(op Op) {
	g.record(op)
	if g.h != nil {
		if err := execOp(g.h, op); err != nil {
			g.fail("%v", err)
		}
	}
	for _, ds := range kit.SortedKeys(op.Parts) {
		ents := op.Parts[ds]
		if op.Via == "http" {
			ents = kit.StripNulls(ents)
		}
		g.classifyBatch(ds, ents)
		g.noteRefs(ds, ents)
		g.m.Write(ds, ents)
	}
	if len(op.Parts) > 1 {
		g.cls["txn-multi-dataset"] = true
	}
}

func (g *gm) noteRefs(ds string, es []*kit.Ent) {
	if g.refHist == nil {
		g.refHist = map[string]map[string]map[string]map[string]bool{}
	}
	for _, e := range es {
		for p, tv := range e.Refs {
			for _, tg := range kit.RefTargets(kit.Canon(tv)) {
				if g.refHist[e.ID] == nil {
					g.refHist[e.ID] = map[string]map[string]map[string]bool{}
				}
				if g.refHist[e.ID][tg] == nil {
					g.refHist[e.ID][tg] = map[string]map[string]bool{}
				}
				if g.refHist[e.ID][tg][ds] == nil {
					g.refHist[e.ID][tg][ds] = map[string]bool{}
				}
				g.refHist[e.ID][tg][ds][p] = true
			}
		}
	}
}

// shapeF04 is the input shape of known finding F04 (incoming relation scan keeps
// one deleted flag per referencing entity): for an incoming query on target tgt,
// some referencing entity has, over its whole history and within the query's
// scope and predicate filter, referenced tgt with >=2 predicates or from >=2 datasets.
func (g *gm) shapeF04(tgt, pred string, scope []string) bool {
	inScope := func(ds string) bool {
		if len(scope) == 0 {
			return true
		}
		for _, s := range scope {
			if s == ds {
				return true
			}
		}
		return false
	}
	for _, byTarget := range g.refHist {
		dss, preds := map[string]bool{}, map[string]bool{}
		for ds, ps := range byTarget[tgt] {
			if !inScope(ds) {
				continue
			}
			for p := range ps {
				if pred == "*" || pred == p {
					dss[ds] = true
					preds[p] = true
				}
			}
		}
		if len(dss) >= 2 || len(preds) >= 2 {
			return true
		}
	}
	return false
}

func txnPayload(prefixes []string, parts map[string][]*kit.Ent) string {
	ctx := map[string]string{}
	for i, p := range prefixes {
		ctx[p] = kit.PoolNS[i]
	}
	m := map[string]any{"@context": map[string]any{"namespaces": ctx}}
	for ds, es := range parts {
		arr := []any{}
		for _, e := range es {
			x := map[string]any{"id": e.ID, "props": e.Props, "refs": e.Refs}
			if e.Deleted {
				x["deleted"] = true
			}
			arr = append(arr, x)
		}
		m[ds] = arr
	}
	b, _ := json.Marshal(m)
	return string(b)
}

func (g *gm) classifyBatch(ds string, es []*kit.Ent) {
	d := g.m.DS[ds]
	seen := map[string]*kit.Ent{}
	for _, e := range es {
		cur := d.Latest[e.ID]
		if p, ok := seen[e.ID]; ok {
			g.cls["in-batch-repeat"] = true
			if p.Deleted != e.Deleted {
				g.cls["in-batch-delete-flip"] = true
			}
			cur = p
		}
		if cur != nil {
			if kit.EqualContent(cur, e) {
				g.cls["redundant-write"] = true
			} else {
				g.cls["overwrite"] = true
				if cur.Deleted && !e.Deleted {
					g.cls["undelete"] = true
				}
				if kit.WireLen(cur) == kit.WireLen(e) {
					g.cls["equal-length-rewrite"] = true
				}
				if len(cur.Refs) > 0 && !reflect.DeepEqual(kit.Canon(cur.Refs), kit.Canon(e.Refs)) {
					g.cls["refs-changed"] = true
				}
			}
		}
		for _, other := range g.m.Names() {
			if other != ds {
				if v := g.m.DS[other].Latest[e.ID]; v != nil {
					g.cls["id-in-2-datasets"] = true
					if v.Deleted != e.Deleted {
						g.cls["id-in-2-datasets-different-delete-state"] = true
					}
				}
			}
		}
		pairs := map[string]int{}
		for _, tv := range e.Refs {
			for _, tg := range kit.RefTargets(kit.Canon(tv)) {
				pairs[tg]++
			}
		}
		for _, c := range pairs {
			if c >= 2 {
				g.cls["multi-pred-same-pair"] = true
			}
		}
		for _, v := range e.Props {
			if hasNested(v) {
				g.cls["nested-entity"] = true
			}
		}
		seen[e.ID] = e
	}
	if len(es) > 10 {
		g.cls["batch>10"] = true
	}
}

func hasNested(v any) bool {
	switch x := v.(type) {
	case map[string]any:
		return true
	case []any:
		for _, e := range x {
			if hasNested(e) {
				return true
			}
		}
	}
	return false
}

// ---- dataset management ops -------------------------------------------------

func (g *gm) applyCreate(op Op) {
	g.record(op)
	if g.h != nil {
		if err := execOp(g.h, op); err != nil {
			g.fail("%v", err)
		}
	}
	if g.m.EverName[op.Name] {
		g.cls["re-create"] = true
	}
	md := g.m.Create(op.Name)
	md.Proxy, md.Virtual = op.Kind == "proxy", op.Kind == "virtual"
	if op.Kind != "" {
		g.cls["create-"+op.Kind] = true
	}
	if g.h == nil {
		return
	}
	d := g.h.Dsm.GetDataset(op.Name)
	if d == nil {
		g.fail("dataset %s missing right after create", op.Name)
	}
	if g.dsIDs == nil {
		g.dsIDs = map[uint32]string{}
	}
	if prev, used := g.dsIDs[d.InternalID]; used {
		g.fail("DATASET-ID-REUSED: new dataset %s got internal id %d which belonged to %s", op.Name, d.InternalID, prev)
	}
	g.dsIDs[d.InternalID] = fmt.Sprintf("%s#%d", op.Name, g.m.DS[op.Name].Incarnation)
}

func (g *gm) applyDelete(op Op) {
	g.record(op)
	if g.h != nil {
		if d := g.h.Dsm.GetDataset(op.Name); d != nil {
			g.deadIDs = append(g.deadIDs, d.InternalID)
		}
		if err := execOp(g.h, op); err != nil {
			g.fail("%v", err)
		}
	}
	g.modelDelete(op.Name)
}

// modelDelete: what deleting a dataset means for the model and the bookkeeping.
func (g *gm) modelDelete(name string) {
	op := Op{Name: name}
	md := g.m.DS[op.Name]
	for _, other := range g.m.Names() {
		if other == op.Name {
			continue
		}
		for id, v := range md.Latest {
			if g.m.DS[other].Latest[id] != nil {
				g.cls["deleted-dataset-shared-id"] = true
			}
			for _, tv := range v.Refs {
				for _, tg := range kit.RefTargets(kit.Canon(tv)) {
					if g.m.DS[other].Latest[tg] != nil {
						g.cls["deleted-dataset-shared-ref"] = true
					}
				}
			}
		}
	}
	g.m.Delete(op.Name)
	for _, byT := range g.refHist {
		for _, byDS := range byT {
			delete(byDS, op.Name)
		}
	}
	g.cls["dataset-deleted"] = true
}

func (g *gm) applyRename(op Op) {
	g.record(op)
	if g.h != nil {
		if err := execOp(g.h, op); err != nil {
			g.fail("%v", err)
		}
	}
	g.m.Rename(op.Name, op.ID)
	for _, byT := range g.refHist {
		for _, byDS := range byT {
			if v, ok := byDS[op.Name]; ok {
				byDS[op.ID] = v
				delete(byDS, op.Name)
			}
		}
	}
	g.cls["rename"] = true
}

func (g *gm) applyGC(op Op) {
	g.record(op)
	if g.h == nil {
		return
	}
	if err := execOp(g.h, op); err != nil {
		g.fail("%v", err)
	}
	if len(g.deadIDs) > 0 {
		g.cls["gc-after-delete"] = true
	}
	g.checkNoKeysOfDeadDatasets()
}

// applyGCDel: garbage collection with a dataset deleted in the middle of it.
func (g *gm) applyGCDel(op Op) {
	g.record(op)
	if g.h != nil {
		if d := g.h.Dsm.GetDataset(op.Name); d != nil {
			g.deadIDs = append(g.deadIDs, d.InternalID)
		}
		if err := execOp(g.h, op); err != nil {
			g.fail("%v", err)
		}
	}
	g.modelDelete(op.Name)
	g.cls["dataset-deleted-during-gc"] = true
}

// applyPubNS sets the public namespaces of a dataset (op.Scope) through its meta-entity.
func (g *gm) applyPubNS(op Op) {
	g.record(op)
	if g.h != nil {
		if err := execOp(g.h, op); err != nil {
			g.fail("%v", err)
		}
	}
	if g.pubNS == nil {
		g.pubNS = map[*kit.MDataset][]string{}
	}
	g.pubNS[g.m.DS[op.Name]] = op.Scope
	g.cls["public-namespaces-set"] = true
	if len(op.Scope) == 0 {
		g.cls["public-namespaces-emptied"] = true
	}
}

// applyBadRename: a refused rename changes nothing (the model is not touched).
func (g *gm) applyBadRename(op Op) {
	g.record(op)
	if g.h != nil {
		if err := execOp(g.h, op); err != nil {
			g.fail("%v", err)
		}
	}
	g.cls["rejected-rename"] = true
}

// applyBadBatch: a rejected batch changes nothing (the model is not touched).
func (g *gm) applyBadBatch(op Op) {
	g.record(op)
	if g.h != nil {
		if err := execOp(g.h, op); err != nil {
			g.fail("%v", err)
		}
	}
	g.cls["rejected-batch"] = true
}

func (g *gm) applyRestart(op Op) {
	g.record(op)
	if g.h != nil {
		g.h.Restart()
	}
	g.cls["restart"] = true
}

// applyOp dispatches a recorded op (used by replays and the crash rig).
func (g *gm) applyOp(op Op) {
	switch op.K {
	case "batch":
		g.applyBatch(op)
	case "txn":
		g.applyTxn(op)
	case "create":
		g.applyCreate(op)
	case "delete":
		g.applyDelete(op)
	case "rename":
		g.applyRename(op)
	case "gc":
		g.applyGC(op)
	case "gcdel":
		g.applyGCDel(op)
	case "restart":
		g.applyRestart(op)
	case "pubns":
		g.applyPubNS(op)
	case "badrename":
		g.applyBadRename(op)
	case "badbatch":
		g.applyBadBatch(op)
	case "token":
		g.record(op)
		if g.h != nil {
			if err := execOp(g.h, op); err != nil {
				g.fail("%v", err)
			}
		}
		if g.tokens == nil {
			g.tokens = map[string]int{}
		}
		g.tokens[op.Name] = op.N
	}
}

// checkNoKeysOfDeadDatasets scans the five data index families through the raw
// badger handle: after Cleandeleted no key may carry a deleted dataset's id.
func (g *gm) checkNoKeysOfDeadDatasets() {
	dead := map[uint32]bool{}
	for _, id := range g.deadIDs {
		dead[id] = true
	}
	if len(dead) == 0 {
		return
	}
	db := server.NewBadgerAccess(g.h.Store, g.h.Dsm).GetDB()
	err := db.View(func(txn *badger.Txn) error {
		opts := badger.DefaultIteratorOptions
		opts.PrefetchValues = false
		it := txn.NewIterator(opts)
		defer it.Close()
		for it.Rewind(); it.Valid(); it.Next() {
			k := it.Item().KeyCopy(nil)
			if len(k) < 2 {
				continue
			}
			idx := binary.BigEndian.Uint16(k)
			var ds uint32
			switch {
			case idx == uint16(server.EntityIDToJSONIndexID) && len(k) >= 14:
				ds = binary.BigEndian.Uint32(k[10:])
			case (idx == uint16(server.DatasetEntityChangeLog) || idx == uint16(server.DatasetLatestEntities)) && len(k) >= 6:
				ds = binary.BigEndian.Uint32(k[2:])
			case (idx == uint16(server.OutgoingRefIndex) || idx == uint16(server.IncomingRefIndex)) && len(k) >= 40:
				ds = binary.BigEndian.Uint32(k[36:])
			default:
				continue
			}
			if dead[ds] {
				return fmt.Errorf("key of index %d still carries garbage-collected dataset id %d", idx, ds)
			}
		}
		return nil
	})
	if err != nil {
		g.fail("GC-LEFTOVER: %v", err)
	}
}

// ---- generators of write ops ----------------------------------------------

func (g *gm) genBatchOp() Op {
	t := g.t
	ds := rapid.SampledFrom(g.live()).Draw(t, "ds")
	via := rapid.SampledFrom([]string{"store", "parser", "http"}).Draw(t, "via")
	max := 4
	if rapid.IntRange(0, 9).Draw(t, "big") == 0 {
		max = 14
		if g.maxBatch > 0 {
			max = g.maxBatch
		}
	}
	n := rapid.IntRange(1, max).Draw(t, "n")
	var ents []*kit.Ent
	for i := 0; i < n; i++ {
		ents = append(ents, g.genEntFor(ds, ents))
	}
	return Op{K: "batch", DS: ds, Via: via, Ents: ents}
}

// genEntFor draws an entity for ds, biased towards interesting relations to
// the current version (which may be an earlier element of the same batch).
func (g *gm) genEntFor(ds string, batch []*kit.Ent) *kit.Ent {
	t := g.t
	e := kit.GenEnt(t, g.pool, g.gen, nil)
	cur := g.m.DS[ds].Latest[e.ID]
	for _, b := range batch {
		if b.ID == e.ID {
			cur = b
		}
	}
	if cur == nil {
		return e
	}
	switch rapid.IntRange(0, 9).Draw(t, "rel") {
	case 0: // identical re-write
		return cur.Clone()
	case 1: // same content, deleted flag flipped
		c := cur.Clone()
		c.Deleted = !c.Deleted
		return c
	case 2, 3: // engineered equal serialized length
		vs := kit.EqualLenVariants(cur, g.pool)
		if len(vs) > 0 {
			return rapid.SampledFrom(vs).Draw(t, "eqlen").Clone()
		}
	case 4: // keep refs, change a property
		c := cur.Clone()
		c.Props[rapid.SampledFrom(g.pool.Keys).Draw(t, "k")] = kit.GenScalar(t)
		return c
	case 5: // keep props, drop one ref key
		c := cur.Clone()
		if ks := kit.SortedKeys(c.Refs); len(ks) > 0 {
			delete(c.Refs, rapid.SampledFrom(ks).Draw(t, "dropref"))
			return c
		}
	case 6: // an UPDATE of a known entity that is the first use of an identifier: a reference to a
		// target, or through a predicate, that the hub has never seen (its internal id is handed out by
		// this write although no entity in it is new)
		c := cur.Clone()
		c.Deleted = false
		fresh := fmt.Sprintf("%s:fresh%d", g.pool.P[0], len(g.hist))
		if rapid.Bool().Draw(t, "freshPred") {
			c.Refs[fresh] = rapid.SampledFrom(g.pool.IDs).Draw(t, "tgt")
		} else {
			c.Refs[rapid.SampledFrom(g.pool.Preds).Draw(t, "rk")] = fresh
		}
		g.cls["first-use-of-identifier-in-an-update"] = true
		return c
	}
	return e
}

func (g *gm) genTxnOp() Op {
	t := g.t
	nds := rapid.IntRange(1, len(g.live())).Draw(t, "nds")
	perm := rapid.Permutation(g.live()).Draw(t, "perm")
	parts := map[string][]*kit.Ent{}
	for _, ds := range perm[:nds] {
		n := rapid.IntRange(1, 3).Draw(t, "n")
		var ents []*kit.Ent
		for i := 0; i < n; i++ {
			ents = append(ents, g.genEntFor(ds, ents))
		}
		parts[ds] = ents
	}
	via := rapid.SampledFrom([]string{"store", "ctx", "http"}).Draw(t, "via")
	return Op{K: "txn", Parts: parts, Ctx: via == "ctx", Via: via}
}

// ---- oracles ---------------------------------------------------------------

// checkLatest: listing equals the model's latest view, each id exactly once.
func (g *gm) checkLatest(ds string, limits []int, viaHTTP bool) {
	var got []*kit.Ent
	var err error
	if viaHTTP {
		got, err = g.h.HTTPLatest(ds, limits)
	} else {
		got, err = g.h.Latest(ds, limits)
	}
	if err != nil {
		g.fail("listing %s failed: %v", ds, err)
	}
	md := g.m.DS[ds]
	seen := map[string]bool{}
	for _, e := range got {
		if seen[e.ID] {
			g.fail("LATEST-DUP ds=%s id=%s returned twice (limits=%v http=%v)", ds, e.ID, limits, viaHTTP)
		}
		seen[e.ID] = true
		mv := md.Latest[e.ID]
		if mv == nil {
			g.fail("LATEST-EXTRA ds=%s id=%s not in model (limits=%v)", ds, e.ID, limits)
		}
		if !kit.SameVersion(e, mv) {
			g.fail("LATEST-CONTENT ds=%s limits=%v http=%v\n impl =%s\n model=%s", ds, limits, viaHTTP, e.Key(), mv.Key())
		}
	}
	if len(got) != len(md.Latest) {
		var missing []string
		for id := range md.Latest {
			if !seen[id] {
				missing = append(missing, id)
			}
		}
		sort.Strings(missing)
		g.fail("LATEST-MISSING ds=%s limits=%v http=%v missing=%v", ds, limits, viaHTTP, missing)
	}
}

// checkLookup: scoped and unscoped entity lookups.
func (g *gm) checkLookup(id string, scope []string, viaHTTP bool) {
	var got *kit.Ent
	if viaHTTP {
		e, err := g.h.HTTPLookup(id, scope)
		if err != nil {
			g.fail("http lookup failed: %v", err)
		}
		got = e
	} else {
		e, err := g.h.Lookup(id, scope)
		if err != nil {
			g.fail("lookup %s %v failed: %v", id, scope, err)
		}
		got = kit.FromEntity(e)
	}
	parts, anyDeleted, anyVersion := g.m.Partials(id, scope)
	if len(scope) == 1 {
		// scoped to one dataset: exactly the last version written there
		mv := g.m.DS[scope[0]].Latest[id]
		if mv == nil {
			if got != nil && (len(got.Props) > 0 || len(got.Refs) > 0) {
				g.fail("LOOKUP-SCOPED-PHANTOM id=%s scope=%v got=%s but nothing was written there", id, scope, got.Key())
			}
			return
		}
		if got == nil {
			g.fail("LOOKUP-SCOPED-MISSING id=%s scope=%v model=%s", id, scope, mv.Key())
		}
		if mv.Deleted {
			// a deleted latest version: the lookup reports the deleted flag; the
			// body of a deleted version is not part of the merge.
			if !got.Deleted {
				g.fail("LOOKUP-SCOPED-DELETED-FLAG id=%s scope=%v got=%s model=%s", id, scope, got.Key(), mv.Key())
			}
			// the hub answers with an empty body for a deleted version; the
			// version's own body is accepted as well (the statement allows both readings)
			if (len(got.Props) > 0 || len(got.Refs) > 0) && !kit.SameVersion(got, mv) {
				g.fail("LOOKUP-SCOPED-DELETED-BODY id=%s scope=%v got=%s model=%s", id, scope, got.Key(), mv.Key())
			}
			return
		}
		if !kit.SameVersion(got, mv) {
			g.fail("LOOKUP-SCOPED id=%s scope=%v http=%v\n impl =%s\n model=%s", id, scope, viaHTTP, got.Key(), mv.Key())
		}
		return
	}
	// merged lookup
	if !anyVersion {
		if got != nil && (len(got.Props) > 0 || len(got.Refs) > 0) {
			g.fail("LOOKUP-MERGED-PHANTOM id=%s scope=%v got=%s", id, scope, got.Key())
		}
		return
	}
	if got == nil {
		g.fail("LOOKUP-MERGED-MISSING id=%s scope=%v", id, scope)
	}
	var pp, rr []map[string]any
	for _, p := range parts {
		pp = append(pp, p.Props)
		rr = append(rr, p.Refs)
	}
	wantP, wantR := kit.MergeBag(pp), kit.MergeBag(rr)
	gotP, gotR := kit.MergeBag([]map[string]any{got.Props}), kit.MergeBag([]map[string]any{got.Refs})
	if len(parts) == 1 {
		// exactly one contributing version: must be returned verbatim
		if !kit.EqualContent(&kit.Ent{Props: got.Props, Refs: got.Refs}, &kit.Ent{Props: parts[0].Props, Refs: parts[0].Refs}) {
			g.fail("LOOKUP-MERGED-SINGLE id=%s scope=%v\n impl =%s\n model=%s", id, scope, got.Key(), parts[0].Key())
		}
	} else if !reflect.DeepEqual(gotP, wantP) || !reflect.DeepEqual(gotR, wantR) {
		g.fail("LOOKUP-MERGED id=%s scope=%v http=%v\n implP=%v\n wantP=%v\n implR=%v\n wantR=%v", id, scope, viaHTTP, gotP, wantP, gotR, wantR)
	}
	if len(parts) == 0 && anyDeleted && !got.Deleted {
		g.fail("LOOKUP-MERGED-ALL-DELETED id=%s scope=%v: every in-scope version is deleted but lookup is not marked deleted: %s", id, scope, got.Key())
	}
	if len(parts) > 0 && got.Deleted {
		g.fail("LOOKUP-MERGED-LIVE-MARKED-DELETED id=%s scope=%v got=%s", id, scope, got.Key())
	}
	if len(parts) > 1 {
		g.cls["merged-lookup-2+"] = true
	}
}

// checkFeed: full read equals the model's feed; latest-only equals newest per entity.
func (g *gm) checkFeed(ds string, limits []int, viaHTTP bool) {
	md := g.m.DS[ds]
	var got []*kit.Ent
	var err error
	if viaHTTP {
		got, _, err = g.h.HTTPChanges(ds, "", limits, false)
	} else {
		got, _, err = g.h.Feed(ds, 0, limits, false)
	}
	if err != nil {
		g.fail("changes %s failed: %v", ds, err)
	}
	g.cmpSeq("FEED", ds, limits, viaHTTP, got, md.Feed)
	var lo []*kit.Ent
	if viaHTTP {
		lo, _, err = g.h.HTTPChanges(ds, "", limits, true)
	} else {
		lo, _, err = g.h.Feed(ds, 0, limits, true)
	}
	if err != nil {
		g.fail("changes(latestOnly) %s failed: %v", ds, err)
	}
	g.cmpSeq("FEED-LATESTONLY", ds, limits, viaHTTP, lo, md.LatestOnlyFeed())
}

func (g *gm) cmpSeq(tag, ds string, limits []int, viaHTTP bool, got, want []*kit.Ent) {
	for i := 0; i < len(got) && i < len(want); i++ {
		if !kit.SameVersion(got[i], want[i]) {
			g.fail("%s-CONTENT ds=%s pos=%d limits=%v http=%v\n impl =%s\n model=%s\n implLen=%d modelLen=%d", tag, ds, i, limits, viaHTTP, got[i].Key(), want[i].Key(), len(got), len(want))
		}
	}
	if len(got) != len(want) {
		extra := ""
		if len(got) > len(want) {
			extra = " first extra=" + got[len(want)].Key()
		} else {
			extra = " first missing=" + want[len(got)].Key()
		}
		g.fail("%s-LEN ds=%s limits=%v http=%v impl=%d model=%d%s", tag, ds, limits, viaHTTP, len(got), len(want), extra)
	}
}

// checkRelated: one relationship query against the model.
func (g *gm) checkRelated(start, pred string, inv bool, scope []string, limits []int, viaHTTP bool) {
	if inv && kit.Known("F04") && g.shapeF04(start, pred, scope) {
		kit.S().Exclude("F04")
		return
	}
	if inv {
		kit.S().AddExtra("incoming_queries_compared", 1)
	} else {
		kit.S().AddExtra("outgoing_queries_compared", 1)
	}
	var got map[string]bool
	var dup string
	var err error
	if viaHTTP {
		lim := 0
		if len(limits) > 0 {
			lim = limits[0]
		}
		got, dup, err = g.h.HTTPRelated(start, pred, inv, scope, lim)
	} else {
		got, dup, err = g.h.Related(start, pred, inv, scope, limits)
	}
	if err != nil {
		g.fail("relation query failed: %v", err)
	}
	var want map[string]bool
	if inv {
		want = g.m.Incoming(start, pred, scope)
	} else {
		want = g.m.Outgoing(start, pred, scope)
	}
	dir := "OUT"
	if inv {
		dir = "IN"
	}
	if !kit.EqualSets(got, want) {
		g.fail("REL-%s start=%s pred=%s scope=%v limits=%v http=%v\n impl =%s\n model=%s", dir, start, pred, scope, limits, viaHTTP, kit.SetStr(got), kit.SetStr(want))
	}
	if dup != "" {
		g.fail("REL-%s-DUP start=%s pred=%s scope=%v limits=%v http=%v pair %s returned twice", dir, start, pred, scope, limits, viaHTTP, dup)
	}
	if len(want) >= 2 && len(limits) > 0 {
		g.cls["paged-relation-2+"] = true
	}
}

func (g *gm) scopes() [][]string {
	out := [][]string{nil}
	names := g.live()
	for _, n := range names {
		out = append(out, []string{n})
	}
	if len(names) >= 3 {
		out = append(out, []string{names[0], names[2]})
	} else if len(names) == 2 {
		out = append(out, []string{names[0], names[1]})
	}
	return out
}

// sweepRelations checks every start x pred x direction x scope unpaged, and the
// transpose relation between outgoing and incoming answers of the implementation.
func (g *gm) sweepRelations() {
	preds := append([]string{"*"}, g.pool.Preds...)
	for _, scope := range g.scopes() {
		outs := map[string]map[string]bool{}
		ins := map[string]map[string]bool{}
		for _, id := range g.pool.IDs {
			for _, pred := range preds {
				g.checkRelated(id, pred, false, scope, nil, false)
				g.checkRelated(id, pred, true, scope, nil, false)
			}
			o, _, _ := g.h.Related(id, "*", false, scope, nil)
			i, _, _ := g.h.Related(id, "*", true, scope, nil)
			outs[id], ins[id] = o, i
		}
		// transpose, implementation against itself
		for s, set := range outs {
			for k := range set {
				p, tgt, _ := strings.Cut(k, "|")
				if kit.Known("F04") && g.shapeF04(tgt, "*", scope) {
					continue
				}
				if ins[tgt] != nil && !ins[tgt][p+"|"+s] {
					g.fail("REL-TRANSPOSE scope=%v: (%s -%s-> %s) is an outgoing result but not an incoming result of the target", scope, s, p, tgt)
				}
			}
		}
		for tgt, set := range ins {
			if kit.Known("F04") && g.shapeF04(tgt, "*", scope) {
				continue
			}
			for k := range set {
				p, s, _ := strings.Cut(k, "|")
				if outs[s] != nil && !outs[s][p+"|"+tgt] {
					g.fail("REL-TRANSPOSE scope=%v: (%s -%s-> %s) is an incoming result but not an outgoing result of the source", scope, s, p, tgt)
				}
			}
		}
	}
}

func (g *gm) classes() []string {
	return kit.SortedKeys(g.cls)
}

func (g *gm) has(cs ...string) bool {
	for _, c := range cs {
		if g.cls[c] {
			return true
		}
	}
	return false
}

// replayCase lets the driver re-run a journalled history without rapid.
func loadReplayOps(t *testing.T) []Op {
	p := os.Getenv("VERIF_REPLAY_CASE")
	if p == "" {
		return nil
	}
	b, err := os.ReadFile(p)
	if err != nil {
		t.Fatalf("VERIF-INFRA cannot read replay case: %v", err)
	}
	var ops []Op
	if err := json.Unmarshal(b, &ops); err != nil {
		t.Fatalf("VERIF-INFRA cannot parse replay case: %v", err)
	}
	return ops
}

// gmInStack: some function on the calling goroutine's stack ends with suffix.
func gmInStack(suffix string) bool {
	pcs := make([]uintptr, 48)
	frames := runtime.CallersFrames(pcs[:runtime.Callers(2, pcs)])
	for {
		fr, more := frames.Next()
		if strings.HasSuffix(fr.Function, suffix) {
			return true
		}
		if !more {
			return false
		}
	}
}

// gmBlockedConfirmed: a write after a refused batch was once seen to hang for good in this process;
// the shrinker's re-runs of the same history need not wait minutes again.
var gmBlockedConfirmed bool

func gmBlockedWait() time.Duration {
	if gmBlockedConfirmed {
		return 5 * time.Second
	}
	return 45 * time.Second
}
