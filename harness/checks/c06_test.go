package verifchecks

import (
	"fmt"
	"testing"

	"pgregory.net/rapid"

	kit "github.com/mimiro-io/datahub/internal/verifkit"

	"github.com/mimiro-io/datahub/internal/server"
)

// snapshot of the current-state answers right after write op k.
type snap struct {
	k      int
	tmin   int64 // smallest commit time of the versions written by op k
	tmax   int64 // largest commit time of the versions written by op k
	look   map[string]*kit.Ent        // "id|scope" -> lookup
	rel    map[string]map[string]bool // "id|pred|inv|scope" -> set
	skip   map[string]bool            // relation queries excluded by a known shape at snapshot time
	writes int                        // number of write ops after this snapshot touching its ids
}

func scopeKey(scope []string) string { return fmt.Sprint(scope) }

// C06: history is immutable. Metamorphic: an as-of query at an instant t in
// [T_k, T_{k+1}) must return what the current-state query returned right after
// op k, whatever was written afterwards.
func TestVerif_C06(t *testing.T) {
	defer kit.S().Flush()
	defer kit.CleanupScratch()
	rapid.Check(t, func(t *rapid.T) {
		g := newGM(t, []string{"a", "b", "c"}, kit.GenCfg{MaxRefs: 3})
		defer g.close()
		var snaps []*snap
		var lastT int64
		asofChecks, lateChecks := 0, 0
		defer func() {
			kit.S().Case(g.hist, lateChecks >= 1 && len(snaps) >= 4, g.classes()...)
			kit.S().AddExtra("asof_queries_compared", asofChecks)
			kit.JournalDone()
		}()
		afterWrite := func() {
			tmin, tmax := g.commitTimesSince(lastT)
			if tmax == 0 {
				return // nothing was written (all identical)
			}
			lastT = tmax
			snaps = append(snaps, g.takeSnap(len(g.hist)-1, tmin, tmax))
		}
		t.Repeat(map[string]func(*rapid.T){
			"batch": func(t *rapid.T) { g.t = t; g.applyBatch(g.genBatchOp()); afterWrite() },
			"txn":   func(t *rapid.T) { g.t = t; g.applyTxn(g.genTxnOp()); afterWrite() },
			"asOf": func(t *rapid.T) {
				g.t = t
				if len(snaps) == 0 {
					t.Skip("no snapshot yet")
				}
				i := rapid.IntRange(0, len(snaps)-1).Draw(t, "snap")
				pos := rapid.IntRange(0, 3).Draw(t, "pos")
				lim := kit.GenLimits(t, false)
				g.record(Op{K: "asOf", N: i, Limits: lim, Pred: fmt.Sprint("pos", pos)})
				n := g.checkAsOf(snaps, i, pos, lim)
				asofChecks += n
				if len(snaps)-1-i >= 3 {
					lateChecks++
					g.cls["asof-with>=3-later-writes"] = true
				}
				if pos == 0 {
					g.cls["asof-exactly-at-commit-time"] = true
				}
			},
			"": func(t *rapid.T) {},
		})
		// final sweep: every snapshot at its own commit time and just before the next one
		for i := range snaps {
			asofChecks += g.checkAsOf(snaps, i, 0, nil)
			asofChecks += g.checkAsOf(snaps, i, 3, []int{1})
			if len(snaps)-1-i >= 3 {
				lateChecks++
			}
		}
	})
}

// commitTimesSince returns the min/max recorded time of versions with recorded > after.
func (g *gm) commitTimesSince(after int64) (tmin, tmax int64) {
	for _, ds := range g.names {
		d := g.h.Dsm.GetDataset(ds)
		ch, err := d.GetChanges(0, 0, false)
		if err != nil {
			g.fail("GetChanges: %v", err)
		}
		for _, e := range ch.Entities {
			r := int64(e.Recorded)
			if r > after {
				if tmin == 0 || r < tmin {
					tmin = r
				}
				if r > tmax {
					tmax = r
				}
			}
		}
	}
	return
}

func (g *gm) takeSnap(k int, tmin, tmax int64) *snap {
	s := &snap{k: k, tmin: tmin, tmax: tmax, look: map[string]*kit.Ent{}, rel: map[string]map[string]bool{}, skip: map[string]bool{}}
	preds := append([]string{"*"}, g.pool.Preds...)
	for _, id := range g.pool.IDs {
		for _, scope := range g.scopes() {
			e, err := g.h.Lookup(id, scope)
			if err != nil {
				g.fail("lookup: %v", err)
			}
			s.look[id+"|"+scopeKey(scope)] = kit.FromEntity(e)
			for _, p := range preds {
				for _, inv := range []bool{false, true} {
					key := fmt.Sprintf("%s|%s|%v|%s", id, p, inv, scopeKey(scope))
					if inv && kit.Known("F04") && g.shapeF04(id, p, scope) {
						s.skip[key] = true
						continue
					}
					set, _, err := g.h.Related(id, p, inv, scope, nil)
					if err != nil {
						g.fail("related: %v", err)
					}
					s.rel[key] = set
				}
			}
		}
	}
	return s
}

// checkAsOf evaluates lookups and relation queries pinned to an instant inside
// [snaps[i].tmax, next.tmin) and compares them with the snapshot.
func (g *gm) checkAsOf(snaps []*snap, i int, pos int, limits []int) int {
	s := snaps[i]
	at := s.tmax
	if i+1 < len(snaps) {
		next := snaps[i+1].tmin
		switch pos {
		case 1:
			at = s.tmax + 1
		case 2:
			at = s.tmax + (next-s.tmax)/2
		case 3:
			at = next - 1
		}
		if at < s.tmax || at >= next {
			at = s.tmax
		}
	} else if pos != 0 {
		at = s.tmax + int64(pos)
	}
	n := 0
	preds := append([]string{"*"}, g.pool.Preds...)
	for _, id := range g.pool.IDs {
		cur, err := g.h.Lookup(id, nil)
		if err != nil {
			g.fail("lookup: %v", err)
		}
		for _, scope := range g.scopes() {
			want := s.look[id+"|"+scopeKey(scope)]
			if cur != nil {
				got, err := g.h.Store.GetEntityAtPointInTimeWithInternalID(cur.InternalID, at, g.h.Store.DatasetsToInternalIDs(scope), true)
				if err != nil {
					g.fail("as-of lookup: %v", err)
				}
				ge := kit.FromEntity(got)
				if want == nil {
					// the id did not exist yet at snapshot time: nothing may be visible as of then
					if len(ge.Props) > 0 || len(ge.Refs) > 0 {
						g.fail("ASOF-LOOKUP-PHANTOM id=%s scope=%v at=%d (snapshot after op %d): as-of answer %s but the id was unknown then", id, scope, at, s.k, ge.Key())
					}
				} else if !kit.EqualContent(ge, want) {
					g.fail("ASOF-LOOKUP id=%s scope=%v at=%d pos=%d (snapshot after op %d, T=[%d,%d])\n as-of now  =%s\n answer then=%s", id, scope, at, pos, s.k, s.tmin, s.tmax, ge.Key(), want.Key())
				}
				n++
			}
			for _, p := range preds {
				for _, inv := range []bool{false, true} {
					key := fmt.Sprintf("%s|%s|%v|%s", id, p, inv, scopeKey(scope))
					if s.skip[key] {
						kit.S().Exclude("F04")
						continue
					}
					if inv && kit.Known("F04") && g.shapeF04(id, p, scope) {
						// the shape may have arisen after the snapshot; the keys as of t are
						// unchanged, but stay strictly within what was compared then
					}
					want := s.rel[key]
					got, dup, err := g.relatedAt(id, p, inv, scope, at, limits)
					if err != nil {
						g.fail("as-of relation query: %v", err)
					}
					if !kit.EqualSets(got, want) {
						g.fail("ASOF-REL start=%s pred=%s inv=%v scope=%v at=%d pos=%d limits=%v (snapshot after op %d)\n as-of now  =%s\n answer then=%s", id, p, inv, scope, at, pos, limits, s.k, kit.SetStr(got), kit.SetStr(want))
					}
					if dup != "" {
						g.fail("ASOF-REL-DUP start=%s pred=%s inv=%v scope=%v at=%d limits=%v pair %s twice", id, p, inv, scope, at, limits, dup)
					}
					n++
				}
			}
		}
	}
	return n
}

// relatedAt runs a relationship query pinned to instant at, following
// continuations (which carry the instant).
func (g *gm) relatedAt(start, pred string, inv bool, scope []string, at int64, limits []int) (map[string]bool, string, error) {
	set := map[string]bool{}
	dup := ""
	from, err := g.h.Store.ToRelatedFrom([]string{start}, pred, inv, scope, at)
	if err != nil {
		if isNoPredicate(err) {
			return set, "", nil
		}
		return nil, "", err
	}
	if from == nil {
		return set, "", nil
	}
	var res server.RelatedEntitiesQueryResult
	for i := 0; i < 10000; i++ {
		lim := 0
		if len(limits) > 0 {
			lim = limits[i%len(limits)]
			if lim == 0 {
				lim = 1
			}
		}
		res, err = g.h.Store.GetManyRelatedEntitiesAtTime(from, lim, true)
		if err != nil {
			return nil, "", err
		}
		for _, x := range res.Relations {
			id := ""
			if x.RelatedEntity != nil {
				id = x.RelatedEntity.ID
			}
			k := x.PredicateURI + "|" + id
			if set[k] && dup == "" {
				dup = k
			}
			set[k] = true
		}
		if len(res.Cont) == 0 || lim == 0 {
			break
		}
		for _, c := range res.Cont {
			if c.At != at {
				return nil, "", fmt.Errorf("continuation does not pin the query instant: At=%d want %d", c.At, at)
			}
		}
		from = res.Cont
	}
	return set, dup, nil
}

func isNoPredicate(err error) bool {
	return err != nil && len(err.Error()) > 0 && containsStr(err.Error(), "could not load predicate id")
}

func containsStr(s, sub string) bool {
	for i := 0; i+len(sub) <= len(s); i++ {
		if s[i:i+len(sub)] == sub {
			return true
		}
	}
	return false
}
