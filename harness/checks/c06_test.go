package verifchecks

import (
	"fmt"
	"sync"
	"testing"
	"time"

	"pgregory.net/rapid"

	kit "github.com/mimiro-io/datahub/internal/verifkit"

	"github.com/mimiro-io/datahub/internal/server"
	"github.com/mimiro-io/datahub/internal/verifhook"
)

// snapshot of the current-state answers right after write op k.
type snap struct {
	k      int
	tmin   int64                      // smallest commit time of the versions written by op k
	tmax   int64                      // largest commit time of the versions written by op k
	look   map[string]*kit.Ent        // "id|scope" -> lookup
	rel    map[string]map[string]bool // "id|pred|inv|scope" -> set
	skip   map[string]bool            // relation queries excluded by a known shape at snapshot time
	writes int                        // number of write ops after this snapshot touching its ids
}

func scopeKey(scope []string) string { return fmt.Sprint(scope) }

// C06: history is immutable. Metamorphic: an as-of query at an instant t in
// [T_k, T_{k+1}) must return what the current-state query returned right after
// op k, whatever was written afterwards.
func TestVerif_C06(t *testing.T) {
	defer kit.S().Flush()
	defer kit.CleanupScratch()
	rapid.Check(t, func(t *rapid.T) {
		g := newGM(t, []string{"a", "b", "c"}, kit.GenCfg{MaxRefs: 3})
		defer g.close()
		var snaps []*snap
		var lastT int64
		asofChecks, lateChecks := 0, 0
		defer func() {
			kit.S().Case(g.hist, lateChecks >= 1 && len(snaps) >= 4, g.classes()...)
			kit.S().AddExtra("asof_queries_compared", asofChecks)
			kit.JournalDone()
		}()
		afterWrite := func() {
			tmin, tmax := g.commitTimesSince(lastT)
			if tmax == 0 {
				return // nothing was written (all identical)
			}
			lastT = tmax
			snaps = append(snaps, g.takeSnap(len(g.hist)-1, tmin, tmax))
		}
		t.Repeat(map[string]func(*rapid.T){
			"batch": func(t *rapid.T) { g.t = t; g.applyBatch(g.genBatchOp()); afterWrite() },
			"txn":   func(t *rapid.T) { g.t = t; g.applyTxn(g.genTxnOp()); afterWrite() },
			"asOf": func(t *rapid.T) {
				g.t = t
				if len(snaps) == 0 {
					t.Skip("no snapshot yet")
				}
				i := rapid.IntRange(0, len(snaps)-1).Draw(t, "snap")
				pos := rapid.IntRange(0, 3).Draw(t, "pos")
				lim := kit.GenLimits(t, false)
				g.record(Op{K: "asOf", N: i, Limits: lim, Pred: fmt.Sprint("pos", pos)})
				n := g.checkAsOf(snaps, i, pos, lim)
				asofChecks += n
				if len(snaps)-1-i >= 3 {
					lateChecks++
					g.cls["asof-with>=3-later-writes"] = true
				}
				if pos == 0 {
					g.cls["asof-exactly-at-commit-time"] = true
				}
			},
			"": func(t *rapid.T) {},
		})
		// final sweep: every snapshot at its own commit time and just before the next one
		for i := range snaps {
			asofChecks += g.checkAsOf(snaps, i, 0, nil)
			asofChecks += g.checkAsOf(snaps, i, 3, []int{1})
			if len(snaps)-1-i >= 3 {
				lateChecks++
			}
		}
	})
}

// commitTimesSince returns the min/max recorded time of versions with recorded > after.
func (g *gm) commitTimesSince(after int64) (tmin, tmax int64) {
	for _, ds := range g.names {
		d := g.h.Dsm.GetDataset(ds)
		ch, err := d.GetChanges(0, 0, false)
		if err != nil {
			g.fail("GetChanges: %v", err)
		}
		for _, e := range ch.Entities {
			r := int64(e.Recorded)
			if r > after {
				if tmin == 0 || r < tmin {
					tmin = r
				}
				if r > tmax {
					tmax = r
				}
			}
		}
	}
	return
}

func (g *gm) takeSnap(k int, tmin, tmax int64) *snap {
	s := &snap{k: k, tmin: tmin, tmax: tmax, look: map[string]*kit.Ent{}, rel: map[string]map[string]bool{}, skip: map[string]bool{}}
	preds := append([]string{"*"}, g.pool.Preds...)
	for _, id := range g.pool.IDs {
		for _, scope := range g.scopes() {
			e, err := g.h.Lookup(id, scope)
			if err != nil {
				g.fail("lookup: %v", err)
			}
			s.look[id+"|"+scopeKey(scope)] = kit.FromEntity(e)
			for _, p := range preds {
				for _, inv := range []bool{false, true} {
					key := fmt.Sprintf("%s|%s|%v|%s", id, p, inv, scopeKey(scope))
					if inv && kit.Known("F04") && g.shapeF04(id, p, scope) {
						s.skip[key] = true
						continue
					}
					set, _, err := g.h.Related(id, p, inv, scope, nil)
					if err != nil {
						g.fail("related: %v", err)
					}
					s.rel[key] = set
				}
			}
		}
	}
	return s
}

// checkAsOf evaluates lookups and relation queries pinned to an instant inside
// [snaps[i].tmax, next.tmin) and compares them with the snapshot.
func (g *gm) checkAsOf(snaps []*snap, i int, pos int, limits []int) int {
	s := snaps[i]
	at := s.tmax
	if i+1 < len(snaps) {
		next := snaps[i+1].tmin
		switch pos {
		case 1:
			at = s.tmax + 1
		case 2:
			at = s.tmax + (next-s.tmax)/2
		case 3:
			at = next - 1
		}
		if at < s.tmax || at >= next {
			at = s.tmax
		}
	} else if pos != 0 {
		at = s.tmax + int64(pos)
	}
	n := 0
	preds := append([]string{"*"}, g.pool.Preds...)
	for _, id := range g.pool.IDs {
		cur, err := g.h.Lookup(id, nil)
		if err != nil {
			g.fail("lookup: %v", err)
		}
		for _, scope := range g.scopes() {
			want := s.look[id+"|"+scopeKey(scope)]
			if cur != nil {
				got, err := g.h.Store.GetEntityAtPointInTimeWithInternalID(cur.InternalID, at, g.h.Store.DatasetsToInternalIDs(scope), true)
				if err != nil {
					g.fail("as-of lookup: %v", err)
				}
				ge := kit.FromEntity(got)
				if want == nil {
					// the id did not exist yet at snapshot time: nothing may be visible as of then
					if len(ge.Props) > 0 || len(ge.Refs) > 0 {
						g.fail("ASOF-LOOKUP-PHANTOM id=%s scope=%v at=%d (snapshot after op %d): as-of answer %s but the id was unknown then", id, scope, at, s.k, ge.Key())
					}
				} else if !kit.EqualContent(ge, want) {
					g.fail("ASOF-LOOKUP id=%s scope=%v at=%d pos=%d (snapshot after op %d, T=[%d,%d])\n as-of now  =%s\n answer then=%s", id, scope, at, pos, s.k, s.tmin, s.tmax, ge.Key(), want.Key())
				}
				n++
			}
			for _, p := range preds {
				for _, inv := range []bool{false, true} {
					key := fmt.Sprintf("%s|%s|%v|%s", id, p, inv, scopeKey(scope))
					if s.skip[key] {
						kit.S().Exclude("F04")
						continue
					}
					if inv && kit.Known("F04") && g.shapeF04(id, p, scope) {
						// the shape may have arisen after the snapshot; the keys as of t are
						// unchanged, but stay strictly within what was compared then
					}
					want := s.rel[key]
					got, dup, err := g.relatedAt(id, p, inv, scope, at, limits)
					if err != nil {
						g.fail("as-of relation query: %v", err)
					}
					if !kit.EqualSets(got, want) {
						g.fail("ASOF-REL start=%s pred=%s inv=%v scope=%v at=%d pos=%d limits=%v (snapshot after op %d)\n as-of now  =%s\n answer then=%s", id, p, inv, scope, at, pos, limits, s.k, kit.SetStr(got), kit.SetStr(want))
					}
					if dup != "" {
						g.fail("ASOF-REL-DUP start=%s pred=%s inv=%v scope=%v at=%d limits=%v pair %s twice", id, p, inv, scope, at, limits, dup)
					}
					n++
				}
			}
		}
	}
	return n
}

// relatedAt runs a relationship query pinned to instant at, following
// continuations (which carry the instant).
func (g *gm) relatedAt(start, pred string, inv bool, scope []string, at int64, limits []int) (map[string]bool, string, error) {
	set := map[string]bool{}
	dup := ""
	from, err := g.h.Store.ToRelatedFrom([]string{start}, pred, inv, scope, at)
	if err != nil {
		if isNoPredicate(err) {
			return set, "", nil
		}
		return nil, "", err
	}
	if from == nil {
		return set, "", nil
	}
	var res server.RelatedEntitiesQueryResult
	for i := 0; i < 10000; i++ {
		lim := 0
		if len(limits) > 0 {
			lim = limits[i%len(limits)]
			if lim == 0 {
				lim = 1
			}
		}
		res, err = g.h.Store.GetManyRelatedEntitiesAtTime(from, lim, true)
		if err != nil {
			return nil, "", err
		}
		for _, x := range res.Relations {
			id := ""
			if x.RelatedEntity != nil {
				id = x.RelatedEntity.ID
			}
			k := x.PredicateURI + "|" + id
			if set[k] && dup == "" {
				dup = k
			}
			set[k] = true
		}
		if len(res.Cont) == 0 || lim == 0 {
			break
		}
		for _, c := range res.Cont {
			if c.At != at {
				return nil, "", fmt.Errorf("continuation does not pin the query instant: At=%d want %d", c.At, at)
			}
		}
		from = res.Cont
	}
	return set, dup, nil
}

func isNoPredicate(err error) bool {
	return err != nil && len(err.Error()) > 0 && containsStr(err.Error(), "could not load predicate id")
}

func containsStr(s, sub string) bool {
	for i := 0; i+len(sub) <= len(s); i++ {
		if s[i:i+len(sub)] == sub {
			return true
		}
	}
	return false
}

// C06, forced schedule: a write that is acknowledged after the instant t must
// not change what an as-of-t query returns, also when the writer had already
// arrived (and was waiting for the dataset) before t. The harness owns the
// schedule: writer 1 is parked after its data commit, still holding the
// dataset's write lock (hook point store.afterCommit / txn.afterCommit);
// writer 2 (batch or transaction touching the same dataset) is started and the
// lock trace shows it waiting for that dataset; then t = now and the
// current-state answers S are taken; writer 1 is released, both finish, and
// every as-of-t lookup and relation query is compared with S.
func TestVerif_C06_overlap(t *testing.T) {
	defer kit.S().Flush()
	defer kit.CleanupScratch()
	rapid.Check(t, func(t *rapid.T) {
		g := newGM(t, []string{"a", "b", "c"}, kit.GenCfg{MaxRefs: 3})
		defer g.close()
		defer verifhook.Reset()
		defer verifhook.SetLockTracer(nil)
		n := rapid.IntRange(0, 5).Draw(t, "prefix")
		for i := 0; i < n; i++ {
			g.t = t
			if rapid.IntRange(0, 2).Draw(t, "kind") == 0 {
				g.applyTxn(g.genTxnOp())
			} else {
				g.applyBatch(g.genBatchOp())
			}
		}
		g.t = t
		// writer 1: a batch (parked at store.afterCommit) or a transaction (txn.afterCommit)
		w1 := g.genBatchOp()
		point := "store.afterCommit"
		if rapid.IntRange(0, 3).Draw(t, "w1txn") == 0 {
			w1 = g.genTxnOp()
			point = "txn.afterCommit"
		}
		held := map[string]bool{}
		if w1.K == "txn" {
			for ds := range w1.Parts {
				held[ds] = true
			}
		} else {
			held[w1.DS] = true
		}
		// writer 2 touches a dataset writer 1 holds
		var w2 Op
		for tries := 0; ; tries++ {
			if rapid.IntRange(0, 2).Draw(t, "w2txn") == 0 {
				w2 = g.genTxnOp()
			} else {
				w2 = g.genBatchOp()
			}
			hit := held[w2.DS]
			for ds := range w2.Parts {
				hit = hit || held[ds]
			}
			if hit {
				break
			}
			if tries > 20 {
				t.Skip("no overlapping second writer drawn")
			}
		}
		// bookkeeping (history, classes, F04 shape) for both writers; execution is below
		h := g.h
		g.h = nil
		for _, w := range []Op{w1, w2} {
			if w.K == "txn" {
				g.applyTxn(w)
			} else {
				g.applyBatch(w)
			}
		}
		g.h = h
		kit.Journal(g.hist)
		defer kit.JournalDone()

		parked, release := make(chan struct{}), make(chan struct{})
		var once sync.Once
		verifhook.Reset()
		verifhook.SetCallback(point, func(hit int) {
			if hit == 1 {
				once.Do(func() { close(parked); <-release })
			}
		})
		var tmu sync.Mutex
		waiting := false
		var g1 int64
		verifhook.SetLockTracer(func(ev, kind, id string, gid int64) {
			tmu.Lock()
			defer tmu.Unlock()
			if kind != "ds" {
				return
			}
			if ev == "acquired" && g1 == 0 {
				g1 = gid
			}
			if ev == "acquire" && g1 != 0 && gid != g1 && held[id] {
				waiting = true
			}
		})
		e1, e2 := make(chan error, 1), make(chan error, 1)
		go func() { e1 <- execOp(h, w1) }()
		select {
		case <-parked:
		case err := <-e1:
			// nothing was stored (all elements identical to the current versions): no commit, no parking
			if err != nil {
				g.fail("writer 1: %v", err)
			}
			t.Skip("writer 1 stored nothing")
		case <-time.After(20 * time.Second):
			kit.S().Inconcl()
			close(release)
			t.Skip("writer 1 did not reach the pause point (inconclusive)")
		}
		go func() { e2 <- execOp(h, w2) }()
		deadline := time.Now().Add(10 * time.Second)
		for {
			tmu.Lock()
			w := waiting
			tmu.Unlock()
			if w {
				break
			}
			if time.Now().After(deadline) {
				kit.S().Inconcl()
				close(release)
				<-e1
				<-e2
				t.Skip("writer 2 was not seen waiting for the dataset (inconclusive)")
			}
			time.Sleep(200 * time.Microsecond)
		}
		time.Sleep(2 * time.Millisecond) // writer 2 is blocked on the mutex by now
		at := time.Now().UnixNano()
		s := g.takeSnap(len(g.hist)-1, at, at)
		close(release)
		for _, c := range []chan error{e1, e2} {
			select {
			case err := <-c:
				if err != nil {
					g.fail("writer failed: %v", err)
				}
			case <-time.After(30 * time.Second):
				g.fail("WRITER-HANGS: a writer did not finish within 30s after the first one was released")
			}
		}
		verifhook.Reset()
		verifhook.SetLockTracer(nil)
		lim := kit.GenLimits(t, false)
		nq := g.checkAsOf([]*snap{s}, 0, 0, lim)
		kit.S().AddExtra("asof_queries_compared", nq)
		cls := append(g.classes(), "overlap-w1-"+w1.K, "overlap-w2-"+w2.K)
		kit.S().Case(g.hist, true, cls...)
	})
}
