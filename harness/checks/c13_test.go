package verifchecks

// C13: namespace prefixes and internal identifiers are one-to-one, permanent,
// race-free.
//
//	TestVerif_C13_roundtrip   (a) thousands of generated URIs through Store,
//	                              namespace.Manager and entity.Lookup
//	TestVerif_C13_bijection   (b) state machine: first uses in random order
//	                              across datasets / writers, restarts, crashes
//	TestVerif_C13_storm       (c) schedules, in a child process (a concurrent
//	                              map iteration and write is a fatal error)
//
// Everything here is prefixed c13 (the package is shared by many checks).

import (
	"encoding/binary"
	"encoding/json"
	"errors"
	"fmt"
	"os"
	"os/exec"
	"path/filepath"
	"runtime"
	"sort"
	"strings"
	"sync"
	"sync/atomic"
	"syscall"
	"testing"
	"time"

	"github.com/DataDog/datadog-go/v5/statsd"
	"github.com/dgraph-io/badger/v4"
	"go.uber.org/zap"
	"pgregory.net/rapid"

	"github.com/mimiro-io/datahub/internal/conf"

	"github.com/mimiro-io/datahub/internal/server"
	"github.com/mimiro-io/datahub/internal/service/entity"
	"github.com/mimiro-io/datahub/internal/service/namespace"
	"github.com/mimiro-io/datahub/internal/verifhook"
	kit "github.com/mimiro-io/datahub/internal/verifkit"
)

// ---- shared helpers ------------------------------------------------------------

// c13Bijective: no two prefixes share an expansion (prefix->expansion is a
// function by construction of the map).
func c13Bijective(m map[string]string) string {
	rev := map[string]string{}
	for _, p := range kit.SortedKeys(m) {
		if q, ok := rev[m[p]]; ok {
			return fmt.Sprintf("expansion %q has two prefixes: %s and %s", m[p], q, p)
		}
		rev[m[p]] = p
	}
	return ""
}

// c13Superset: every mapping of prev is unchanged in cur.
func c13Superset(prev, cur map[string]string) string {
	for _, p := range kit.SortedKeys(prev) {
		if e, ok := cur[p]; !ok {
			return fmt.Sprintf("prefix %s (-> %q) was handed out earlier and is gone", p, prev[p])
		} else if e != prev[p] {
			return fmt.Sprintf("prefix %s meant %q earlier and means %q now", p, prev[p], e)
		}
	}
	return ""
}

// c13Consistent: a context is consistent with the namespace map when every
// prefix it carries has the same expansion there.
func c13Consistent(ctx, all map[string]string) string {
	for _, p := range kit.SortedKeys(ctx) {
		if e, ok := all[p]; !ok {
			return fmt.Sprintf("context carries prefix %s (-> %q) that GET /namespaces does not know", p, ctx[p])
		} else if e != ctx[p] {
			return fmt.Sprintf("context maps prefix %s to %q, GET /namespaces to %q", p, ctx[p], e)
		}
	}
	return ""
}

func c13Expand(curie string, ctx map[string]string) (string, bool) {
	i := strings.Index(curie, ":")
	if i < 0 {
		return "", false
	}
	e, ok := ctx[curie[:i]]
	return e + curie[i+1:], ok
}

func c13Namespaces(h *WHub) (map[string]string, error) {
	code, body := h.Do("GET", "/namespaces", "", nil)
	if code != 200 {
		return nil, fmt.Errorf("GET /namespaces -> %d %s", code, body)
	}
	m := map[string]string{}
	if err := json.Unmarshal([]byte(body), &m); err != nil {
		return nil, fmt.Errorf("GET /namespaces: %v: %.200s", err, body)
	}
	return m, nil
}

type c13Ent struct {
	ID         string            `json:"id"`
	InternalID uint64            `json:"internalId"`
	Recorded   uint64            `json:"recorded"`
	Props      map[string]any    `json:"props"`
	Refs       map[string]any    `json:"refs"`
	Namespaces map[string]string `json:"namespaces"`
}

// c13Query: POST /query {entityId}. found = the hub knows versions of it.
func c13Query(h *WHub, id string, details bool) (ctx map[string]string, e *c13Ent, found bool, err error) {
	q, _ := json.Marshal(map[string]any{"entityId": id, "details": details})
	code, body := h.Do("POST", "/query", string(q), nil)
	if code != 200 {
		return nil, nil, false, fmt.Errorf("POST /query %s -> %d %s", id, code, body)
	}
	var raw []json.RawMessage
	if err := json.Unmarshal([]byte(body), &raw); err != nil || len(raw) != 2 {
		return nil, nil, false, fmt.Errorf("POST /query %s: bad response %.300s", id, body)
	}
	var c c13Ent
	if err := json.Unmarshal(raw[0], &c); err != nil {
		return nil, nil, false, err
	}
	e = &c13Ent{}
	if err := json.Unmarshal(raw[1], e); err != nil {
		return nil, nil, false, err
	}
	return c.Namespaces, e, e.InternalID != 0 && e.Recorded != 0, nil
}

// c13List: GET /datasets/{ds}/entities (ids, internal ids, context).
func c13List(h *WHub, ds string) (ctx map[string]string, ents []*c13Ent, err error) {
	code, body := h.Do("GET", "/datasets/"+ds+"/entities", "", nil)
	if code != 200 {
		return nil, nil, fmt.Errorf("GET entities of %s -> %d %s", ds, code, body)
	}
	var raw []json.RawMessage
	if err := json.Unmarshal([]byte(body), &raw); err != nil {
		return nil, nil, fmt.Errorf("GET entities of %s: %v", ds, err)
	}
	for i, r := range raw {
		e := &c13Ent{}
		if err := json.Unmarshal(r, e); err != nil {
			return nil, nil, err
		}
		switch {
		case i == 0 && e.ID == "@context":
			ctx = e.Namespaces
		case e.ID == "@continuation":
		default:
			ents = append(ents, e)
		}
	}
	return ctx, ents, nil
}

// c13RawIDs reads the two identifier indexes through the raw handle: they must
// be mutually inverse and no internal id may serve two identifier strings.
func c13RawIDs(h *kit.Hub) (uri2id map[string]uint64, msg string) {
	uri2id = map[string]uint64{}
	id2uri := map[uint64]string{}
	db := server.NewBadgerAccess(h.Store, h.Dsm).GetDB()
	_ = db.View(func(txn *badger.Txn) error {
		for _, idx := range []uint16{server.URIToIDIndexID, server.IDToURIIndexID} {
			pfx := make([]byte, 2)
			binary.BigEndian.PutUint16(pfx, idx)
			opts := badger.DefaultIteratorOptions
			opts.Prefix = pfx
			it := txn.NewIterator(opts)
			for it.Rewind(); it.ValidForPrefix(pfx); it.Next() {
				k := it.Item().KeyCopy(nil)
				v, _ := it.Item().ValueCopy(nil)
				if idx == server.URIToIDIndexID {
					if len(v) == 8 {
						uri2id[string(k[2:])] = binary.BigEndian.Uint64(v)
					}
				} else if len(k) == 10 {
					id2uri[binary.BigEndian.Uint64(k[2:])] = string(v)
				}
			}
			it.Close()
		}
		return nil
	})
	seen := map[uint64]string{}
	for _, u := range kit.SortedKeys(uri2id) {
		id := uri2id[u]
		if prev, ok := seen[id]; ok {
			return uri2id, fmt.Sprintf("internal id %d is assigned to two identifiers: %q and %q", id, prev, u)
		}
		seen[id] = u
		if id2uri[id] != u {
			return uri2id, fmt.Sprintf("identifier %q has internal id %d, but id %d resolves to %q", u, id, id, id2uri[id])
		}
	}
	for id, u := range id2uri {
		if got, ok := uri2id[u]; !ok || got != id {
			return uri2id, fmt.Sprintf("id %d resolves to %q, but that identifier has internal id %d (known=%v)", id, u, got, ok)
		}
	}
	return uri2id, ""
}

func c13Fail(f fataler, c any, format string, a ...any) {
	b, _ := json.Marshal(c)
	f.Fatalf("%s\nVERIF-CASE-BEGIN\n%s\nVERIF-CASE-END", fmt.Sprintf(format, a...), b)
}

// ---- (a) round trip --------------------------------------------------------------

var (
	c13Schemes = []string{"http://", "http://", "https://"}
	c13Hosts   = []string{"ex.org", "a", "x.y:8080", "ünï.org", "data.example.com", "h"}
	c13Segs    = []string{"/a", "/b.c", "/c:d", "/e%20f", "/ü", "//", "/1", "/s", "/t-u_v", "/#", "#frag"}
	c13Locals  = []string{"", "x", "a:b", "a b", "ü", "1", "x?y=z", "a:b:c", ":", "x.y-z_1", "e0", "Person"}
)

// c13GenURI draws an absolute http(s) URI: hash and slash namespaces, empty
// local part, ':' '#' '/' in the local part, https, unicode.
func c13GenURI(t *rapid.T) string {
	var sb strings.Builder
	sb.WriteString(rapid.SampledFrom(c13Schemes).Draw(t, "scheme"))
	sb.WriteString(rapid.SampledFrom(c13Hosts).Draw(t, "host"))
	if rapid.IntRange(0, 11).Draw(t, "bareAuthority") == 0 {
		// no path at all: http://ex.org, https://x.y:8080
		return sb.String()
	}
	n := rapid.IntRange(0, 3).Draw(t, "nseg")
	for i := 0; i < n; i++ {
		sb.WriteString(rapid.SampledFrom(c13Segs).Draw(t, "seg"))
	}
	if rapid.IntRange(0, 9).Draw(t, "fresh") == 0 {
		// a namespace nobody has used yet
		fmt.Fprintf(&sb, "/n%d", rapid.IntRange(0, 1<<30).Draw(t, "n"))
	}
	term := rapid.SampledFrom([]string{"/", "/", "#"}).Draw(t, "term")
	sb.WriteString(term)
	local := rapid.SampledFrom(c13Locals).Draw(t, "local")
	switch rapid.IntRange(0, 9).Draw(t, "sepInLocal") {
	case 0:
		if term == "#" {
			local = "p/" + local // '/' in the local part of a hash namespace
		}
	case 1:
		local = local + "#" + rapid.SampledFrom(c13Locals).Draw(t, "local2") // the last '#' wins
	}
	sb.WriteString(local)
	return sb.String()
}

func c13HasSep(local string) bool { return strings.ContainsAny(local, ":#/") }

// shapeF21: inputs on which namespace.Manager (and with it entity.Lookup) is
// known to split differently from the store.
func c13ShapeF21URI(u string) bool       { return strings.Contains(u, "#") }
func c13ShapeF21Curie(curie string) bool { return strings.Count(curie, ":") != 1 }

type c13RT struct {
	h      *WHub
	exp2p  map[string]string
	p2exp  map[string]string
	lookup entity.Lookup
	nsm    namespace.Manager
	stored map[string]bool
	n      int
}

func newC13RT(f fataler) *c13RT {
	h := NewWHub(kit.HubOpts{})
	if _, err := h.Dsm.CreateDataset("a", nil); err != nil {
		f.Fatalf("VERIF-INFRA create dataset: %v", err)
	}
	ba := server.NewBadgerAccess(h.Store, h.Dsm)
	l, _ := entity.NewLookup(ba)
	return &c13RT{h: h, exp2p: map[string]string{}, p2exp: map[string]string{}, lookup: l, nsm: namespace.NewManager(ba), stored: map[string]bool{}}
}

// one checks one URI. noExclude: probes run without known-shape exclusions.
func (r *c13RT) one(f fataler, u string, agree bool, noExclude bool) (nontrivial bool) {
	s := r.h.Store
	fail := func(format string, a ...any) { c13Fail(f, map[string]any{"uri": u}, format, a...) }
	c, err := s.GetNamespacedIdentifier(u, nil)
	if err != nil || c == "" {
		fail("ROUNDTRIP GetNamespacedIdentifier(%q) = %q, %v", u, c, err)
	}
	back, err := s.ExpandCurie(c)
	if err != nil || back != u {
		fail("ROUNDTRIP %q -> %q -> %q (err=%v)", u, c, back, err)
	}
	c2, err := s.GetNamespacedIdentifierFromURI(u)
	if err != nil || c2 != c {
		fail("ROUNDTRIP the two compaction entry points disagree on %q: %q vs %q (err=%v)", u, c, c2, err)
	}
	i := strings.Index(c, ":")
	if i <= 0 {
		fail("ROUNDTRIP compact form %q of %q has no prefix", c, u)
	}
	prefix, local := c[:i], c[i+1:]
	if !strings.HasSuffix(u, local) {
		fail("ROUNDTRIP local part %q of %q is not a suffix of %q", local, c, u)
	}
	expansion := u[:len(u)-len(local)]
	if p, ok := r.exp2p[expansion]; ok && p != prefix {
		fail("PERMANENCE expansion %q had prefix %s, now %s", expansion, p, prefix)
	}
	if e, ok := r.p2exp[prefix]; ok && e != expansion {
		fail("BIJECTION prefix %s stood for %q, now also for %q", prefix, e, expansion)
	}
	r.exp2p[expansion], r.p2exp[prefix] = prefix, expansion
	r.n++
	if r.n%200 == 0 {
		r.sweep(f)
	}
	if !agree {
		return c13HasSep(local)
	}
	// the hub's second resolver (namespace.Manager / entity.Lookup, used by
	// POST /query {details:true}) must name the same entity as the store
	if !r.stored[c] {
		if err := r.h.Dsm.GetDataset("a").StoreEntities([]*server.Entity{kit.ToEntity(&kit.Ent{ID: c, Props: map[string]any{}, Refs: map[string]any{}})}); err != nil {
			fail("VERIF-INFRA store entity %q: %v", c, err)
		}
		r.stored[c] = true
	}
	se, err := s.GetEntity(u, nil, true)
	if err != nil || se == nil || se.InternalID == 0 {
		fail("LOOKUP store does not find the entity stored under %q (%q): %v", u, c, err)
	}
	if se.ID != c {
		fail("LOOKUP entity stored as %q comes back as %q", c, se.ID)
	}
	byCurie, err := s.GetEntity(c, nil, true)
	if err != nil || byCurie == nil || byCurie.InternalID != se.InternalID {
		fail("LOOKUP by URI %q and by CURIE %q name different entities", u, c)
	}
	checkDetails := func(input string, det map[string]any, err error) {
		if err != nil {
			fail("RESOLVERS-DISAGREE store resolves %q to entity %d (%s); entity.Lookup.Details(%q) fails: %v", u, se.InternalID, c, input, err)
		}
		d, _ := det["a"].(map[string]any)
		lat, _ := d["latest"].(map[string]any)
		if lat == nil {
			fail("RESOLVERS-DISAGREE store resolves %q to entity %d (%s); entity.Lookup.Details(%q) finds nothing in dataset a: %v", u, se.InternalID, c, input, det)
		}
		if id, _ := lat["internalId"].(float64); uint64(id) != se.InternalID || lat["id"] != c {
			fail("RESOLVERS-DISAGREE store resolves %q to entity %d (%s); entity.Lookup.Details(%q) to %v (%v)", u, se.InternalID, c, input, lat["internalId"], lat["id"])
		}
	}
	if !noExclude && kit.Known("F21") && c13ShapeF21URI(u) {
		kit.S().Exclude("F21")
	} else {
		det, err := r.lookup.Details(u, nil)
		checkDetails(u, det, err)
		nsURI, loc, ok := r.nsm.ExtractNamespaceURI(u)
		if !ok {
			fail("RESOLVERS-DISAGREE namespace.Manager does not accept %q", u)
		}
		p, err := r.nsm.GetNamespacePrefix(nsURI)
		if err != nil || string(p)+":"+loc != c {
			fail("RESOLVERS-DISAGREE store compacts %q to %q, namespace.Manager to %q:%q (err=%v)", u, c, p, loc, err)
		}
		if r.n%8 == 0 {
			_, e, found, err := c13Query(r.h, u, true)
			if err != nil || !found {
				fail("POST /query does not find %q: %v", u, err)
			}
			dd, _ := e.Props["datahub_details"].(map[string]any)
			if dd == nil || dd["a"] == nil {
				fail("RESOLVERS-DISAGREE POST /query {entityId:%q, details:true} returns the entity %s but datahub_details=%v", u, e.ID, e.Props["datahub_details"])
			}
		}
	}
	if !noExclude && kit.Known("F21") && c13ShapeF21Curie(c) {
		kit.S().Exclude("F21")
	} else {
		det, err := r.lookup.Details(c, nil)
		checkDetails(c, det, err)
		p, ok := r.nsm.ExtractPrefix(c)
		if !ok || string(p) != prefix {
			fail("RESOLVERS-DISAGREE store reads prefix %s in %q, namespace.Manager %q (ok=%v)", prefix, c, p, ok)
		}
		exp, err := r.nsm.ExpandPrefix(p)
		if err != nil || string(exp) != expansion {
			fail("RESOLVERS-DISAGREE prefix %s expands to %q in the store, %q in namespace.Manager (err=%v)", prefix, expansion, exp, err)
		}
	}
	return c13HasSep(local)
}

// sweep compares the bookkeeping with what the hub publishes.
func (r *c13RT) sweep(f fataler) {
	m, err := c13Namespaces(r.h)
	if err != nil {
		f.Fatalf("%v", err)
	}
	if s := c13Bijective(m); s != "" {
		f.Fatalf("BIJECTION GET /namespaces: %s", s)
	}
	if s := c13Superset(r.p2exp, m); s != "" {
		f.Fatalf("PERMANENCE GET /namespaces: %s", s)
	}
}

func TestVerif_C13_roundtrip(t *testing.T) {
	defer kit.S().Flush()
	defer kit.CleanupScratch()
	r := newC13RT(t)
	defer func() { r.h.Close() }()
	cases := 0
	rapid.Check(t, func(t *rapid.T) {
		// every new namespace makes the hub persist its whole namespace table again: with one hub
		// for a long run the store grows quadratically (gigabytes). A fresh hub every 100 cases.
		if cases++; cases%100 == 0 {
			r.sweep(t)
			kit.S().AddExtra("roundtrip_namespaces", len(r.p2exp))
			r.h.Close()
			r = newC13RT(t)
		}
		n := rapid.IntRange(10, 40).Draw(t, "n")
		for i := 0; i < n; i++ {
			u := c13GenURI(t)
			agree := rapid.IntRange(0, 2).Draw(t, "agree") == 0
			kit.Journal(map[string]any{"uri": u})
			nt := r.one(t, u, agree, false)
			cls := []string{"slash-namespace"}
			if strings.Contains(u, "#") {
				cls = []string{"hash-namespace"}
			}
			if strings.HasPrefix(u, "https") {
				cls = append(cls, "https")
			}
			if strings.HasSuffix(u, "/") || strings.HasSuffix(u, "#") {
				cls = append(cls, "empty-local-part")
			}
			if agree {
				cls = append(cls, "resolver-agreement-checked")
			}
			kit.S().Case(u, nt, cls...)
		}
		kit.JournalDone()
	})
	r.sweep(t)
	kit.S().AddExtra("roundtrip_namespaces", len(r.p2exp))
}

// F21: namespace.Manager splits a URI only at the last '/' and accepts a CURIE
// only with exactly one ':' - entity.Lookup (POST /query details) cannot
// resolve hash-namespace URIs nor CURIEs with ':' in the local part.
func TestVerifProbe_F21(t *testing.T) {
	defer kit.CleanupScratch()
	r := newC13RT(t)
	defer r.h.Close()
	for _, u := range []string{"http://ex.org/s/x1", "http://ex.org/h#x2", "http://ex.org/s/a:b"} {
		r.one(t, u, true, true)
	}
	_, e, found, err := c13Query(r.h, "http://ex.org/h#x2", true)
	if err != nil || !found {
		t.Fatalf("query: %v found=%v", err, found)
	}
	if e.Props["datahub_details"] == nil {
		t.Fatalf("POST /query {entityId:http://ex.org/h#x2, details:true}: datahub_details is null")
	}
}

// ---- (b) bijection and permanence: state machine ------------------------------------

var (
	c13NSPool = []string{
		"http://ex.org/a/", "http://ex.org/b#", "https://ex.org/a/", "http://ex.org/a/b/", "http://ünï.org/ü#",
		"http://x.y:8080/", "http://ex.org/c:d/", "https://data.example.com/schema#", "http://ex.org/", "http://h/#",
	}
	c13LocalPool = []string{"e0", "e1", "x", "a:b", "ü", "1", "Person", ""}
)

type c13E struct {
	NS     string `json:"ns"`
	Local  string `json:"local"`
	Form   string `json:"form"`            // full | curie | default
	KeyNS  string `json:"keyNs,omitempty"` // namespace of the property key and the predicate
	RefNS  string `json:"refNs,omitempty"` // reference target
	RefLoc string `json:"refLoc,omitempty"`
}

func (e c13E) uri() string { return e.NS + e.Local }

type c13Op struct {
	K     string `json:"k"` // post | restart | crash
	DS    string `json:"ds,omitempty"`
	Via   string `json:"via,omitempty"` // http | parser | ctx | txn
	Ents  []c13E `json:"ents,omitempty"`
	Point string `json:"point,omitempty"`
	// pubds: a dataset is created with these publicNamespaces (its own, filtered context)
	Public []string `json:"public,omitempty"`
}

type c13M struct {
	pub     []string // datasets created with publicNamespaces
	f       fataler
	dir     string
	h       *WHub
	hist    []c13Op
	ns      map[string]string          // prefix -> expansion as last published
	ids     map[string]uint64          // URI -> internal id, once observed
	curies  map[string]string          // URI -> store CURIE, once observed
	byID    map[uint64]string          // internal id -> URI
	in      map[string]map[string]bool // dataset -> URIs acknowledged
	maybe   map[string]map[string]bool // dataset -> URIs of a write that was killed
	firstNS map[string]int             // expansion -> epoch (number of restarts/crashes before its first use)
	epoch   int
	cls     map[string]bool
	queries int
}

func newC13M(f fataler) *c13M {
	g := &c13M{f: f, dir: kit.NewDir("c13"), ns: map[string]string{}, ids: map[string]uint64{}, curies: map[string]string{}, byID: map[uint64]string{},
		in: map[string]map[string]bool{"a": {}, "b": {}}, maybe: map[string]map[string]bool{"a": {}, "b": {}}, firstNS: map[string]int{}, cls: map[string]bool{}}
	g.h = NewWHub(kit.HubOpts{Dir: g.dir})
	for _, ds := range []string{"a", "b"} {
		if _, err := g.h.Dsm.CreateDataset(ds, nil); err != nil {
			f.Fatalf("VERIF-INFRA create dataset: %v", err)
		}
	}
	return g
}

func (g *c13M) close() {
	if g.h != nil && g.h.Store != nil {
		_ = g.h.Store.Close()
		g.h.Store = nil
	}
	_ = os.RemoveAll(g.dir)
}

func (g *c13M) fail(format string, a ...any) { c13Fail(g.f, g.hist, format, a...) }

// c13Payload renders entities as a UDA payload: a context with payload-local
// prefixes (q0, q1, ... and the default "_") and the entities in the form
// each asks for.
func c13Payload(ents []c13E) (ctx map[string]string, arr []map[string]any) {
	ctx = map[string]string{}
	local := map[string]string{}
	def := ""
	pfx := func(ns string) string {
		if p, ok := local[ns]; ok {
			return p
		}
		p := fmt.Sprintf("q%d", len(local))
		local[ns] = p
		ctx[p] = ns
		return p
	}
	form := func(f, ns, loc string) string {
		switch f {
		case "curie":
			return pfx(ns) + ":" + loc
		case "default":
			if (def == "" || def == ns) && loc != "" && !strings.Contains(loc, ":") {
				def = ns
				ctx["_"] = ns
				return loc
			}
			return pfx(ns) + ":" + loc
		}
		return ns + loc
	}
	for _, e := range ents {
		m := map[string]any{"id": form(e.Form, e.NS, e.Local), "props": map[string]any{}, "refs": map[string]any{}}
		if e.KeyNS != "" {
			m["props"] = map[string]any{form(e.Form, e.KeyNS, "k"): "v"}
			if e.RefNS != "" {
				m["refs"] = map[string]any{form(e.Form, e.KeyNS, "r"): form(e.Form, e.RefNS, e.RefLoc)}
			}
		}
		arr = append(arr, m)
	}
	return ctx, arr
}

func c13PayloadJSON(ents []c13E) string {
	ctx, arr := c13Payload(ents)
	all := []any{map[string]any{"id": "@context", "namespaces": ctx}}
	for _, m := range arr {
		all = append(all, m)
	}
	b, _ := json.Marshal(all)
	return string(b)
}

// c13Post writes the entities the way the op says.
func c13Post(h *WHub, op c13Op) error {
	switch op.Via {
	case "http":
		code, body := h.Do("POST", "/datasets/"+op.DS+"/entities", c13PayloadJSON(op.Ents), nil)
		if code != 200 {
			return fmt.Errorf("POST entities -> %d %s", code, body)
		}
	case "parser":
		es, err := h.ParseEntities([]byte(c13PayloadJSON(op.Ents)))
		if err != nil {
			return err
		}
		return h.Dsm.GetDataset(op.DS).StoreEntities(es)
	case "txn":
		ctx, arr := c13Payload(op.Ents)
		b, _ := json.Marshal(map[string]any{"@context": map[string]any{"namespaces": ctx}, op.DS: arr})
		code, body := h.Do("POST", "/transactions", string(b), nil)
		if code != 200 {
			return fmt.Errorf("POST /transactions -> %d %s", code, body)
		}
	case "ctx":
		// what a JS transform does: AssertNamespacePrefix, NewEntity, ExecuteTransaction on its contextual store
		cs := server.NewContextualStore(h.Store)
		id := func(ns, loc string) (string, error) {
			p, err := cs.NamespaceManager.AssertPrefixMappingForExpansion(ns)
			return p + ":" + loc, err
		}
		var es []*server.Entity
		for _, e := range op.Ents {
			c, err := id(e.NS, e.Local)
			if err != nil {
				return err
			}
			se := server.NewEntity(c, 0)
			if e.KeyNS != "" {
				k, err := id(e.KeyNS, "k")
				if err != nil {
					return err
				}
				se.Properties[k] = "v"
				if e.RefNS != "" {
					r, _ := id(e.KeyNS, "r")
					tg, err := id(e.RefNS, e.RefLoc)
					if err != nil {
						return err
					}
					se.References[r] = tg
				}
			}
			es = append(es, se)
		}
		return cs.ExecuteTransaction(&server.Transaction{DatasetEntities: map[string][]*server.Entity{op.DS: es}})
	default:
		return fmt.Errorf("unknown via %q", op.Via)
	}
	return nil
}

func (g *c13M) noteFirstUses(op c13Op) {
	for _, e := range op.Ents {
		for _, ns := range []string{e.NS, e.KeyNS, e.RefNS} {
			if ns == "" {
				continue
			}
			if _, ok := g.firstNS[ns]; !ok {
				g.firstNS[ns] = g.epoch
				if g.epoch > 0 {
					g.cls["first-use-after-restart-or-crash"] = true
				}
				if strings.HasSuffix(ns, "#") {
					g.cls["hash-namespace"] = true
				}
			}
		}
		if strings.Contains(e.Local, ":") {
			g.cls["colon-in-local-part"] = true
		}
		if e.Local == "" {
			g.cls["empty-local-part"] = true
		}
	}
	g.cls["via-"+op.Via] = true
}

func (g *c13M) apply(op c13Op) {
	g.hist = append(g.hist, op)
	kit.Journal(g.hist)
	switch op.K {
	case "post":
		if err := c13Post(g.h, op); err != nil {
			g.fail("WRITE-REJECTED %v", err)
		}
		g.noteFirstUses(op)
		for _, e := range op.Ents {
			u := e.uri()
			if g.in["a"][u] || g.in["b"][u] {
				if !g.in[op.DS][u] {
					g.cls["same-uri-in-two-datasets"] = true
				}
			}
			g.in[op.DS][u] = true
		}
	case "failpost":
		// the write that would persist the namespace table fails once (storage refuses it): the request
		// that introduced the namespace is refused; whatever the hub answers afterwards - to the same
		// request sent again, to readers of the context, after a restart - is subject to the same rules
		n := 0
		verifhook.SetFault("store.object", func(int) error {
			if n == 0 && c13InStack(".AssertPrefixMappingForExpansion") {
				n++
				return errors.New("verif: injected storage failure while persisting the namespace table")
			}
			return nil
		})
		err := c13Post(g.h, op)
		verifhook.SetFault("store.object", nil)
		if n == 0 {
			g.f.Fatalf("VERIF-INFRA the request with a new namespace did not reach the namespace table write")
		}
		if err == nil {
			g.fail("FAILED-PERSIST-ACCEPTED the namespace table could not be stored, the request that introduced the namespace was answered with success all the same")
		}
		g.cls["namespace-persist-failure"] = true
	case "restart":
		g.h.Restart()
		g.epoch++
		g.cls["restart"] = true
	case "crash":
		g.crash(op)
	case "pubds":
		if _, err := g.h.Dsm.CreateDataset(op.DS, &server.CreateDatasetConfig{PublicNamespaces: op.Public}); err != nil {
			g.fail("VERIF-INFRA create dataset with publicNamespaces: %v", err)
		}
		g.pub = append(g.pub, op.DS)
		g.cls["dataset-with-public-namespaces"] = true
	}
	g.check()
}

// crash: a child process opens the store, posts the entities through the real
// handler and is killed at the hook point; the parent reopens the store.
func (g *c13M) crash(op c13Op) {
	_ = g.h.Store.Close()
	g.h.Store = nil
	sp := filepath.Join(g.dir, "c13-script.json")
	b, _ := json.Marshal(c13Child{Mode: "crash", Dir: g.dir, Op: op})
	if err := os.WriteFile(sp, b, 0o644); err != nil {
		g.f.Fatalf("VERIF-INFRA %v", err)
	}
	out, killed, err := c13RunChild(sp, []string{"VERIF_CRASH=" + op.Point + ":1"}, 120*time.Second)
	if err != nil {
		g.f.Fatalf("VERIF-INFRA crash child: %v\n%s", err, out)
	}
	g.h = NewWHub(kit.HubOpts{Dir: g.dir})
	g.epoch++
	g.noteFirstUses(op)
	for _, e := range op.Ents {
		if killed {
			g.maybe[op.DS][e.uri()] = true
		} else {
			g.in[op.DS][e.uri()] = true
		}
	}
	if killed {
		g.cls["crash-"+op.Point] = true
	} else {
		if !strings.Contains(out, "C13-CHILD-DONE") {
			g.fail("WRITE-REJECTED in child: %s", out)
		}
		g.cls["crash-point-not-reached"] = true
	}
}

// check: the invariants after every step.
func (g *c13M) check() {
	m, err := c13Namespaces(g.h)
	if err != nil {
		g.fail("%v", err)
	}
	if s := c13Bijective(m); s != "" {
		g.fail("BIJECTION GET /namespaces: %s", s)
	}
	if s := c13Superset(g.ns, m); s != "" {
		g.fail("PERMANENCE GET /namespaces: %s", s)
	}
	g.ns = m
	// every namespace of an acknowledged write has a prefix
	rev := map[string]string{}
	for p, e := range m {
		rev[e] = p
	}
	observe := func(u, curie string, iid uint64, where string) {
		if iid == 0 {
			g.fail("IDS %s reports %q (%s) without an internal id", where, u, curie)
		}
		if prev, ok := g.ids[u]; ok && prev != iid {
			g.fail("PERMANENCE identifier %q had internal id %d, %s reports %d", u, prev, where, iid)
		}
		if other, ok := g.byID[iid]; ok && other != u {
			g.fail("BIJECTION internal id %d names %q and %q (%s)", iid, other, u, where)
		}
		if prev, ok := g.curies[u]; ok && prev != curie {
			g.fail("PERMANENCE identifier %q was %s, %s reports %s", u, prev, where, curie)
		}
		g.ids[u], g.byID[iid], g.curies[u] = iid, u, curie
	}
	for _, ds := range []string{"a", "b"} {
		ctx, ents, err := c13List(g.h, ds)
		if err != nil {
			g.fail("%v", err)
		}
		if s := c13Consistent(ctx, m); s != "" {
			g.fail("CONTEXT of GET /datasets/%s/entities: %s", ds, s)
		}
		seen := map[string]bool{}
		for _, e := range ents {
			u, ok := c13Expand(e.ID, ctx)
			if !ok {
				g.fail("CONTEXT of GET /datasets/%s/entities has no expansion for the prefix of %q", ds, e.ID)
			}
			if !g.in[ds][u] && !g.maybe[ds][u] {
				g.fail("ROUNDTRIP dataset %s lists %q = %q, which was never posted there", ds, e.ID, u)
			}
			if g.maybe[ds][u] {
				delete(g.maybe[ds], u)
				g.in[ds][u] = true
			}
			seen[u] = true
			observe(u, e.ID, e.InternalID, "GET /datasets/"+ds+"/entities")
			for k := range e.Props {
				if _, ok := c13Expand(k, ctx); !ok {
					g.fail("CONTEXT of GET /datasets/%s/entities has no expansion for property key %q", ds, k)
				}
			}
			for k, v := range e.Refs {
				if _, ok := c13Expand(k, ctx); !ok {
					g.fail("CONTEXT of GET /datasets/%s/entities has no expansion for predicate %q", ds, k)
				}
				if sv, isStr := v.(string); isStr {
					if _, ok := c13Expand(sv, ctx); !ok {
						g.fail("CONTEXT of GET /datasets/%s/entities has no expansion for reference %q", ds, sv)
					}
				}
			}
		}
		for _, u := range kit.SortedKeys(g.in[ds]) {
			if !seen[u] {
				g.fail("ROUNDTRIP %q was posted to dataset %s and is not listed (listed: %d)", u, ds, len(ents))
			}
		}
	}
	// a dataset that declares publicNamespaces serves a context of its own. Whatever it lists - declared entries
	// the hub knows, does not know, or knows in another spelling - a prefix in it means what it means everywhere
	// (a declared namespace without a prefix is listed under the empty prefix, which is not a prefix)
	for _, ds := range g.pub {
		ctx, _, err := c13List(g.h, ds)
		if err != nil {
			g.fail("%v", err)
		}
		named := map[string]string{}
		for p, e := range ctx {
			if p != "" {
				named[p] = e
			}
		}
		if s := c13Consistent(named, m); s != "" {
			g.fail("CONTEXT of GET /datasets/%s/entities (publicNamespaces): %s", ds, s)
		}
	}
	for _, u := range kit.SortedKeys(g.ids) {
		ctx, e, found, err := c13Query(g.h, u, false)
		g.queries++
		if err != nil {
			g.fail("%v", err)
		}
		if !found {
			g.fail("PERMANENCE %q (internal id %d) is not found by POST /query any more", u, g.ids[u])
		}
		if s := c13Consistent(ctx, m); s != "" {
			g.fail("CONTEXT of POST /query: %s", s)
		}
		if back, ok := c13Expand(e.ID, ctx); !ok || back != u {
			g.fail("ROUNDTRIP POST /query {entityId:%q} answers id %q, which expands to %q with the response context", u, e.ID, back)
		}
		observe(u, e.ID, e.InternalID, "POST /query by URI")
		// and by the compact form the hub handed out
		_, e2, found2, err := c13Query(g.h, e.ID, false)
		g.queries++
		if err != nil || !found2 || e2.InternalID != e.InternalID {
			g.fail("PERMANENCE POST /query by %q (internal id %d) and by %q disagree: found=%v id=%v err=%v", u, e.InternalID, e.ID, found2, e2, err)
		}
	}
	for _, u := range kit.SortedKeys(g.ids) {
		i := strings.Index(g.curies[u], ":")
		p := g.curies[u][:i]
		if exp, ok := m[p]; !ok || exp+g.curies[u][i+1:] != u {
			g.fail("ROUNDTRIP %q was handed out as %s; GET /namespaces expands that prefix to %q", u, g.curies[u], exp)
		}
	}
	raw, msg := c13RawIDs(g.h.Hub)
	if msg != "" {
		g.fail("RAW identifier indexes: %s", msg)
	}
	for u, iid := range g.ids {
		if raw[g.curies[u]] != iid {
			g.fail("RAW identifier %s (%q) has internal id %d in the index, %d in responses", g.curies[u], u, raw[g.curies[u]], iid)
		}
	}
}

func c13GenE(t *rapid.T, fresh *int) c13E {
	ns := func(label string) string {
		if rapid.IntRange(0, 5).Draw(t, label+"fresh") == 0 {
			*fresh++
			return fmt.Sprintf("http://ex.org/gen/%d%s", *fresh, rapid.SampledFrom([]string{"/", "#"}).Draw(t, label+"term"))
		}
		return rapid.SampledFrom(c13NSPool).Draw(t, label)
	}
	e := c13E{NS: ns("ns"), Local: rapid.SampledFrom(c13LocalPool).Draw(t, "local"), Form: rapid.SampledFrom([]string{"full", "curie", "default"}).Draw(t, "form")}
	if rapid.IntRange(0, 2).Draw(t, "key") > 0 {
		e.KeyNS = ns("keyns")
		if rapid.Bool().Draw(t, "ref") {
			e.RefNS, e.RefLoc = ns("refns"), rapid.SampledFrom(c13LocalPool).Draw(t, "refloc")
		}
	}
	return e
}

func TestVerif_C13_bijection(t *testing.T) {
	defer kit.S().Flush()
	defer kit.CleanupScratch()
	rapid.Check(t, func(t *rapid.T) {
		g := newC13M(t)
		defer g.close()
		fresh := 0
		t.Repeat(map[string]func(*rapid.T){
			"post": func(t *rapid.T) {
				op := c13Op{K: "post", DS: rapid.SampledFrom([]string{"a", "b"}).Draw(t, "ds"), Via: rapid.SampledFrom([]string{"http", "parser", "ctx", "txn"}).Draw(t, "via")}
				n := rapid.IntRange(1, 3).Draw(t, "n")
				for i := 0; i < n; i++ {
					op.Ents = append(op.Ents, c13GenE(t, &fresh))
				}
				g.apply(op)
			},
			"restart": func(t *rapid.T) {
				if rapid.IntRange(0, 2).Draw(t, "do") != 0 {
					t.Skip("restart thinned out")
				}
				g.apply(c13Op{K: "restart"})
			},
			"failpost": func(t *rapid.T) {
				if rapid.IntRange(0, 3).Draw(t, "do") != 0 {
					t.Skip("persist failure thinned out")
				}
				fresh++
				e := c13E{NS: fmt.Sprintf("http://ex.org/gen/%d/", fresh), Local: "x", Form: "full"}
				op := c13Op{K: "failpost", DS: rapid.SampledFrom([]string{"a", "b"}).Draw(t, "ds"), Via: rapid.SampledFrom([]string{"http", "parser", "ctx"}).Draw(t, "via"), Ents: []c13E{e}}
				g.apply(op)
				if rapid.Bool().Draw(t, "retry") {
					// the client sends the same request again; now the storage works
					op.K = "post"
					g.apply(op)
				}
			},
			"pubds": func(t *rapid.T) {
				if len(g.pub) >= 3 || rapid.IntRange(0, 3).Draw(t, "do") != 0 {
					t.Skip("dataset with publicNamespaces thinned out")
				}
				op := c13Op{K: "pubds", DS: fmt.Sprintf("pub%d", len(g.pub))}
				known := kit.SortedKeys(g.ns)
				for i := rapid.IntRange(1, 3).Draw(t, "nPublic"); i > 0; i-- {
					kind := rapid.IntRange(0, 2).Draw(t, "publicKind")
					if len(known) == 0 {
						kind = 2
					}
					switch kind {
					case 0: // a namespace the hub knows, as the hub spells it
						op.Public = append(op.Public, g.ns[rapid.SampledFrom(known).Draw(t, "publicKnown")])
					case 1: // the same, written without its last character (the separator)
						e := g.ns[rapid.SampledFrom(known).Draw(t, "publicKnown")]
						op.Public = append(op.Public, e[:len(e)-1])
					default: // one the hub has never seen
						fresh++
						op.Public = append(op.Public, fmt.Sprintf("http://ex.org/declared/%d/", fresh))
					}
				}
				g.apply(op)
			},
			"crash": func(t *rapid.T) {
				if rapid.IntRange(0, 3).Draw(t, "do") != 0 {
					t.Skip("crash thinned out")
				}
				op := c13Op{K: "crash", DS: rapid.SampledFrom([]string{"a", "b"}).Draw(t, "ds"), Via: "http",
					Point: rapid.SampledFrom([]string{"store.beforeIDCommit", "store.afterIDCommit", "store.afterCommit", "store.afterUpdateDataset"}).Draw(t, "point")}
				n := rapid.IntRange(1, 3).Draw(t, "n")
				for i := 0; i < n; i++ {
					op.Ents = append(op.Ents, c13GenE(t, &fresh))
				}
				g.apply(op)
			},
		})
		nt := g.cls["first-use-after-restart-or-crash"]
		kit.S().Case(g.hist, nt, kit.SortedKeys(g.cls)...)
		kit.S().AddExtra("lookups_compared", g.queries)
		kit.JournalDone()
	})
}

// ---- child processes ------------------------------------------------------------------

type c13Plan struct {
	Asserters int  `json:"asserters"`
	Readers   int  `json:"readers"`
	Iter      int  `json:"iter"`
	Procs     int  `json:"procs"`
	Shared    bool `json:"shared"` // all asserters introduce the same fresh namespaces / ids
}

type c13Child struct {
	Mode string  `json:"mode"` // crash | storm
	Dir  string  `json:"dir"`
	Op   c13Op   `json:"op"`
	Plan c13Plan `json:"plan"`
}

func c13RunChild(script string, env []string, timeout time.Duration) (out string, killed bool, err error) {
	cmd := exec.Command(os.Args[0], "-test.run", "^TestVerifChild_C13$", "-test.count", "1", "-test.timeout", "0")
	cmd.Env = append(os.Environ(), "VERIF_C13_CHILD="+script, "VERIF_STATS=", "VERIF_JOURNAL=")
	cmd.Env = append(cmd.Env, env...)
	var sb strings.Builder
	cmd.Stdout, cmd.Stderr = &sb, &sb
	if err := cmd.Start(); err != nil {
		return "", false, err
	}
	done := make(chan error, 1)
	go func() { done <- cmd.Wait() }()
	select {
	case werr := <-done:
		if werr != nil {
			if ee, ok := werr.(*exec.ExitError); ok {
				if ws, ok := ee.Sys().(syscall.WaitStatus); ok && ws.Signaled() && ws.Signal() == syscall.SIGKILL {
					return sb.String(), true, nil
				}
				return sb.String(), false, nil // died or failed: the caller reads the output
			}
			return sb.String(), false, werr
		}
	case <-time.After(timeout):
		_ = cmd.Process.Kill()
		<-done
		return sb.String(), false, fmt.Errorf("child timed out after %v", timeout)
	}
	return sb.String(), false, nil
}

func TestVerifChild_C13(t *testing.T) {
	sp := os.Getenv("VERIF_C13_CHILD")
	if sp == "" {
		t.Skip("child process only")
	}
	b, err := os.ReadFile(sp)
	if err != nil {
		fmt.Println("VERIF-INFRA child cannot read script:", err)
		os.Exit(3)
	}
	var sc c13Child
	if err := json.Unmarshal(b, &sc); err != nil {
		fmt.Println("VERIF-INFRA child cannot parse script:", err)
		os.Exit(3)
	}
	h := NewWHub(kit.HubOpts{Dir: sc.Dir})
	switch sc.Mode {
	case "crash":
		if err := c13Post(h, sc.Op); err != nil {
			fmt.Println("C13-CHILD-WRITE-REJECTED", err)
			os.Exit(4)
		}
		_ = h.Store.Close()
		fmt.Println("C13-CHILD-DONE")
	case "storm":
		res := c13Storm(h, sc.Plan)
		_ = h.Store.Close()
		rb, _ := json.Marshal(res)
		fmt.Println("C13-STORM-RESULT " + string(rb))
	}
	os.Exit(0)
}

// ---- (c) storm ----------------------------------------------------------------------

type c13StormResult struct {
	Violation   string `json:"violation,omitempty"`
	Assertions  int64  `json:"assertions"`
	Reads       int64  `json:"reads"`
	Overlapping int64  `json:"overlapping"` // reads that completed while asserters were still running
	Namespaces  int    `json:"namespaces"`
	Entities    int    `json:"entities"`
}

// c13Storm: goroutines introduce new namespaces and identifiers (store,
// contextual store, stream parser, HTTP) while others read and serialise
// contexts. Afterwards: every answer an asserter got is what the hub
// publishes, the namespace map is bijective, identifiers posted from several
// goroutines have one internal id.
func c13Storm(h *WHub, p c13Plan) (res c13StormResult) {
	if p.Procs > 0 {
		runtime.GOMAXPROCS(p.Procs)
	}
	for _, ds := range []string{"a", "b"} {
		if _, err := h.Dsm.CreateDataset(ds, nil); err != nil {
			res.Violation = "VERIF-INFRA create dataset: " + err.Error()
			return
		}
	}
	var mu sync.Mutex
	viol := func(format string, a ...any) {
		mu.Lock()
		if res.Violation == "" {
			res.Violation = fmt.Sprintf(format, a...)
		}
		mu.Unlock()
	}
	got := make([]map[string]string, p.Asserters) // per asserter: expansion -> prefix it was given
	posted := map[string]bool{}                   // URIs posted as entities
	var active int32 = int32(p.Asserters)
	var assertions, reads, overlapping int64
	start := make(chan struct{})
	var wg sync.WaitGroup
	for a := 0; a < p.Asserters; a++ {
		a := a
		got[a] = map[string]string{}
		wg.Add(1)
		go func() {
			defer wg.Done()
			defer atomic.AddInt32(&active, -1)
			<-start
			for i := 0; i < p.Iter; i++ {
				tag := fmt.Sprintf("g%d-%d", a, i)
				if p.Shared {
					tag = fmt.Sprintf("s-%d", i)
				}
				exp := "http://storm.example/" + tag + []string{"/", "#"}[i%2]
				u := exp + "x"
				ds := []string{"a", "b"}[a%2]
				var prefix string
				switch (a + i) % 4 {
				case 0:
					c, err := h.Store.GetNamespacedIdentifier(u, nil)
					if err != nil || !strings.Contains(c, ":") {
						viol("GetNamespacedIdentifier(%q) = %q, %v", u, c, err)
						return
					}
					prefix = c[:strings.Index(c, ":")]
					if back, err := h.Store.ExpandCurie(c); err != nil || back != u {
						viol("CONSISTENCY %q was compacted to %q, which expands to %q (%v)", u, c, back, err)
						return
					}
				case 1:
					pp, err := server.NewContextualStore(h.Store).NamespaceManager.AssertPrefixMappingForExpansion(exp)
					if err != nil {
						viol("AssertPrefixMappingForExpansion(%q): %v", exp, err)
						return
					}
					prefix = pp
				case 2:
					op := c13Op{K: "post", DS: ds, Via: "http", Ents: []c13E{{NS: exp, Local: "x", Form: "full", KeyNS: exp, RefNS: exp, RefLoc: "y"}}}
					if err := c13Post(h, op); err != nil {
						viol("WRITE-REJECTED %v", err)
						return
					}
					mu.Lock()
					posted[u] = true
					mu.Unlock()
				case 3:
					op := c13Op{K: "post", DS: ds, Via: "ctx", Ents: []c13E{{NS: exp, Local: "x", Form: "full", KeyNS: exp}}}
					if err := c13Post(h, op); err != nil {
						viol("WRITE-REJECTED %v", err)
						return
					}
					mu.Lock()
					posted[u] = true
					mu.Unlock()
				}
				if prefix != "" {
					got[a][exp] = prefix
				}
				atomic.AddInt64(&assertions, 1)
			}
		}()
	}
	for r := 0; r < p.Readers; r++ {
		r := r
		wg.Add(1)
		go func() {
			defer wg.Done()
			<-start
			prev := map[string]string{}
			maxReads := p.Iter * p.Asserters * 50
			for n := 0; atomic.LoadInt32(&active) > 0 && n < maxReads; n++ {
				var b []byte
				switch (r + n) % 5 {
				case 0:
					b, _ = json.Marshal(h.Store.NamespaceManager.GetContext(nil))
				case 1:
					b, _ = json.Marshal(h.Store.GetGlobalContext(true))
				case 2:
					_, body := h.Do("GET", "/namespaces", "", nil)
					b = []byte(`{"namespaces":` + body + `}`)
				case 3:
					_, body := h.Do("GET", "/datasets/a/entities?limit=1", "", nil)
					var raw []json.RawMessage
					if err := json.Unmarshal([]byte(body), &raw); err != nil || len(raw) == 0 {
						viol("CONSISTENCY GET /datasets/a/entities answered %.200s", body)
						return
					}
					b = raw[0]
				case 4:
					_, body := h.Do("POST", "/query", `{"entityId":"http://storm.example/s-0/x"}`, nil)
					var raw []json.RawMessage
					if err := json.Unmarshal([]byte(body), &raw); err != nil || len(raw) == 0 {
						viol("CONSISTENCY POST /query answered %.200s", body)
						return
					}
					b = raw[0]
				}
				var c c13Ent
				if err := json.Unmarshal(b, &c); err != nil {
					viol("CONSISTENCY a serialised context is not valid JSON: %v: %.200s", err, b)
					return
				}
				if s := c13Bijective(c.Namespaces); s != "" {
					viol("CONSISTENCY a reader saw a context that is not one-to-one: %s", s)
					return
				}
				// what this reader saw earlier is still true (strict contexts are subsets: compare per prefix)
				for pfx, e := range c.Namespaces {
					if old, ok := prev[pfx]; ok && old != e {
						viol("CONSISTENCY a reader saw prefix %s as %q and later as %q", pfx, old, e)
						return
					}
					prev[pfx] = e
				}
				atomic.AddInt64(&reads, 1)
				if atomic.LoadInt32(&active) > 0 {
					atomic.AddInt64(&overlapping, 1)
				}
			}
		}()
	}
	close(start)
	wg.Wait()
	res.Assertions, res.Reads, res.Overlapping = assertions, reads, overlapping
	if res.Violation != "" {
		return
	}
	// final state
	m, err := c13Namespaces(h)
	if err != nil {
		res.Violation = err.Error()
		return
	}
	res.Namespaces = len(m)
	if s := c13Bijective(m); s != "" {
		res.Violation = "BIJECTION final GET /namespaces: " + s
		return
	}
	for a := range got {
		for exp, pfx := range got[a] {
			if m[pfx] != exp {
				res.Violation = fmt.Sprintf("CONSISTENCY asserter %d was given prefix %s for %q; the hub now says %s -> %q", a, pfx, exp, pfx, m[pfx])
				return
			}
		}
	}
	ids := map[uint64]string{}
	for _, u := range kit.SortedKeys(posted) {
		_, e, found, err := c13Query(h, u, false)
		if err != nil || !found {
			res.Violation = fmt.Sprintf("CONSISTENCY %q was posted (acknowledged) and is not found: %v", u, err)
			return
		}
		if back, ok := c13Expand(e.ID, m); !ok || back != u {
			res.Violation = fmt.Sprintf("ROUNDTRIP %q comes back as %q = %q", u, e.ID, back)
			return
		}
		if other, ok := ids[e.InternalID]; ok {
			res.Violation = fmt.Sprintf("BIJECTION internal id %d names %q and %q", e.InternalID, other, u)
			return
		}
		ids[e.InternalID] = u
		res.Entities++
	}
	// the same identifier in both datasets has one internal id
	byURI := map[string]uint64{}
	for _, ds := range []string{"a", "b"} {
		ctx, ents, err := c13List(h, ds)
		if err != nil {
			res.Violation = err.Error()
			return
		}
		for _, e := range ents {
			u, _ := c13Expand(e.ID, ctx)
			if prev, ok := byURI[u]; ok && prev != e.InternalID {
				res.Violation = fmt.Sprintf("BIJECTION %q has internal id %d in one dataset and %d in the other", u, prev, e.InternalID)
				return
			}
			byURI[u] = e.InternalID
		}
	}
	if _, msg := c13RawIDs(h.Hub); msg != "" {
		res.Violation = "RAW identifier indexes: " + msg
		return
	}
	// permanence: everything that was handed out during the storm is still there after a restart
	// (what is persisted must be what was handed out, whatever the order in which writers got to the disk)
	h.Restart()
	m2, err := c13Namespaces(h)
	if err != nil {
		res.Violation = "after restart: " + err.Error()
		return
	}
	for _, pfx := range kit.SortedKeys(m) {
		if m2[pfx] != m[pfx] {
			res.Violation = fmt.Sprintf("PERMANENCE prefix %s stood for %q before the restart (handed out during concurrent namespace introductions) and stands for %q after it", pfx, m[pfx], m2[pfx])
			return
		}
	}
	for _, u := range kit.SortedKeys(posted) {
		_, e, found, err := c13Query(h, u, false)
		if err != nil || !found {
			res.Violation = fmt.Sprintf("PERMANENCE %q was posted (acknowledged) and is not found after the restart: %v", u, err)
			return
		}
		if prev, ok := ids[e.InternalID]; !ok || prev != u {
			res.Violation = fmt.Sprintf("PERMANENCE %q has internal id %d after the restart, which belonged to %q before", u, e.InternalID, prev)
			return
		}
	}
	return
}

// c13StormRound runs one plan in a child and judges it.
func c13StormRound(f fataler, p c13Plan) *c13StormResult {
	dir := kit.NewDir("c13s")
	defer os.RemoveAll(dir)
	sp := filepath.Join(dir, "c13-script.json")
	b, _ := json.Marshal(c13Child{Mode: "storm", Dir: dir, Plan: p})
	if err := os.WriteFile(sp, b, 0o644); err != nil {
		f.Fatalf("VERIF-INFRA %v", err)
	}
	kit.Journal(p)
	out, _, err := c13RunChild(sp, nil, 300*time.Second)
	kit.JournalDone()
	if err != nil {
		if strings.Contains(err.Error(), "timed out") {
			kit.S().Inconcl()
			return nil
		}
		f.Fatalf("VERIF-INFRA storm child: %v\n%s", err, out)
	}
	i := strings.Index(out, "C13-STORM-RESULT ")
	if i < 0 {
		// the child died: a fatal runtime error kills the whole hub process
		line := ""
		for _, l := range strings.Split(out, "\n") {
			if strings.HasPrefix(l, "fatal error:") || strings.HasPrefix(l, "panic:") {
				line = l
				break
			}
		}
		if strings.Contains(out, "VERIF-INFRA") {
			f.Fatalf("VERIF-INFRA storm child: %.2000s", out)
		}
		c13Fail(f, p, "PROCESS-DIED while namespaces were introduced and contexts read concurrently: %s\n%.3000s", line, out)
	}
	res := &c13StormResult{}
	j := strings.Index(out[i:], "\n")
	if j < 0 {
		j = len(out) - i
	}
	if err := json.Unmarshal([]byte(out[i+len("C13-STORM-RESULT "):i+j]), res); err != nil {
		f.Fatalf("VERIF-INFRA storm result: %v: %.300s", err, out[i:])
	}
	if strings.HasPrefix(res.Violation, "VERIF-INFRA") {
		f.Fatalf("%s", res.Violation)
	}
	if res.Violation != "" {
		c13Fail(f, p, "%s", res.Violation)
	}
	return res
}

func TestVerif_C13_storm(t *testing.T) {
	defer kit.S().Flush()
	defer kit.CleanupScratch()
	maxRounds := kit.EnvInt("VERIF_C13_STORM_ROUNDS", 3)
	rounds := 0
	rapid.Check(t, func(t *rapid.T) {
		if rounds >= maxRounds {
			return // bounded by round count, not by time
		}
		rounds++
		p := c13Plan{
			Asserters: rapid.IntRange(2, 6).Draw(t, "asserters"),
			Readers:   rapid.IntRange(1, 6).Draw(t, "readers"),
			Iter:      rapid.SampledFrom([]int{40, 80, 150}).Draw(t, "iter"),
			Procs:     rapid.SampledFrom([]int{2, 4, 8}).Draw(t, "procs"),
			Shared:    rapid.Bool().Draw(t, "shared"),
		}
		if kit.Known("F12") {
			// known shape: a context is read or serialised while a namespace is introduced
			p.Readers = 0
			kit.S().Exclude("F12")
		}
		res := c13StormRound(t, p)
		if res == nil {
			return
		}
		cls := []string{fmt.Sprintf("procs-%d", p.Procs)}
		if p.Shared {
			cls = append(cls, "same-fresh-namespaces-from-all-asserters")
		}
		nt := res.Overlapping >= 1000 || (p.Readers == 0 && res.Assertions >= 100)
		kit.S().Case(p, nt, cls...)
		kit.S().AddExtra("storm_assertions", int(res.Assertions))
		kit.S().AddExtra("storm_overlapping_reads", int(res.Overlapping))
		kit.S().AddExtra("storm_namespaces", res.Namespaces)
	})
}

// F12: NamespaceManager.GetPrefixToExpansionMap hands out the live map; a
// reader serialising a context while a namespace is introduced kills the
// process (fatal error: concurrent map iteration and map write).
func TestVerifProbe_F12(t *testing.T) {
	defer kit.CleanupScratch()
	for i := 0; i < 3; i++ {
		c13StormRound(t, c13Plan{Asserters: 4, Readers: 6, Iter: 300, Procs: 8, Shared: false})
	}
}

var _ = sort.Strings

// C13, bursts: k goroutines each introduce ONE fresh namespace at the same
// instant (spin barrier), through different entry points; then the hub is
// restarted. Every prefix that was handed out must stand for the same expansion
// after the restart, and the map must still be one-to-one. Many short rounds:
// what is persisted last decides, so the interesting interleaving is that of
// the final two writers of a round.
func TestVerif_C13_burst(t *testing.T) {
	defer kit.S().Flush()
	defer kit.CleanupScratch()
	defer runtime.GOMAXPROCS(runtime.GOMAXPROCS(0))
	rapid.Check(t, func(t *rapid.T) {
		k := rapid.IntRange(2, 8).Draw(t, "asserters")
		rounds := rapid.IntRange(1, 4).Draw(t, "rounds")
		procs := rapid.SampledFrom([]int{2, 4, 16}).Draw(t, "procs")
		runtime.GOMAXPROCS(procs)
		kinds := make([]int, k)
		for i := range kinds {
			kinds[i] = rapid.IntRange(0, 2).Draw(t, "entry")
		}
		desc := map[string]any{"burst": true, "asserters": k, "rounds": rounds, "procs": procs, "entry": kinds}
		kit.Journal(desc)
		defer kit.JournalDone()
		h := NewWHub(kit.HubOpts{})
		defer h.Close()
		fail := func(format string, a ...any) {
			b, _ := json.Marshal(desc)
			t.Fatalf("%s\nVERIF-CASE-BEGIN\n%s\nVERIF-CASE-END", fmt.Sprintf(format, a...), b)
		}
		handed := map[string]string{} // prefix -> expansion, as handed out
		for r := 0; r < rounds; r++ {
			got := make([]string, k)
			exps := make([]string, k)
			var arrived int32
			var wg sync.WaitGroup
			for i := 0; i < k; i++ {
				i := i
				exps[i] = fmt.Sprintf("http://burst.example/r%d-g%d%s", r, i, []string{"/", "#"}[i%2])
				wg.Add(1)
				go func() {
					defer wg.Done()
					atomic.AddInt32(&arrived, 1)
					for spin := 0; atomic.LoadInt32(&arrived) < int32(k); spin++ {
						if spin%2048 == 2047 {
							runtime.Gosched()
						}
					}
					switch kinds[i] {
					case 0:
						c, err := h.Store.GetNamespacedIdentifier(exps[i]+"x", nil)
						if err == nil && strings.Contains(c, ":") {
							got[i] = c[:strings.Index(c, ":")]
						}
					case 1:
						got[i], _ = server.NewContextualStore(h.Store).NamespaceManager.AssertPrefixMappingForExpansion(exps[i])
					default:
						got[i], _ = h.Store.NamespaceManager.AssertPrefixMappingForExpansion(exps[i])
					}
				}()
			}
			wg.Wait()
			for i := 0; i < k; i++ {
				if got[i] == "" {
					fail("no prefix was handed out for %q", exps[i])
				}
				if prev, ok := handed[got[i]]; ok && prev != exps[i] {
					fail("BIJECTION prefix %s was handed out for %q and for %q", got[i], prev, exps[i])
				}
				handed[got[i]] = exps[i]
			}
			h.Restart()
			m, err := c13Namespaces(h)
			if err != nil {
				fail("after restart: %v", err)
			}
			if s := c13Bijective(m); s != "" {
				fail("BIJECTION after restart: %s", s)
			}
			for _, pfx := range kit.SortedKeys(handed) {
				if m[pfx] != handed[pfx] {
					fail("PERMANENCE prefix %s was handed out for %q (round %d: %d namespaces introduced at the same instant); after the restart it stands for %q", pfx, handed[pfx], r, k, m[pfx])
				}
			}
		}
		kit.S().Case(desc, true, fmt.Sprintf("burst-asserters-%d", k), fmt.Sprintf("procs-%d", procs))
		kit.S().AddExtra("burst_rounds_with_restart", rounds)
	})
}

// c13InStack: some function on the calling goroutine's stack ends with suffix.
func c13InStack(suffix string) bool {
	pcs := make([]uintptr, 48)
	frames := runtime.CallersFrames(pcs[:runtime.Callers(2, pcs)])
	for {
		fr, more := frames.Next()
		if strings.HasSuffix(fr.Function, suffix) {
			return true
		}
		if !more {
			return false
		}
	}
}

// F36 (fixed): when the namespace table could not be stored (the storage refused
// the write), the new prefix stayed in memory: it was served to context readers
// and returned to the next caller without ever being stored, and after the next
// start the prefix was given to another namespace.
func TestVerifProbe_F36(t *testing.T) {
	defer kit.CleanupScratch()
	g := newC13M(t)
	defer g.close()
	g.apply(c13Op{K: "failpost", DS: "a", Via: "http", Ents: []c13E{{NS: "http://ex.org/gen/1/", Local: "x", Form: "full"}}})
	g.apply(c13Op{K: "restart"})
	g.apply(c13Op{K: "post", DS: "a", Via: "http", Ents: []c13E{{NS: "http://ex.org/gen/2/", Local: "e0", Form: "full"}}})
}

// ---- (e) the first namespaces of a brand-new store ----------------------------------------
//
// The machines above start from a hub that already carries namespaces (kit.Hub introduces its pool when
// it opens). Here the store directory is empty and server.NewStore is all that ran: the namespace table
// has never been written. Namespaces are introduced one at a time through the two assertion entry points,
// some of the table writes are refused by the storage (fault store.object), the store is restarted, and
// after every step everything a reader can be told (context, lookup by expansion, curie expansion) is
// compared with what readers were told before: one-to-one, and never taken back or given to another
// namespace. A refused request may or may not leave its mapping behind; what counts is what is served.

type c13FirstOp struct {
	K    string `json:"k"` // assert | fail | restart
	NS   string `json:"ns,omitempty"`
	Via  string `json:"via,omitempty"` // manager | curie | ctxstore
	Seen string `json:"-"`
}

func TestVerif_C13_firstns(t *testing.T) {
	defer kit.S().Flush()
	defer kit.CleanupScratch()
	pool := []string{"http://first.example/a/", "http://first.example/b#", "https://first.example/c/", "http://first.example/d/e/"}
	rapid.Check(t, func(t *rapid.T) {
		verifhook.Reset()
		defer verifhook.Reset()
		dir := kit.NewDir("c13first")
		defer os.RemoveAll(dir)
		open := func() *server.Store {
			return server.NewStore(&conf.Config{Logger: zap.NewNop().Sugar(), StoreLocation: dir, BlockCacheSize: 32 << 20}, &statsd.NoOpClient{})
		}
		s := open()
		defer func() { _ = s.Close() }()
		var hist []c13FirstOp
		served := map[string]string{} // prefix -> expansion, as told to any reader so far
		cls := map[string]bool{}
		fail := func(format string, a ...any) { c13Fail(t, hist, format, a...) }
		check := func(when string) {
			ctx := s.GetGlobalContext(false).Namespaces
			now := map[string]string{}
			for p, e := range ctx {
				now[p] = e
			}
			for _, e := range pool {
				if p, err := s.NamespaceManager.GetPrefixMappingForExpansion(e); err == nil {
					if prev, ok := now[p]; ok && prev != e {
						fail("BIJECTION %s: prefix %s stands for %q in the context and is the prefix of %q", when, p, prev, e)
					}
					now[p] = e
					if full, err := s.ExpandCurie(p + ":x"); err != nil || full != e+"x" {
						fail("ROUNDTRIP %s: %q has prefix %s, but %s:x expands to %q (%v)", when, e, p, p, full, err)
					}
				}
			}
			if m := c13Bijective(now); m != "" {
				fail("BIJECTION %s: %s", when, m)
			}
			for _, p := range kit.SortedKeys(served) {
				if now[p] != served[p] {
					fail("PERMANENCE %s: prefix %s was served for %q, now it stands for %q", when, p, served[p], now[p])
				}
			}
			for p, e := range now {
				served[p] = e
			}
		}
		steps := 0
		t.Repeat(map[string]func(*rapid.T){
			"assert": func(t *rapid.T) {
				op := c13FirstOp{K: "assert", NS: rapid.SampledFrom(pool).Draw(t, "ns"), Via: rapid.SampledFrom([]string{"manager", "curie", "ctxstore"}).Draw(t, "via")}
				if rapid.IntRange(0, 2).Draw(t, "refused") == 0 {
					op.K = "fail"
				}
				hist = append(hist, op)
				_, known := func() (string, bool) {
					p, err := s.NamespaceManager.GetPrefixMappingForExpansion(op.NS)
					return p, err == nil
				}()
				hit := 0
				if op.K == "fail" {
					verifhook.SetFault("store.object", func(int) error {
						if c13InStack(".AssertPrefixMappingForExpansion") {
							hit++
							return errors.New("verif: injected storage failure while persisting the namespace table")
						}
						return nil
					})
				}
				var p string
				var err error
				if op.Via == "manager" {
					p, err = s.NamespaceManager.AssertPrefixMappingForExpansion(op.NS)
				} else if op.Via == "ctxstore" {
					p, err = server.NewContextualStore(s).NamespaceManager.AssertPrefixMappingForExpansion(op.NS)
				} else {
					var c string
					c, err = s.GetNamespacedIdentifier(op.NS+"x", nil)
					if err == nil && strings.Contains(c, ":") {
						p = c[:strings.Index(c, ":")]
					}
				}
				verifhook.SetFault("store.object", nil)
				switch {
				case op.K == "fail" && hit > 0:
					// Store.GetNamespacedIdentifier answers ("", nil) for an http:// URI whose namespace could not
					// be introduced: no prefix is handed out, which is all this property is about
					if err == nil && p != "" {
						fail("FAILED-PERSIST-ACCEPTED the namespace table could not be stored, %q was answered with prefix %s all the same", op.NS, p)
					}
					cls["namespace-persist-failure"] = true
					if len(served) == 0 {
						cls["persist-failure-before-any-namespace-is-stored"] = true
					}
				case err != nil:
					fail("assert %q: %v", op.NS, err)
				default:
					if prev, ok := served[p]; ok && prev != op.NS {
						fail("BIJECTION prefix %s was served for %q and is handed out for %q", p, prev, op.NS)
					}
					served[p] = op.NS
					if !known {
						cls["namespace-introduced"] = true
					}
				}
				steps++
				check("after " + op.K + " " + op.NS)
			},
			"restart": func(t *rapid.T) {
				if rapid.IntRange(0, 1).Draw(t, "do") != 0 {
					t.Skip("restart thinned out")
				}
				hist = append(hist, c13FirstOp{K: "restart"})
				if err := s.Close(); err != nil {
					t.Fatalf("VERIF-INFRA close: %v", err)
				}
				s = open()
				cls["restart"] = true
				steps++
				check("after restart")
			},
		})
		kit.S().Case(hist, cls["persist-failure-before-any-namespace-is-stored"], kit.SortedKeys(cls)...)
	})
}
