package verifkit

import (
	"encoding/json"
	"fmt"
	"sort"

	"pgregory.net/rapid"
)

// Pool gives the small id/predicate/key pools in store-CURIE form.
type Pool struct {
	IDs   []string
	Preds []string
	Keys  []string
	P     []string
}

func (h *Hub) Pool() *Pool {
	a, b := h.P[0], h.P[1]
	return &Pool{
		IDs:   []string{a + ":e0", a + ":e1", a + ":e2", b + ":e0", b + ":e1"},
		Preds: []string{a + ":r0", a + ":r1", b + ":r2"},
		Keys:  []string{a + ":p0", a + ":p1", b + ":p2", a + ":p3"},
		P:     h.P,
	}
}

var strPool = []string{"", "a", "b", "bb", "cc", "cccc", "dddd", "0123456789abcde", "0123456789abcdf", "é\"q", "xyz", "0123456789012345678901234567890123456789"}
var numPool = []float64{0, 1, -1, 1.5, 42, 1e21, 9007199254740993, 123456789}

func GenScalar(t *rapid.T) any {
	switch rapid.IntRange(0, 5).Draw(t, "sk") {
	case 0, 1, 2:
		return rapid.SampledFrom(strPool).Draw(t, "s")
	case 3, 4:
		return rapid.SampledFrom(numPool).Draw(t, "n")
	default:
		return rapid.Bool().Draw(t, "b")
	}
}

type GenCfg struct {
	NoNested   bool // no nested entities in property values
	OnePred    bool // only the first predicate
	MaxRefs    int  // max reference keys per entity (default 2)
	DelPercent int  // probability (%) of the deleted flag (default 20)
	// Nulls: some property values are null. The stream parser drops null fields, so only writers that
	// hand entities to the dataset directly (jobs, transforms) store them; see StripNulls
	Nulls bool
}

// StripNulls returns the entities as the stream parser delivers them: top-level properties whose
// value is null are dropped.
func StripNulls(es []*Ent) []*Ent {
	out := make([]*Ent, len(es))
	for i, e := range es {
		c := e
		for k, v := range e.Props {
			if v == nil {
				if c == e {
					c = e.Clone()
				}
				delete(c.Props, k)
			}
		}
		out[i] = c
	}
	return out
}

func GenValue(t *rapid.T, p *Pool, cfg GenCfg, depth int) any {
	k := rapid.IntRange(0, 11).Draw(t, "vk")
	switch {
	case k <= 6:
		return GenScalar(t)
	case k <= 9:
		n := rapid.IntRange(0, 3).Draw(t, "alen")
		arr := make([]any, n)
		for i := range arr {
			sub := rapid.IntRange(0, 7).Draw(t, "ak")
			switch {
			case sub == 0 && depth < 1:
				arr[i] = []any{GenScalar(t)}
			case sub == 1 && depth < 1 && !cfg.NoNested:
				arr[i] = genNested(t, p)
			default:
				arr[i] = GenScalar(t)
			}
		}
		return arr
	default:
		if depth >= 1 || cfg.NoNested {
			return GenScalar(t)
		}
		return genNested(t, p)
	}
}

func genNested(t *rapid.T, p *Pool) any {
	props := map[string]any{p.Keys[0]: GenScalar(t)}
	refs := map[string]any{}
	// mostly the minimal shape; sometimes a second (array) property and single / array references
	if rapid.IntRange(0, 2).Draw(t, "nrich") == 0 {
		if rapid.Bool().Draw(t, "nparr") {
			props[p.Keys[1]] = []any{GenScalar(t), GenScalar(t)}
		}
		nr := rapid.IntRange(0, 2).Draw(t, "nnr")
		for i := 0; i < nr; i++ {
			pk := rapid.SampledFrom(p.Preds).Draw(t, "nrk")
			if rapid.Bool().Draw(t, "nrarr") {
				n := rapid.IntRange(1, 2).Draw(t, "nrn")
				arr := make([]any, n)
				for j := range arr {
					arr[j] = rapid.SampledFrom(p.IDs).Draw(t, "ntgt")
				}
				refs[pk] = arr
			} else {
				refs[pk] = rapid.SampledFrom(p.IDs).Draw(t, "ntgt")
			}
		}
	}
	return map[string]any{
		"id":    p.P[0] + ":n" + fmt.Sprint(rapid.IntRange(0, 1).Draw(t, "nid")),
		"props": props,
		"refs":  refs,
	}
}

// GenEnt draws an entity over the pools. ids may be restricted.
func GenEnt(t *rapid.T, p *Pool, cfg GenCfg, ids []string) *Ent {
	if ids == nil {
		ids = p.IDs
	}
	e := &Ent{ID: rapid.SampledFrom(ids).Draw(t, "id"), Props: map[string]any{}, Refs: map[string]any{}}
	np := rapid.IntRange(0, 2).Draw(t, "np")
	for i := 0; i < np; i++ {
		k := rapid.SampledFrom(p.Keys).Draw(t, "pk")
		if cfg.Nulls && rapid.IntRange(0, 6).Draw(t, "null") == 0 {
			e.Props[k] = nil
			continue
		}
		e.Props[k] = GenValue(t, p, cfg, 0)
	}
	maxRefs := cfg.MaxRefs
	if maxRefs == 0 {
		maxRefs = 2
	}
	nr := rapid.IntRange(0, maxRefs).Draw(t, "nr")
	preds := p.Preds
	if cfg.OnePred {
		preds = preds[:1]
	}
	for i := 0; i < nr; i++ {
		pk := rapid.SampledFrom(preds).Draw(t, "rk")
		if rapid.IntRange(0, 2).Draw(t, "arr") == 0 {
			n := rapid.IntRange(0, 3).Draw(t, "rn")
			arr := make([]any, n)
			for j := range arr {
				arr[j] = rapid.SampledFrom(p.IDs).Draw(t, "tgt")
			}
			e.Refs[pk] = arr
		} else {
			e.Refs[pk] = rapid.SampledFrom(p.IDs).Draw(t, "tgt")
		}
	}
	dp := cfg.DelPercent
	if dp == 0 {
		dp = 20
	}
	e.Deleted = rapid.IntRange(1, 100).Draw(t, "del") <= dp
	return e
}

// wireLen is the serialized length the write path compares: json.Marshal of
// the server entity (internalId and recorded have constant width per entity).
func WireLen(e *Ent) int {
	se := ToEntity(e)
	se.InternalID = 1
	se.Recorded = 1
	b, _ := json.Marshal(se)
	return len(b)
}

// EqualLenVariants constructs entities that differ from cur but serialize to
// the same length (the write path short-cuts on serialized length). Candidates
// are built by construction and verified by measuring.
func EqualLenVariants(cur *Ent, p *Pool) []*Ent {
	var out []*Ent
	want := WireLen(cur)
	try := func(c *Ent) {
		if !EqualContent(cur, c) && WireLen(c) == want {
			out = append(out, c)
		}
	}
	// (a) same-length string swap, (b) key rename
	for _, k := range SortedKeys(cur.Props) {
		if s, ok := cur.Props[k].(string); ok {
			for _, alt := range strPool {
				if alt != s && len(alt) == len(s) {
					c := cur.Clone()
					c.Props[k] = alt
					try(c)
					break
				}
			}
		}
		for _, k2 := range p.Keys {
			if _, exists := cur.Props[k2]; !exists && len(k2) == len(k) {
				c := cur.Clone()
				c.Props[k2] = c.Props[k]
				delete(c.Props, k)
				try(c)
				break
			}
		}
	}
	// (c) retarget a ref / rename the predicate
	for _, k := range SortedKeys(cur.Refs) {
		if s, ok := Canon(cur.Refs[k]).(string); ok {
			for _, alt := range p.IDs {
				if alt != s && len(alt) == len(s) {
					c := cur.Clone()
					c.Refs[k] = alt
					try(c)
					break
				}
			}
		}
		for _, k2 := range p.Preds {
			if _, exists := cur.Refs[k2]; !exists && len(k2) == len(k) {
				c := cur.Clone()
				c.Refs[k2] = c.Refs[k]
				delete(c.Refs, k)
				try(c)
				break
			}
		}
	}
	// (d) toggle the deleted flag and compensate the 15 bytes of `,"deleted":true`
	// with a property of the right size (or by removing one).
	for _, k := range p.Keys {
		for _, s := range []string{"", "a", "bb", "xyz", "cccc"} {
			c := cur.Clone()
			c.Deleted = !cur.Deleted
			if cur.Deleted {
				if _, exists := c.Props[k]; exists {
					continue
				}
				c.Props[k] = s
			} else {
				if v, exists := c.Props[k]; !exists || v != s {
					continue
				}
				delete(c.Props, k)
			}
			try(c)
		}
	}
	// (e) move a string prop to a ref or back: "props":{k:v} vs "refs":{k:v}
	for _, k := range SortedKeys(cur.Refs) {
		if s, ok := Canon(cur.Refs[k]).(string); ok {
			if _, exists := cur.Props[k]; !exists {
				c := cur.Clone()
				delete(c.Refs, k)
				c.Props[k] = s
				try(c)
			}
		}
	}
	sort.Slice(out, func(i, j int) bool { return out[i].Key() < out[j].Key() })
	return out
}

// GenLimits draws a page-limit sequence (nil = unpaged).
func GenLimits(t *rapid.T, allowZero bool) []int {
	n := rapid.IntRange(0, 3).Draw(t, "nlim")
	if n == 0 {
		return nil
	}
	lo := 1
	if allowZero {
		lo = 0
	}
	out := make([]int, n)
	for i := range out {
		out[i] = rapid.SampledFrom([]int{lo, 1, 1, 2, 3, 10}).Draw(t, "lim")
	}
	if out[0] == 0 && !allowZero {
		out[0] = 1
	}
	return out
}
