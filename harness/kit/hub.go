package verifkit

import (
	"bytes"
	"encoding/json"
	"fmt"
	"github.com/dgraph-io/badger/v4"
	"os"
	"path/filepath"
	"sort"
	"strings"
	"time"

	"github.com/DataDog/datadog-go/v5/statsd"
	"go.uber.org/zap"

	"github.com/mimiro-io/datahub/internal/conf"
	"github.com/mimiro-io/datahub/internal/server"
)

// Namespace expansions of the generator pool. Index 0 is a slash namespace,
// index 1 a hash namespace.
var PoolNS = []string{"http://ex.org/a/", "http://ex.org/b#"}

// Hub wraps the storage part of a data hub (store, dataset manager, GC) on a
// fresh directory. Packages that need HTTP or jobs build on it.
type Hub struct {
	Dir   string
	Env   *conf.Config
	Store *server.Store
	Dsm   *server.DsManager
	GC    *server.GarbageCollector
	P     []string // store prefixes of PoolNS, e.g. ns3, ns4
	Lease time.Duration
	owned bool
}

// ScratchRoot is the root for case directories (tmpfs when available).
func ScratchRoot() string {
	if r := os.Getenv("VERIF_SCRATCH"); r != "" {
		return r
	}
	if st, err := os.Stat("/dev/shm"); err == nil && st.IsDir() {
		return "/dev/shm"
	}
	return os.TempDir()
}

func NewDir(tag string) string {
	root := filepath.Join(ScratchRoot(), fmt.Sprintf("verif-%d", os.Getpid()))
	_ = os.MkdirAll(root, 0o755)
	dir, err := os.MkdirTemp(root, tag)
	if err != nil {
		panic(err)
	}
	return dir
}

// CleanupScratch removes this process's scratch root.
func CleanupScratch() {
	_ = os.RemoveAll(filepath.Join(ScratchRoot(), fmt.Sprintf("verif-%d", os.Getpid())))
}

type HubOpts struct {
	Dir   string        // reuse directory (reopen) instead of a fresh one
	Lease time.Duration // full sync lease timeout (0 = hub default 1h)
	// Age > 0 (fresh directory only): the store is not a young one. Before the hub opens the directory one
	// unrelated key (outside every index of the hub) is committed at badger version Age, so that the hub's
	// own commits, and with them everything derived from badger versions (backup cursor), continue from there.
	Age uint64
}

func NewHub(o HubOpts) *Hub {
	h := &Hub{Lease: o.Lease}
	if o.Dir != "" {
		h.Dir = o.Dir
	} else {
		h.Dir = NewDir("hub")
		h.owned = true
		if o.Age > 0 {
			AgeStore(filepath.Join(h.Dir, "store"), o.Age)
		}
	}
	h.open()
	return h
}

func (h *Hub) open() {
	h.Env = &conf.Config{
		Logger:        hubLogger(),
		StoreLocation: filepath.Join(h.Dir, "store"),
		// the hub defaults to a 4 GB block cache whose bookkeeping alone allocates ~290 MB per open store
		BlockCacheSize:       32 << 20,
		FullsyncLeaseTimeout: h.Lease,
		Auth:                 &conf.AuthConfig{Middleware: "noop"},
		RunnerConfig:         &conf.RunnerConfig{PoolIncremental: 10, PoolFull: 5, Concurrent: 1},
	}
	_ = os.MkdirAll(h.Env.StoreLocation, 0o755)
	h.Store = server.NewStore(h.Env, &statsd.NoOpClient{})
	h.Dsm = server.NewDsManager(h.Env, h.Store, server.NoOpBus())
	h.GC = server.NewGarbageCollector(h.Store, h.Env)
	h.P = h.P[:0]
	for _, ns := range PoolNS {
		p, err := h.Store.NamespaceManager.AssertPrefixMappingForExpansion(ns)
		if err != nil {
			panic(err)
		}
		h.P = append(h.P, p)
	}
}

// AgeStore commits one key the hub never looks at ({0xff,0xff,"verif-age"}) at the given badger version in an
// empty store directory (badger managed mode). A store opened on it afterwards hands out versions above it.
func AgeStore(storeLocation string, version uint64) {
	_ = os.MkdirAll(storeLocation, 0o755)
	opts := badger.DefaultOptions(storeLocation)
	opts.Logger = nil
	opts.MemTableSize = 16 << 20
	opts.BlockCacheSize = 8 << 20
	db, err := badger.OpenManaged(opts)
	if err != nil {
		panic(fmt.Sprintf("VERIF-INFRA age store: %v", err))
	}
	txn := db.NewTransactionAt(version, true)
	if err = txn.Set(append([]byte{0xff, 0xff}, "verif-age"...), []byte("x")); err == nil {
		err = txn.CommitAt(version, nil)
	}
	if err2 := db.Close(); err == nil {
		err = err2
	}
	if err != nil {
		panic(fmt.Sprintf("VERIF-INFRA age store: %v", err))
	}
}

// Close closes the store and removes the directory if the hub created it.
func (h *Hub) Close() {
	if h.Store != nil {
		_ = h.Store.Close()
		h.Store = nil
	}
	if h.owned {
		_ = os.RemoveAll(h.Dir)
	}
}

// Restart closes and reopens the store on the same directory.
func (h *Hub) Restart() {
	_ = h.Store.Close()
	h.open()
}

// ---- writes ----------------------------------------------------------------

func entJSON(e *Ent) []byte {
	m := map[string]any{"id": e.ID, "props": nonNil(e.Props), "refs": nonNil(e.Refs)}
	if e.Deleted {
		m["deleted"] = true
	}
	b, err := json.Marshal(m)
	if err != nil {
		panic(err)
	}
	return b
}

func nonNil(m map[string]any) map[string]any {
	if m == nil {
		return map[string]any{}
	}
	return m
}

// ToEntity builds a server.Entity the way job sources and sinks do:
// json.Unmarshal of the wire form.
func ToEntity(e *Ent) *server.Entity {
	se := &server.Entity{}
	if err := json.Unmarshal(entJSON(e), se); err != nil {
		panic(err)
	}
	return se
}

func ToEntities(es []*Ent) []*server.Entity {
	out := make([]*server.Entity, len(es))
	for i, e := range es {
		out[i] = ToEntity(e)
	}
	return out
}

// FromEntity extracts the observable content.
func FromEntity(e *server.Entity) *Ent {
	if e == nil {
		return nil
	}
	return &Ent{ID: e.ID, Props: canonMap(e.Properties), Refs: canonMap(e.References), Deleted: e.IsDeleted}
}

// Payload renders a batch as a UDA JSON array with a context that maps the
// store prefixes to the pool namespaces (so the store CURIEs are valid
// payload CURIEs).
func (h *Hub) Payload(es []*Ent) []byte {
	var buf bytes.Buffer
	ctx := map[string]string{}
	for i, p := range h.P {
		ctx[p] = PoolNS[i]
	}
	cb, _ := json.Marshal(map[string]any{"id": "@context", "namespaces": ctx})
	buf.WriteByte('[')
	buf.Write(cb)
	for _, e := range es {
		buf.WriteByte(',')
		buf.Write(entJSON(e))
	}
	buf.WriteByte(']')
	return buf.Bytes()
}

// ParseEntities runs the stream parser over a payload, as the HTTP handlers do.
func (h *Hub) ParseEntities(payload []byte) ([]*server.Entity, error) {
	var ents []*server.Entity
	p := server.NewEntityStreamParser(h.Store)
	err := p.ParseStream(bytes.NewReader(payload), func(e *server.Entity) error { ents = append(ents, e); return nil })
	return ents, err
}

// StoreBatch writes a batch. via: "store" (json.Unmarshal -> StoreEntities, the
// job path) or "parser" (stream parser -> StoreEntities, what the POST handler
// does with each chunk).
func (h *Hub) StoreBatch(ds string, es []*Ent, via string) error {
	d := h.Dsm.GetDataset(ds)
	if d == nil {
		return fmt.Errorf("no dataset %s", ds)
	}
	var ents []*server.Entity
	if via == "parser" {
		var err error
		ents, err = h.ParseEntities(h.Payload(es))
		if err != nil {
			return fmt.Errorf("parse: %w", err)
		}
	} else {
		ents = ToEntities(es)
	}
	return d.StoreEntities(ents)
}

// Txn executes a multi-dataset transaction. ctx=true goes through a
// contextual store copy as JS transforms do.
func (h *Hub) Txn(parts map[string][]*Ent, ctx bool) error {
	t := &server.Transaction{DatasetEntities: map[string][]*server.Entity{}}
	for ds, es := range parts {
		t.DatasetEntities[ds] = ToEntities(es)
	}
	s := h.Store
	if ctx {
		s = server.NewContextualStore(h.Store)
	}
	return s.ExecuteTransaction(t)
}

// ---- reads -----------------------------------------------------------------

// Latest lists the dataset's latest view. limits drives paging: each page uses
// the next limit (cycling); nil = one unlimited call.
func (h *Hub) Latest(ds string, limits []int) ([]*Ent, error) {
	d := h.Dsm.GetDataset(ds)
	if d == nil {
		return nil, fmt.Errorf("no dataset %s", ds)
	}
	if len(limits) == 0 {
		r, err := d.GetEntities("", 0)
		if err != nil {
			return nil, err
		}
		return FromEntities(r.Entities), nil
	}
	var out []*Ent
	tok := ""
	for i := 0; i < 100000; i++ {
		lim := limits[i%len(limits)]
		r, err := d.GetEntities(tok, lim)
		if err != nil {
			return nil, err
		}
		out = append(out, FromEntities(r.Entities)...)
		if len(r.Entities) == 0 {
			break
		}
		if lim == 0 {
			// unlimited page returned everything that was left
			break
		}
		tok = r.ContinuationToken
	}
	return out, nil
}

func FromEntities(es []*server.Entity) []*Ent {
	out := make([]*Ent, len(es))
	for i, e := range es {
		out[i] = FromEntity(e)
	}
	return out
}

// Feed reads the change feed from position since following tokens with the
// given limit sequence (nil = one unlimited call). Returns entities and the
// final token.
func (h *Hub) Feed(ds string, since uint64, limits []int, latestOnly bool) ([]*Ent, uint64, error) {
	d := h.Dsm.GetDataset(ds)
	if d == nil {
		return nil, 0, fmt.Errorf("no dataset %s", ds)
	}
	if len(limits) == 0 {
		c, err := d.GetChanges(since, 0, latestOnly)
		if err != nil {
			return nil, 0, err
		}
		return FromEntities(c.Entities), c.NextToken, nil
	}
	var out []*Ent
	tok := since
	for i := 0; i < 100000; i++ {
		lim := limits[i%len(limits)]
		c, err := d.GetChanges(tok, lim, latestOnly)
		if err != nil {
			return nil, 0, err
		}
		out = append(out, FromEntities(c.Entities)...)
		if c.NextToken == tok {
			break
		}
		tok = c.NextToken
		if lim == 0 {
			break
		}
	}
	return out, tok, nil
}

// Lookup returns the entity as the store reports it for the scope (nil scope
// = all datasets, merged).
func (h *Hub) Lookup(id string, scope []string) (*server.Entity, error) {
	return h.Store.GetEntity(id, scope, true)
}

// Related returns the set "pred|id" for the query, plus whether a pair was
// returned twice. limits: nil = unpaged; else pages follow continuations.
func (h *Hub) Related(start, pred string, inverse bool, scope []string, limits []int) (set map[string]bool, dup string, err error) {
	set = map[string]bool{}
	lim := 0
	if len(limits) > 0 {
		lim = limits[0]
	}
	res, err := h.Store.GetManyRelatedEntitiesBatch([]string{start}, pred, inverse, scope, lim, true)
	if err != nil {
		if strings.Contains(err.Error(), "could not load predicate id") {
			return set, "", nil
		}
		return nil, "", err
	}
	add := func(rs []server.RelatedEntityResult) {
		for _, x := range rs {
			id := ""
			if x.RelatedEntity != nil {
				id = x.RelatedEntity.ID
			}
			k := x.PredicateURI + "|" + id
			if set[k] && dup == "" {
				dup = k
			}
			set[k] = true
		}
	}
	add(res.Relations)
	for i := 1; len(res.Cont) > 0 && lim > 0; i++ {
		if i > 10000 {
			return nil, "", fmt.Errorf("relation paging did not terminate")
		}
		lim = limits[i%len(limits)]
		if lim == 0 {
			lim = 1
		}
		res, err = h.Store.GetManyRelatedEntitiesAtTime(res.Cont, lim, true)
		if err != nil {
			return nil, "", err
		}
		add(res.Relations)
	}
	return set, dup, nil
}

// DatasetNames returns the sorted dataset list without core.Dataset.
func (h *Hub) DatasetNames() []string {
	var out []string
	for _, n := range h.Dsm.GetDatasetNames() {
		if n.Name != "core.Dataset" {
			out = append(out, n.Name)
		}
	}
	sort.Strings(out)
	return out
}

// hubLogger: silent by default; VERIF_HUB_LOG=1 prints the hub's error-level log
// lines (development aid: the hub logs and ignores e.g. a failed badger.Open).
func hubLogger() *zap.SugaredLogger {
	if os.Getenv("VERIF_HUB_LOG") == "" {
		return zap.NewNop().Sugar()
	}
	cfg := zap.NewDevelopmentConfig()
	cfg.Level = zap.NewAtomicLevelAt(zap.ErrorLevel)
	cfg.DisableStacktrace = true
	l, err := cfg.Build()
	if err != nil {
		return zap.NewNop().Sugar()
	}
	return l.Sugar()
}
