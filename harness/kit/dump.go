package verifkit

import (
	"encoding/json"
	"fmt"
	"sort"
	"strings"
)

// dump.go: kit.Dump — everything the read APIs say about a hub, normalised so
// that two hubs holding the same logical content compare equal (DESIGN 3.4).
//
// The result is a tree of JSON-friendly values (maps with string keys, string
// slices, strings, bools) with this layout:
//
//	"datasets"    []string            sorted dataset names, core.Dataset left out
//	"ds"          map[name]map        per dataset:
//	    "latest"          []string    latest view (one unlimited call), each
//	                                  version as Ent.Key(), sorted by id
//	    "feed"            []string    full change feed from position 0, in feed order
//	    "feedLatestOnly"  []string    latest-only change feed, in feed order
//	"lookup"      map[key]any         key = "<scope>|<id>", scope = "*" (all
//	                                  datasets, merged) or a dataset name.
//	                                  scoped:   Ent.Key() of the answer or "<nil>"
//	                                  unscoped: {"deleted":bool,"props":bag,"refs":bag}
//	                                  where bag = MergeBag (key -> sorted multiset
//	                                  of values; merge order is not observable)
//	"rel"         map[key][]string    key = "<out|in>|<scope>|<id>", value = sorted
//	                                  set of "predicate|otherId" for predicate "*"
//	                                  (a pair returned twice appears as an extra
//	                                  "DUP:<pair>" element)
//	"namespaces"  map[prefix]string   the namespace context (prefix -> expansion)
//
// Ids = every entity id that occurs in any latest view or feed, plus every
// reference target of those versions; scopes = all datasets ("*") and each
// dataset on its own. A read API error is recorded in place as "ERR: ...".
//
// Deliberately absent (opaque values, differ between hubs with equal content):
// internal ids, recorded timestamps, continuation tokens / feed positions,
// dataset internal ids, the content of core.Dataset (its item counters are not
// part of any property).
//
// Dump never modifies the hub. It is deterministic: every collection is either
// in API order (feeds) or sorted.
func Dump(h *Hub) map[string]any {
	out := map[string]any{}
	names := h.DatasetNames()
	if names == nil {
		names = []string{}
	}
	out["datasets"] = names

	idSet := map[string]bool{}
	note := func(es []*Ent) {
		for _, e := range es {
			if e == nil {
				continue
			}
			idSet[e.ID] = true
			for _, tv := range e.Refs {
				for _, tg := range RefTargets(Canon(tv)) {
					idSet[tg] = true
				}
			}
		}
	}
	keys := func(es []*Ent) []string {
		ks := make([]string, len(es))
		for i, e := range es {
			ks[i] = e.Key()
		}
		return ks
	}

	dss := map[string]any{}
	for _, n := range names {
		d := map[string]any{}
		if lat, err := h.Latest(n, nil); err != nil {
			d["latest"] = []string{"ERR: " + err.Error()}
		} else {
			note(lat)
			sorted := append([]*Ent(nil), lat...)
			sort.SliceStable(sorted, func(i, j int) bool { return sorted[i].ID < sorted[j].ID })
			d["latest"] = keys(sorted)
		}
		if feed, _, err := h.Feed(n, 0, nil, false); err != nil {
			d["feed"] = []string{"ERR: " + err.Error()}
		} else {
			note(feed)
			d["feed"] = keys(feed)
		}
		if lo, _, err := h.Feed(n, 0, nil, true); err != nil {
			d["feedLatestOnly"] = []string{"ERR: " + err.Error()}
		} else {
			note(lo)
			d["feedLatestOnly"] = keys(lo)
		}
		dss[n] = d
	}
	out["ds"] = dss

	ids := SortedKeys(idSet)
	type sc struct {
		label string
		scope []string
	}
	scopes := []sc{{"*", nil}}
	for _, n := range names {
		scopes = append(scopes, sc{n, []string{n}})
	}

	lookups := map[string]any{}
	rels := map[string]any{}
	for _, s := range scopes {
		for _, id := range ids {
			lk := s.label + "|" + id
			e, err := h.Lookup(id, s.scope)
			switch {
			case err != nil:
				lookups[lk] = "ERR: " + err.Error()
			case e == nil:
				lookups[lk] = "<nil>"
			case s.scope == nil:
				x := FromEntity(e)
				lookups[lk] = map[string]any{
					"deleted": x.Deleted,
					"props":   bagToAny(MergeBag([]map[string]any{x.Props})),
					"refs":    bagToAny(MergeBag([]map[string]any{x.Refs})),
				}
			default:
				lookups[lk] = FromEntity(e).Key()
			}
			for _, inv := range []bool{false, true} {
				dir := "out"
				if inv {
					dir = "in"
				}
				rk := dir + "|" + s.label + "|" + id
				set, dup, err := h.Related(id, "*", inv, s.scope, nil)
				if err != nil {
					rels[rk] = []string{"ERR: " + err.Error()}
					continue
				}
				l := SortedKeys(set)
				if l == nil {
					l = []string{}
				}
				if dup != "" {
					l = append(l, "DUP:"+dup)
				}
				rels[rk] = l
			}
		}
	}
	out["lookup"] = lookups
	out["rel"] = rels

	ns := map[string]any{}
	if ctx := h.Store.NamespaceManager.GetContext(nil); ctx != nil {
		for p, exp := range ctx.Namespaces {
			ns[p] = exp
		}
	}
	out["namespaces"] = ns
	return out
}

func bagToAny(b map[string][]string) map[string]any {
	out := map[string]any{}
	for k, v := range b {
		out[k] = v
	}
	return out
}

// DumpJSON is the canonical text form of a dump (encoding/json sorts map keys).
// Two dumps are equal iff their DumpJSON strings are equal.
func DumpJSON(d map[string]any) string {
	b, err := json.Marshal(d)
	if err != nil {
		panic(err)
	}
	return string(b)
}

// DumpEqual compares two dumps.
func DumpEqual(a, b map[string]any) bool { return DumpJSON(a) == DumpJSON(b) }

// DumpDiff lists up to max differing leaves of two dumps as
// "path: <a> != <b>" lines (empty string = equal).
func DumpDiff(a, b map[string]any, max int) string {
	var lines []string
	var walk func(path string, x, y any)
	walk = func(path string, x, y any) {
		if len(lines) >= max {
			return
		}
		xm, xok := x.(map[string]any)
		ym, yok := y.(map[string]any)
		if xok && yok {
			ks := map[string]bool{}
			for k := range xm {
				ks[k] = true
			}
			for k := range ym {
				ks[k] = true
			}
			for _, k := range SortedKeys(ks) {
				xv, xin := xm[k]
				yv, yin := ym[k]
				switch {
				case !xin:
					lines = append(lines, fmt.Sprintf("%s/%s: <absent> != %s", path, k, short(yv)))
				case !yin:
					lines = append(lines, fmt.Sprintf("%s/%s: %s != <absent>", path, k, short(xv)))
				default:
					walk(path+"/"+k, xv, yv)
				}
				if len(lines) >= max {
					return
				}
			}
			return
		}
		xb, _ := json.Marshal(x)
		yb, _ := json.Marshal(y)
		if string(xb) != string(yb) {
			lines = append(lines, fmt.Sprintf("%s: %s != %s", path, short(x), short(y)))
		}
	}
	walk("", a, b)
	return strings.Join(lines, "\n")
}

func short(v any) string {
	b, _ := json.Marshal(v)
	if len(b) > 600 {
		return string(b[:600]) + "…"
	}
	return string(b)
}
