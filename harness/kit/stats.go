package verifkit

import (
	"crypto/sha256"
	"encoding/binary"
	"encoding/json"
	"fmt"
	"os"
	"sort"
	"strconv"
	"strings"
	"sync"
)

// Stats collects what a run actually explored. One per test process; flushed
// to the file named by VERIF_STATS (the driver merges shards into the
// evidence file).
type Stats struct {
	mu           sync.Mutex
	Evaluations  int            `json:"evaluations"`
	NT           map[string]int `json:"nt"` // hash of canonical non-trivial case -> count
	Classes      map[string]int `json:"classes"`
	Excluded     map[string]int `json:"excluded"`
	Inconclusive int            `json:"inconclusive"`
	Samples      []any          `json:"samples"`
	Extra        map[string]any `json:"extra"`
	maxSamples   int
	ntSamples    int
}

var (
	globalStats     *Stats
	globalStatsOnce sync.Once
)

func S() *Stats {
	globalStatsOnce.Do(func() {
		globalStats = &Stats{NT: map[string]int{}, Classes: map[string]int{}, Excluded: map[string]int{}, Extra: map[string]any{}, maxSamples: 4}
	})
	return globalStats
}

func hashOf(v any) string {
	b, _ := json.Marshal(v)
	h := sha256.Sum256(b)
	return strconv.FormatUint(binary.BigEndian.Uint64(h[:8]), 16)
}

// Case records one executed case. desc is the canonical description of the
// case (op list, input, config); nontrivial is the property's stated rule
// evaluated on it; classes are labels for the distribution histogram.
func (s *Stats) Case(desc any, nontrivial bool, classes ...string) {
	s.mu.Lock()
	defer s.mu.Unlock()
	s.Evaluations++
	for _, c := range classes {
		s.Classes[c]++
	}
	if nontrivial {
		s.Classes["nontrivial"]++
		s.NT[hashOf(desc)]++
		if s.ntSamples < s.maxSamples {
			s.ntSamples++
			s.Samples = append(s.Samples, desc)
		}
	} else if len(s.Samples) == 0 {
		s.Samples = append(s.Samples, desc)
	}
}

func (s *Stats) Class(c string, n int) {
	s.mu.Lock()
	s.Classes[c] += n
	s.mu.Unlock()
}

func (s *Stats) Exclude(shape string) {
	s.mu.Lock()
	s.Excluded[shape]++
	s.mu.Unlock()
}

func (s *Stats) Inconcl() {
	s.mu.Lock()
	s.Inconclusive++
	s.mu.Unlock()
}

func (s *Stats) SetExtra(k string, v any) {
	s.mu.Lock()
	s.Extra[k] = v
	s.mu.Unlock()
}

func (s *Stats) AddExtra(k string, n int) {
	s.mu.Lock()
	cur, _ := s.Extra[k].(int)
	s.Extra[k] = cur + n
	s.mu.Unlock()
}

// Flush writes the stats file. Called from TestMain-less tests via defer in
// each top-level test function (cheap, idempotent).
func (s *Stats) Flush() {
	path := os.Getenv("VERIF_STATS")
	if path == "" {
		return
	}
	s.mu.Lock()
	defer s.mu.Unlock()
	b, _ := json.Marshal(s)
	tmp := path + ".tmp"
	if err := os.WriteFile(tmp, b, 0o644); err == nil {
		_ = os.Rename(tmp, path)
	}
}

// Known reports whether the finding id is listed as "known" for this run
// (VERIF_KNOWN is set by the driver from known_findings.jsonl). Shape
// exclusions are only active for listed findings.
func Known(id string) bool {
	for _, k := range strings.Split(os.Getenv("VERIF_KNOWN"), ",") {
		if k == id {
			return true
		}
	}
	return false
}

func Tier() string {
	if t := os.Getenv("VERIF_TIER"); t != "" {
		return t
	}
	return "quick"
}

func EnvInt(name string, def int) int {
	if v := os.Getenv(name); v != "" {
		if n, err := strconv.Atoi(v); err == nil {
			return n
		}
	}
	return def
}

// Journal appends the case about to be executed, so that the driver can
// attribute a process death to it.
func Journal(desc any) {
	path := os.Getenv("VERIF_JOURNAL")
	if path == "" {
		return
	}
	b, _ := json.Marshal(desc)
	f, err := os.OpenFile(path, os.O_CREATE|os.O_WRONLY|os.O_TRUNC, 0o644)
	if err != nil {
		return
	}
	_, _ = f.Write(b)
	_ = f.Close()
}

func JournalDone() {
	path := os.Getenv("VERIF_JOURNAL")
	if path != "" {
		_ = os.Remove(path)
	}
}

func SortedKeys[V any](m map[string]V) []string {
	k := make([]string, 0, len(m))
	for x := range m {
		k = append(k, x)
	}
	sort.Strings(k)
	return k
}

func Sprintf(f string, a ...any) string { return fmt.Sprintf(f, a...) }
