package verifkit

import (
	"bytes"
	"encoding/binary"
	"fmt"
	"sort"

	"github.com/dgraph-io/badger/v4"

	"github.com/mimiro-io/datahub/internal/server"
)

// RawScan reads the six index families through the raw badger handle and
// checks their cross-consistency for the datasets that exist:
//   - every change-log value names an existing version key, every version key
//     has exactly one change-log entry (strict=true; compaction relaxes this);
//   - every latest pointer names the greatest (time, batch index) version key of
//     its (dataset, entity);
//   - every outgoing ref key has its mirrored incoming key and vice versa, and
//     belongs to an existing version's (entity, dataset, time);
//   - URI->id and id->URI are mutually inverse, no id is used twice, and every
//     entity id used by a version or a reference has a URI.
//
// Keys of deleted datasets are ignored. Returns human-readable violations.
func RawScan(h *Hub, strict bool) []string {
	var out []string
	bad := func(f string, a ...any) {
		if len(out) < 20 {
			out = append(out, fmt.Sprintf(f, a...))
		}
	}
	live := map[uint32]string{}
	for _, n := range h.Dsm.GetDatasetNames() {
		if d := h.Dsm.GetDataset(n.Name); d != nil {
			live[d.InternalID] = n.Name
		}
	}
	type vkey struct {
		rid  uint64
		ds   uint32
		time uint64
		idx  uint16
	}
	versions := map[string]vkey{}   // raw key -> parsed
	versionAt := map[string]bool{}  // rid|ds|time -> exists
	greatest := map[string]string{} // rid|ds -> greatest raw key
	changeOf := map[string]int{}    // version raw key -> number of change-log entries
	latest := map[string]string{}   // rid|ds -> raw version key
	outgoing := map[string]bool{}   // canonical ref tuple
	incoming := map[string]bool{}   // canonical ref tuple
	uri2id := map[string]uint64{}
	id2uri := map[uint64]string{}
	usedIDs := map[uint64]string{}
	db := server.NewBadgerAccess(h.Store, h.Dsm).GetDB()
	err := db.View(func(txn *badger.Txn) error {
		it := txn.NewIterator(badger.DefaultIteratorOptions)
		defer it.Close()
		for it.Rewind(); it.Valid(); it.Next() {
			item := it.Item()
			k := item.KeyCopy(nil)
			if len(k) < 2 {
				continue
			}
			switch binary.BigEndian.Uint16(k) {
			case server.EntityIDToJSONIndexID:
				if len(k) != 24 {
					continue
				}
				v := vkey{binary.BigEndian.Uint64(k[2:]), binary.BigEndian.Uint32(k[10:]), binary.BigEndian.Uint64(k[14:]), binary.BigEndian.Uint16(k[22:])}
				if _, ok := live[v.ds]; !ok {
					continue
				}
				versions[string(k)] = v
				versionAt[fmt.Sprintf("%d|%d|%d", v.rid, v.ds, v.time)] = true
				gk := fmt.Sprintf("%d|%d", v.rid, v.ds)
				if cur, ok := greatest[gk]; !ok || bytes.Compare(k, []byte(cur)) > 0 {
					greatest[gk] = string(k)
				}
				usedIDs[v.rid] = "entity version"
			case server.DatasetEntityChangeLog:
				if len(k) != 22 {
					continue
				}
				ds := binary.BigEndian.Uint32(k[2:])
				if _, ok := live[ds]; !ok {
					continue
				}
				val, _ := item.ValueCopy(nil)
				changeOf[string(val)]++
				if len(val) == 24 && binary.BigEndian.Uint64(val[2:]) != binary.BigEndian.Uint64(k[14:]) {
					bad("change-log entry seq=%d of dataset %s names entity %d but points at a version of entity %d", binary.BigEndian.Uint64(k[6:]), live[ds], binary.BigEndian.Uint64(k[14:]), binary.BigEndian.Uint64(val[2:]))
				}
			case server.DatasetLatestEntities:
				if len(k) != 14 {
					continue
				}
				ds := binary.BigEndian.Uint32(k[2:])
				if _, ok := live[ds]; !ok {
					continue
				}
				val, _ := item.ValueCopy(nil)
				latest[fmt.Sprintf("%d|%d", binary.BigEndian.Uint64(k[6:]), ds)] = string(val)
			case server.OutgoingRefIndex:
				if len(k) != 40 {
					continue
				}
				ds := binary.BigEndian.Uint32(k[36:])
				if _, ok := live[ds]; !ok {
					continue
				}
				rid, tm, pred, rel, del := binary.BigEndian.Uint64(k[2:]), binary.BigEndian.Uint64(k[10:]), binary.BigEndian.Uint64(k[18:]), binary.BigEndian.Uint64(k[26:]), binary.BigEndian.Uint16(k[34:])
				outgoing[fmt.Sprintf("%d|%d|%d|%d|%d|%d", rid, tm, pred, rel, del, ds)] = true
				usedIDs[pred] = "predicate"
				usedIDs[rel] = "reference target"
			case server.IncomingRefIndex:
				if len(k) != 40 {
					continue
				}
				ds := binary.BigEndian.Uint32(k[36:])
				if _, ok := live[ds]; !ok {
					continue
				}
				rel, rid, tm, pred, del := binary.BigEndian.Uint64(k[2:]), binary.BigEndian.Uint64(k[10:]), binary.BigEndian.Uint64(k[18:]), binary.BigEndian.Uint64(k[26:]), binary.BigEndian.Uint16(k[34:])
				incoming[fmt.Sprintf("%d|%d|%d|%d|%d|%d", rid, tm, pred, rel, del, ds)] = true
			case server.URIToIDIndexID:
				val, _ := item.ValueCopy(nil)
				if len(val) == 8 {
					uri2id[string(k[2:])] = binary.BigEndian.Uint64(val)
				}
			case server.IDToURIIndexID:
				if len(k) != 10 {
					continue
				}
				val, _ := item.ValueCopy(nil)
				id2uri[binary.BigEndian.Uint64(k[2:])] = string(val)
			}
		}
		return nil
	})
	if err != nil {
		return []string{"raw scan failed: " + err.Error()}
	}
	for raw, n := range changeOf {
		if _, ok := versions[raw]; !ok {
			bad("change-log entry points at a version key that does not exist (%x)", raw)
		} else if n > 1 {
			bad("version %v has %d change-log entries", versions[raw], n)
		}
	}
	if strict {
		for raw, v := range versions {
			if changeOf[raw] == 0 {
				bad("version of entity %d in dataset %s at %d has no change-log entry", v.rid, live[v.ds], v.time)
			}
		}
	}
	for gk, raw := range latest {
		v, ok := versions[raw]
		if !ok {
			bad("latest pointer %s names a version key that does not exist", gk)
			continue
		}
		if greatest[gk] != raw {
			g := versions[greatest[gk]]
			bad("latest pointer of entity %d in dataset %s names version (t=%d,i=%d) but the greatest stored version is (t=%d,i=%d)", v.rid, live[v.ds], v.time, v.idx, g.time, g.idx)
		}
	}
	for gk := range greatest {
		if _, ok := latest[gk]; !ok {
			bad("entity|dataset %s has versions but no latest pointer", gk)
		}
	}
	for t := range outgoing {
		if !incoming[t] {
			bad("outgoing ref key (rid|time|pred|related|deleted|ds)=%s has no mirrored incoming key", t)
		}
	}
	for t := range incoming {
		if !outgoing[t] {
			bad("incoming ref key (rid|time|pred|related|deleted|ds)=%s has no mirrored outgoing key", t)
		}
	}
	for t := range outgoing {
		var rid, tm, pred, rel uint64
		var del uint16
		var ds uint32
		fmt.Sscanf(t, "%d|%d|%d|%d|%d|%d", &rid, &tm, &pred, &rel, &del, &ds)
		if !versionAt[fmt.Sprintf("%d|%d|%d", rid, ds, tm)] {
			bad("ref key %s does not belong to any stored version of entity %d in dataset %s at time %d", t, rid, live[ds], tm)
		}
	}
	seen := map[uint64]string{}
	uris := make([]string, 0, len(uri2id))
	for u := range uri2id {
		uris = append(uris, u)
	}
	sort.Strings(uris)
	for _, u := range uris {
		id := uri2id[u]
		if prev, ok := seen[id]; ok {
			bad("internal id %d is used for two identifiers: %q and %q", id, prev, u)
		}
		seen[id] = u
		if id2uri[id] != u {
			bad("uri->id maps %q to %d but id->uri maps %d to %q", u, id, id, id2uri[id])
		}
	}
	for id, u := range id2uri {
		if uri2id[u] != id {
			bad("id->uri maps %d to %q but uri->id maps it to %d", id, u, uri2id[u])
		}
	}
	for id, what := range usedIDs {
		if _, ok := id2uri[id]; !ok {
			bad("internal id %d is used as %s but has no identifier (data committed without its id)", id, what)
		}
	}
	sort.Strings(out)
	return out
}
