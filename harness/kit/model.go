// Package verifkit is the shared harness library of the /verif framework.
// It is compiled into /repo as a virtual package (go build -overlay) and
// therefore may import datahub's internal packages.
//
// model.go: the reference model. Deliberately naive: maps and slices.
package verifkit

import (
	"encoding/json"
	"fmt"
	"reflect"
	"sort"
	"strings"
)

// Ent is the observable content of one entity version. IDs, property keys,
// reference keys and reference targets are store CURIEs (ns<k>:local).
type Ent struct {
	ID      string         `json:"id"`
	Props   map[string]any `json:"props"`
	Refs    map[string]any `json:"refs"`
	Deleted bool           `json:"deleted,omitempty"`
}

// Canon round-trips a value through JSON so that numbers are float64, slices
// are []any and nested structs are maps.
func Canon(v any) any {
	b, err := json.Marshal(v)
	if err != nil {
		panic(err)
	}
	var out any
	if err := json.Unmarshal(b, &out); err != nil {
		panic(err)
	}
	return out
}

func canonMap(m map[string]any) map[string]any {
	if m == nil {
		return map[string]any{}
	}
	c := Canon(m)
	if c == nil {
		return map[string]any{}
	}
	return c.(map[string]any)
}

// stripNested normalises nested entities: an Entity serialised by the hub
// omits empty id/internalId/recorded/deleted; a map keeps whatever it had.
// We compare nested entities on id, props, refs, deleted only.
func stripNested(v any) any {
	switch x := v.(type) {
	case map[string]any:
		_, hasP := x["props"]
		_, hasR := x["refs"]
		out := map[string]any{}
		for k, e := range x {
			if hasP && hasR && (k == "internalId" || k == "recorded") {
				continue
			}
			if hasP && hasR && k == "deleted" {
				if b, ok := e.(bool); ok && !b {
					continue
				}
			}
			if hasP && hasR && k == "id" {
				if s, ok := e.(string); ok && s == "" {
					continue
				}
			}
			out[k] = stripNested(e)
		}
		return out
	case []any:
		out := make([]any, len(x))
		for i, e := range x {
			out[i] = stripNested(e)
		}
		return out
	}
	return v
}

// Key is a canonical string for the version content (id included).
func (e *Ent) Key() string {
	if e == nil {
		return "<nil>"
	}
	b, _ := json.Marshal([]any{e.ID, stripNested(canonMap(e.Props)), stripNested(canonMap(e.Refs)), e.Deleted})
	return string(b)
}

// EqualContent: props, refs and the deleted flag are equal (id not compared).
func EqualContent(a, b *Ent) bool {
	if a == nil || b == nil {
		return a == b
	}
	return a.Deleted == b.Deleted &&
		reflect.DeepEqual(stripNested(canonMap(a.Props)), stripNested(canonMap(b.Props))) &&
		reflect.DeepEqual(stripNested(canonMap(a.Refs)), stripNested(canonMap(b.Refs)))
}

func SameVersion(a, b *Ent) bool {
	if a == nil || b == nil {
		return a == b
	}
	return a.ID == b.ID && EqualContent(a, b)
}

func (e *Ent) Clone() *Ent {
	if e == nil {
		return nil
	}
	return &Ent{ID: e.ID, Props: canonMap(e.Props), Refs: canonMap(e.Refs), Deleted: e.Deleted}
}

// RefTargets lists the targets of one reference value (string or array).
func RefTargets(v any) []string {
	switch x := v.(type) {
	case string:
		return []string{x}
	case []any:
		var out []string
		for _, e := range x {
			if s, ok := e.(string); ok {
				out = append(out, s)
			}
		}
		return out
	case []string:
		return x
	}
	return nil
}

// MDataset is one incarnation of a dataset.
type MDataset struct {
	Name        string
	Incarnation int
	Feed        []*Ent
	Latest      map[string]*Ent
	Ever        map[string]bool
	// settings for C19
	PublicNamespaces []string
	Proxy            bool
	Virtual          bool
}

func newMDataset(name string, inc int) *MDataset {
	return &MDataset{Name: name, Incarnation: inc, Latest: map[string]*Ent{}, Ever: map[string]bool{}}
}

// Model of the whole hub's entity graph state.
type Model struct {
	DS       map[string]*MDataset // live datasets by name
	Dead     []*MDataset          // deleted incarnations
	nextInc  int
	EverName map[string]bool // every name that ever existed
}

func NewModel() *Model {
	return &Model{DS: map[string]*MDataset{}, EverName: map[string]bool{}}
}

// Names: the live datasets that hold data (proxy and virtual datasets only exist in the
// catalogue: their content lives elsewhere, they are kept out of every data operation).
func (m *Model) Names() []string {
	var n []string
	for k, d := range m.DS {
		if d.Proxy || d.Virtual {
			continue
		}
		n = append(n, k)
	}
	sort.Strings(n)
	return n
}

// AllNames: every live dataset, proxy and virtual ones included.
func (m *Model) AllNames() []string {
	var n []string
	for k := range m.DS {
		n = append(n, k)
	}
	sort.Strings(n)
	return n
}

func (m *Model) Create(name string) *MDataset {
	if d, ok := m.DS[name]; ok {
		return d
	}
	m.nextInc++
	d := newMDataset(name, m.nextInc)
	m.DS[name] = d
	m.EverName[name] = true
	return d
}

func (m *Model) Delete(name string) {
	if d, ok := m.DS[name]; ok {
		m.Dead = append(m.Dead, d)
		delete(m.DS, name)
	}
}

func (m *Model) Rename(old, nw string) {
	d, ok := m.DS[old]
	if !ok {
		return
	}
	delete(m.DS, old)
	d.Name = nw
	m.DS[nw] = d
	m.EverName[nw] = true
}

// Write applies a batch to a dataset: an element identical to the current
// version (which includes earlier elements of the same batch) changes nothing;
// any other element appends one version. Returns the number of appended versions.
func (m *Model) Write(ds string, batch []*Ent) int {
	d := m.DS[ds]
	n := 0
	for _, v := range batch {
		cur := d.Latest[v.ID]
		d.Ever[v.ID] = true
		if cur != nil && EqualContent(cur, v) {
			continue
		}
		c := v.Clone()
		d.Feed = append(d.Feed, c)
		d.Latest[v.ID] = c
		n++
	}
	return n
}

// LatestOnlyFeed: the newest version of each entity, in feed order.
func (d *MDataset) LatestOnlyFeed() []*Ent {
	var out []*Ent
	for _, v := range d.Feed {
		if d.Latest[v.ID] == v {
			out = append(out, v)
		}
	}
	return out
}

func (m *Model) scope(scope []string) []string {
	if len(scope) == 0 {
		return m.Names()
	}
	return scope
}

// Outgoing returns the set of "pred|target" for start s in scope.
func (m *Model) Outgoing(s string, pred string, scope []string) map[string]bool {
	out := map[string]bool{}
	for _, n := range m.scope(scope) {
		d := m.DS[n]
		if d == nil {
			continue
		}
		v := d.Latest[s]
		if v == nil || v.Deleted {
			continue
		}
		for p, tv := range v.Refs {
			if pred != "*" && pred != p {
				continue
			}
			for _, t := range RefTargets(Canon(tv)) {
				out[p+"|"+t] = true
			}
		}
	}
	return out
}

// Incoming returns the set of "pred|source" for target t in scope.
func (m *Model) Incoming(t string, pred string, scope []string) map[string]bool {
	out := map[string]bool{}
	for _, n := range m.scope(scope) {
		d := m.DS[n]
		if d == nil {
			continue
		}
		for _, v := range d.Latest {
			if v.Deleted {
				continue
			}
			for p, tv := range v.Refs {
				if pred != "*" && pred != p {
					continue
				}
				for _, tt := range RefTargets(Canon(tv)) {
					if tt == t {
						out[p+"|"+v.ID] = true
					}
				}
			}
		}
	}
	return out
}

// Partials returns the per-dataset latest non-deleted versions of id in scope,
// and whether some in-scope dataset holds a deleted latest version.
func (m *Model) Partials(id string, scope []string) (parts []*Ent, anyDeleted bool, anyVersion bool) {
	for _, n := range m.scope(scope) {
		d := m.DS[n]
		if d == nil {
			continue
		}
		v := d.Latest[id]
		if v == nil {
			continue
		}
		anyVersion = true
		if v.Deleted {
			anyDeleted = true
			continue
		}
		parts = append(parts, v)
	}
	return
}

// flatten one level: the multiset of values a key contributes to a merge.
func contrib(v any) []string {
	c := Canon(v)
	var out []string
	if arr, ok := c.([]any); ok {
		for _, e := range arr {
			b, _ := json.Marshal(stripNested(e))
			out = append(out, string(b))
		}
		return out
	}
	b, _ := json.Marshal(stripNested(c))
	return []string{string(b)}
}

// MergeBag describes an entity's key->multiset-of-values, used to compare an
// unscoped (merged) lookup against the model without depending on merge order.
func MergeBag(parts []map[string]any) map[string][]string {
	out := map[string][]string{}
	for _, p := range parts {
		for k, v := range p {
			out[k] = append(out[k], contrib(v)...)
		}
	}
	for k := range out {
		sort.Strings(out[k])
	}
	return out
}

func SetStr(s map[string]bool) string {
	var k []string
	for x := range s {
		k = append(k, x)
	}
	sort.Strings(k)
	return "[" + strings.Join(k, ",") + "]"
}

func EqualSets(a, b map[string]bool) bool {
	if len(a) != len(b) {
		return false
	}
	for k := range a {
		if !b[k] {
			return false
		}
	}
	return true
}

func (m *Model) String() string {
	var sb strings.Builder
	for _, n := range m.Names() {
		d := m.DS[n]
		fmt.Fprintf(&sb, "%s#%d feed=%d latest=%d\n", n, d.Incarnation, len(d.Feed), len(d.Latest))
	}
	return sb.String()
}
