package dataset

// C12, large part: one compaction whose single flush removes thousands of
// keys (hundreds of entities with many references each, every one with a legacy
// duplicate of its latest version, default flush threshold). Same oracle as the
// small histories: everything a reader can ask is unchanged, the full feed loses
// only versions identical to their predecessor.

import (
	"fmt"
	"testing"

	"pgregory.net/rapid"

	kit "github.com/mimiro-io/datahub/internal/verifkit"
)

func TestVerif_C12_large(t *testing.T) {
	defer kit.S().Flush()
	defer kit.CleanupScratch()
	rapid.Check(t, func(t *rapid.T) {
		p := c12Pool()
		n := rapid.SampledFrom([]int{250, 400, 520}).Draw(t, "entities")
		nrefs := rapid.IntRange(6, 10).Draw(t, "refs")
		dupEvery := rapid.SampledFrom([]int{1, 1, 2}).Draw(t, "dupEvery")
		c := &c12Case{Thresholds: []int{c12Default}}
		var batch []*kit.Ent
		for i := 0; i < n; i++ {
			refs := make([]any, nrefs)
			for k := range refs {
				refs[k] = fmt.Sprintf("%s:L%d", p.P[0], (i+k+1)%n)
			}
			batch = append(batch, c12E(fmt.Sprintf("%s:L%d", p.P[0], i), map[string]any{p.Keys[0]: "v"}, map[string]any{p.Preds[0]: refs}, false))
			if len(batch) == 200 || i == n-1 {
				c.Ops = append(c.Ops, c12W(batch...))
				batch = nil
			}
		}
		for i := 0; i < n; i += dupEvery {
			c.Ops = append(c.Ops, c12Op{K: "dup", ID: fmt.Sprintf("%s:L%d", p.P[0], i)})
		}
		desc := map[string]any{"large": true, "entities": n, "refsPerEntity": nrefs, "duplicateEvery": dupEvery}
		kit.Journal(desc)
		r, ran := c12Run(t, c, false)
		kit.JournalDone()
		if !ran {
			return
		}
		kit.S().AddExtra("large compactions: versions removed", r.removed)
		kit.S().Case(desc, r.removed > 0, "large-compaction", fmt.Sprintf("large-keys>=%d", (n/dupEvery)*(2+2*nrefs)/1000*1000))
	})
}
