package dataset

// C12: compaction is invisible to readers.
//
// White-box harness file (compiled into internal/service/dataset as
// zz_verif_c12_test.go): it calls CompactionWorker.compact with a strategy
// whose flush threshold is set, pauses the compactor at the verif hook
// "compact.beforeFlush", and kills a child process at the n-th flush.
//
// A case is data (c12Case): a single-dataset history of write batches and
// injected legacy duplicates, the flush thresholds to run it with, racing
// writers scheduled at a pause point and kill points. It is drawn by rapid,
// journalled, printed on failure and can be re-run from JSON.

import (
	"bytes"
	"encoding/binary"
	"encoding/json"
	"fmt"
	"os"
	"os/exec"
	"reflect"
	gosort "sort"
	"strconv"
	"strings"
	"sync"
	"syscall"
	"testing"
	"time"

	"github.com/dgraph-io/badger/v4"
	"go.uber.org/zap"
	"pgregory.net/rapid"

	"github.com/mimiro-io/datahub/internal/server"
	"github.com/mimiro-io/datahub/internal/verifhook"
	kit "github.com/mimiro-io/datahub/internal/verifkit"
)

const (
	c12DS      = "a"
	c12Point   = "compact.beforeFlush"
	c12Async   = -1 // pseudo threshold: CompactAsync with the strategy POST /compact uses
	c12Default = 100000
)

// ---- the case ---------------------------------------------------------------

type c12Op struct {
	K    string     `json:"k"` // "w" = write batch, "dup" = inject a legacy duplicate of the current version of ID
	Via  string     `json:"via,omitempty"`
	Ents []*kit.Ent `json:"ents,omitempty"`
	ID   string     `json:"id,omitempty"`
}

// c12Race: a writer that stores batches while the compactor is held at the
// pause point: write i commits at the (HitSel mod number of arrivals)+1-th
// arrival, writes scheduled at the same arrival commit in list order.
type c12RaceW struct {
	HitSel int        `json:"hitSel"`
	Via    string     `json:"via"`
	Ents   []*kit.Ent `json:"ents"`
}

type c12Race struct {
	Flush  int        `json:"flush"`
	Writes []c12RaceW `json:"writes"`
	// HoldLock: the writer of an arrival is not finished inside the pause; it is parked just before its
	// commit (holding the dataset's write lock), the compactor is let go and runs into that lock, and
	// only then the writer commits: the write lands between the compactor's preparations for the flush
	// and the flush itself.
	HoldLock bool `json:"holdLock,omitempty"`
	// Early: the (single) writer started BEFORE the compaction: it has taken its commit time and
	// staged its batch, and is parked just before its commit (holding the write lock) when the
	// compactor opens its snapshot; it commits when the compactor has arrived at its first flush.
	Early bool `json:"early,omitempty"`
}

// c12Kill: the process is killed at the NSel-th (mod number of hits) arrival.
type c12Kill struct {
	Flush int `json:"flush"`
	NSel  int `json:"nSel"`
	// DelayUS > 0: instead of a kill at a pause point the compaction child gets SIGKILL from
	// outside that many microseconds after it reported its hub open (a kill at an arbitrary
	// instant; what it hits depends on timing, the case records what was observed).
	DelayUS int `json:"delayUS,omitempty"`
}

type c12Case struct {
	Ops        []c12Op   `json:"ops"`
	Thresholds []int     `json:"thresholds,omitempty"`
	Races      []c12Race `json:"races,omitempty"`
	Kills      []c12Kill `json:"kills,omitempty"`
}

type c12Fataler interface {
	Fatalf(format string, args ...any)
}

// ---- a tiny model of the history (only for generation, shapes, classes) ------

type c12Ver struct {
	E     *kit.Ent
	Batch int // ordinal of the op that wrote it (versions of one batch share the commit time)
	Dup   bool
}

type c12Model struct {
	Feed []*c12Ver
	ByID map[string][]*c12Ver
}

func newC12Model() *c12Model { return &c12Model{ByID: map[string][]*c12Ver{}} }

func (m *c12Model) latest(id string) *c12Ver {
	vs := m.ByID[id]
	if len(vs) == 0 {
		return nil
	}
	return vs[len(vs)-1]
}

func (m *c12Model) add(v *c12Ver) {
	m.Feed = append(m.Feed, v)
	m.ByID[v.E.ID] = append(m.ByID[v.E.ID], v)
}

// write applies the write rule: an element identical to the current version
// (which includes earlier elements of the batch) changes nothing.
func (m *c12Model) write(batch int, es []*kit.Ent) int {
	n := 0
	for _, e := range es {
		if cur := m.latest(e.ID); cur != nil && kit.EqualContent(cur.E, e) {
			continue
		}
		m.add(&c12Ver{E: e.Clone(), Batch: batch})
		n++
	}
	return n
}

func (m *c12Model) apply(i int, op c12Op) {
	switch op.K {
	case "w":
		m.write(i, op.Ents)
	case "dup":
		if cur := m.latest(op.ID); cur != nil {
			m.add(&c12Ver{E: cur.E.Clone(), Batch: i, Dup: true})
		}
	}
}

func c12ModelOf(ops []c12Op) *c12Model {
	m := newC12Model()
	for i, op := range ops {
		m.apply(i, op)
	}
	return m
}

func c12Targets(v any) []string { return kit.RefTargets(kit.Canon(v)) }

// keptRef: b keeps at least one reference key of a with an identical value
// (and at least one target) while the versions differ and have the same
// deleted flag - the input of the strategy's "references only" branch.
func c12KeptRef(a, b *kit.Ent) bool {
	if a.Deleted != b.Deleted || kit.EqualContent(a, b) {
		return false
	}
	for k, v := range b.Refs {
		pv, ok := a.Refs[k]
		if ok && len(c12Targets(v)) > 0 && reflect.DeepEqual(kit.Canon(pv), kit.Canon(v)) {
			return true
		}
	}
	return false
}

// shapeF10: the input shape of finding F10 - some version that is not the last
// one of its entity differs from its predecessor, has the same deleted flag,
// was stored in another batch and keeps a reference key with an identical
// value (the strategy then deletes reference keys only and keeps comparing
// later versions against the older version).
func (m *c12Model) shapeF10() bool {
	for _, vs := range m.ByID {
		for k := 1; k+1 < len(vs); k++ {
			if vs[k].Batch != vs[k-1].Batch && c12KeptRef(vs[k-1].E, vs[k].E) {
				return true
			}
		}
	}
	return false
}

// shapeF11: a racing write touches an entity whose newest version (when
// compaction starts) is identical to its predecessor: compaction removes that
// version and rewrites the entity's latest pointer at flush time.
func (m *c12Model) shapeF11(w []*kit.Ent) bool {
	for _, e := range w {
		vs := m.ByID[e.ID]
		n := len(vs)
		if n >= 2 && kit.EqualContent(vs[n-1].E, vs[n-2].E) {
			return true
		}
	}
	return false
}

// multiPredTargets: targets that some source has referenced with >=2
// predicates over its history (input shape of known finding F04 for wildcard
// incoming queries within one dataset).
func c12MultiPredTargets(vers []*kit.Ent) map[string]bool {
	seen := map[string]map[string]map[string]bool{} // source -> target -> preds
	for _, e := range vers {
		for p, tv := range e.Refs {
			for _, tg := range c12Targets(tv) {
				if seen[e.ID] == nil {
					seen[e.ID] = map[string]map[string]bool{}
				}
				if seen[e.ID][tg] == nil {
					seen[e.ID][tg] = map[string]bool{}
				}
				seen[e.ID][tg][p] = true
			}
		}
	}
	out := map[string]bool{}
	for _, byT := range seen {
		for tg, ps := range byT {
			if len(ps) >= 2 {
				out[tg] = true
			}
		}
	}
	return out
}

func (m *c12Model) classes() (cls []string, nontrivial bool) {
	set := map[string]bool{}
	for _, vs := range m.ByID {
		for k, v := range vs {
			if v.Dup {
				set["legacy-duplicate"] = true
				switch {
				case k == len(vs)-1:
					set["legacy-duplicate-is-latest"] = true
				default:
					set["legacy-duplicate-mid-history"] = true
				}
				if k >= 2 && vs[k-1].Dup {
					set["legacy-duplicate-run>=2"] = true
				}
				if v.E.Deleted {
					set["legacy-duplicate-of-deleted"] = true
				}
				if len(v.E.Refs) > 0 {
					set["legacy-duplicate-with-refs"] = true
				}
			}
			if k >= 1 {
				p := vs[k-1]
				if c12KeptRef(p.E, v.E) {
					set["refs-kept-across-change"] = true
					if k+1 < len(vs) {
						set["refs-kept-then-later-version"] = true
					}
				}
				if p.E.Deleted != v.E.Deleted {
					set["delete-flip"] = true
					if p.E.Deleted {
						set["undelete"] = true
					}
				}
				if p.Batch == v.Batch {
					set["in-batch-repeat"] = true
				}
			}
			for j := 0; j+1 < k; j++ {
				if kit.EqualContent(vs[j].E, v.E) && !kit.EqualContent(vs[k-1].E, v.E) {
					set["flip-back"] = true
					if c12KeptRef(vs[k-1].E, v.E) || (k >= 2 && c12KeptRef(vs[k-2].E, vs[k-1].E)) {
						set["flip-back-with-kept-refs"] = true
					}
				}
			}
		}
		if len(vs) >= 5 {
			set["entity-with>=5-versions"] = true
		}
	}
	nontrivial = set["flip-back"] || set["refs-kept-across-change"] || set["legacy-duplicate"]
	return kit.SortedKeys(set), nontrivial
}

// ---- building a history on a hub -------------------------------------------

var (
	c12PoolOnce sync.Once
	c12PoolVal  *kit.Pool
)

// c12Pool: the id/predicate/key pools. Store prefixes of the pool namespaces
// are the same on every fresh hub (they are asserted right after the core
// namespaces), which c12Open verifies.
func c12Pool() *kit.Pool {
	c12PoolOnce.Do(func() {
		h := kit.NewHub(kit.HubOpts{})
		c12PoolVal = h.Pool()
		h.Close()
	})
	return c12PoolVal
}

func c12Open(f c12Fataler, dir string) *kit.Hub {
	h := kit.NewHub(kit.HubOpts{Dir: dir})
	p := c12Pool()
	if len(h.P) != len(p.P) || h.P[0] != p.P[0] || h.P[1] != p.P[1] {
		f.Fatalf("VERIF-INFRA pool prefixes differ between hubs: %v vs %v", h.P, p.P)
	}
	return h
}

func c12DB(h *kit.Hub) *badger.DB { return server.NewBadgerAccess(h.Store, h.Dsm).GetDB() }

func c12Build(f c12Fataler, dir string, ops []c12Op) *kit.Hub {
	h := c12Open(f, dir)
	if _, err := h.Dsm.CreateDataset(c12DS, nil); err != nil {
		f.Fatalf("VERIF-INFRA create dataset: %v", err)
	}
	m := newC12Model()
	for i, op := range ops {
		switch op.K {
		case "w":
			if err := h.StoreBatch(c12DS, op.Ents, op.Via); err != nil {
				f.Fatalf("VERIF-INFRA history write %d failed: %v", i, err)
			}
		case "dup":
			cur := m.latest(op.ID)
			if cur == nil {
				continue
			}
			if err := c12InjectDup(h, cur.E); err != nil {
				f.Fatalf("VERIF-INFRA duplicate injection at op %d failed: %v", i, err)
			}
		}
		m.apply(i, op)
	}
	return h
}

// c12InjectDup leaves behind what a hub version without write-time
// de-duplication left: a second version with the content of the current one.
// Technique of the repository's own compact_test.go (duplicateEntityChange):
// store the entity with the deleted flag flipped, store the original again,
// then remove the flipped version's JSON key, change-log entry and reference
// keys through the raw handle.
func c12InjectDup(h *kit.Hub, cur *kit.Ent) error {
	d := h.Dsm.GetDataset(c12DS)
	fl := cur.Clone()
	fl.Deleted = !fl.Deleted
	fe := kit.ToEntity(fl)
	if err := d.StoreEntities([]*server.Entity{fe}); err != nil {
		return err
	}
	rid, t2 := fe.InternalID, fe.Recorded
	db := c12DB(h)
	var jsonKey, clKey []byte
	var refKeys [][]byte
	err := db.View(func(txn *badger.Txn) error {
		lk := make([]byte, 14)
		binary.BigEndian.PutUint16(lk, server.DatasetLatestEntities)
		binary.BigEndian.PutUint32(lk[2:], d.InternalID)
		binary.BigEndian.PutUint64(lk[6:], rid)
		item, err := txn.Get(lk)
		if err != nil {
			return fmt.Errorf("latest pointer: %w", err)
		}
		jsonKey, _ = item.ValueCopy(nil)
		if len(jsonKey) != 24 || binary.BigEndian.Uint64(jsonKey[14:]) != t2 {
			return fmt.Errorf("flipped version was not stored")
		}
		pfx := make([]byte, 6)
		binary.BigEndian.PutUint16(pfx, server.DatasetEntityChangeLog)
		binary.BigEndian.PutUint32(pfx[2:], d.InternalID)
		opts := badger.DefaultIteratorOptions
		opts.Prefix = pfx
		it := txn.NewIterator(opts)
		for it.Rewind(); it.ValidForPrefix(pfx); it.Next() {
			v, _ := it.Item().ValueCopy(nil)
			if bytes.Equal(v, jsonKey) {
				clKey = it.Item().KeyCopy(nil)
			}
		}
		it.Close()
		if clKey == nil {
			return fmt.Errorf("change-log entry of the flipped version not found")
		}
		// all reference keys this entity wrote at t2 in this dataset
		rp := make([]byte, 18)
		binary.BigEndian.PutUint16(rp, server.OutgoingRefIndex)
		binary.BigEndian.PutUint64(rp[2:], rid)
		binary.BigEndian.PutUint64(rp[10:], t2)
		opts2 := badger.DefaultIteratorOptions
		opts2.Prefix = rp
		opts2.PrefetchValues = false
		it2 := txn.NewIterator(opts2)
		for it2.Rewind(); it2.ValidForPrefix(rp); it2.Next() {
			k := it2.Item().KeyCopy(nil)
			if len(k) != 40 || binary.BigEndian.Uint32(k[36:]) != d.InternalID {
				continue
			}
			in := make([]byte, 40)
			binary.BigEndian.PutUint16(in, server.IncomingRefIndex)
			copy(in[2:10], k[26:34])  // related
			copy(in[10:18], k[2:10])  // this entity
			copy(in[18:26], k[10:18]) // time
			copy(in[26:34], k[18:26]) // predicate
			copy(in[34:40], k[34:40]) // deleted, dataset
			refKeys = append(refKeys, k, in)
		}
		it2.Close()
		return nil
	})
	if err != nil {
		return err
	}
	if err := d.StoreEntities([]*server.Entity{kit.ToEntity(cur)}); err != nil {
		return err
	}
	return db.Update(func(txn *badger.Txn) error {
		if err := txn.Delete(jsonKey); err != nil {
			return err
		}
		if err := txn.Delete(clKey); err != nil {
			return err
		}
		for _, k := range refKeys {
			if err := txn.Delete(k); err != nil {
				return err
			}
		}
		return nil
	})
}

// ---- observation -------------------------------------------------------------

type c12FV struct {
	ID  string
	Key string // content key (id, props, refs, deleted)
	Rec uint64
}

type c12Q struct {
	Look map[string]string
	Rel  map[string]string
}

type c12Obs struct {
	Feed    []c12FV
	Latest  map[string]string
	LO      map[string]string
	Cur     *c12Q
	Times   []int64
	AsOf    map[int64]*c12Q
	IIDs    map[string]uint64 // internal ids of the pool ids known when the instants were fixed
	Queries int
}

var c12Scopes = [][]string{nil, {c12DS}}

// c12Observe reads everything the statement names. skipIn: targets whose
// wildcard incoming queries are in a known finding's shape (not recorded).
// prev: an earlier observation whose instants (and known ids) are to be
// queried again; nil: every commit instant of the feed and the nanosecond
// before it. asOf=false leaves the point-in-time part out.
func c12Observe(h *kit.Hub, skipIn map[string]bool, prev *c12Obs, asOf bool) (*c12Obs, error) {
	var times []int64
	if prev != nil {
		times = prev.Times
	}
	p := c12Pool()
	o := &c12Obs{Latest: map[string]string{}, LO: map[string]string{}, AsOf: map[int64]*c12Q{}}
	d := h.Dsm.GetDataset(c12DS)
	ch, err := d.GetChanges(0, 0, false)
	if err != nil {
		return nil, fmt.Errorf("full feed: %w", err)
	}
	for _, e := range ch.Entities {
		o.Feed = append(o.Feed, c12FV{ID: e.ID, Key: kit.FromEntity(e).Key(), Rec: e.Recorded})
	}
	lat, err := h.Latest(c12DS, nil)
	if err != nil {
		return nil, fmt.Errorf("latest view: %w", err)
	}
	for _, e := range lat {
		if _, dup := o.Latest[e.ID]; dup {
			return nil, fmt.Errorf("latest view lists %s twice", e.ID)
		}
		o.Latest[e.ID] = e.Key()
	}
	lo, _, err := h.Feed(c12DS, 0, nil, true)
	if err != nil {
		return nil, fmt.Errorf("latest-only feed: %w", err)
	}
	for _, e := range lo {
		if _, dup := o.LO[e.ID]; dup {
			return nil, fmt.Errorf("latest-only feed lists %s twice", e.ID)
		}
		o.LO[e.ID] = e.Key()
	}
	preds := append([]string{"*"}, p.Preds...)
	// current state
	o.Cur = &c12Q{Look: map[string]string{}, Rel: map[string]string{}}
	iids := map[string]uint64{}
	for _, id := range p.IDs {
		for _, sc := range c12Scopes {
			e, err := h.Lookup(id, sc)
			if err != nil {
				return nil, fmt.Errorf("lookup %s %v: %w", id, sc, err)
			}
			if e != nil && sc == nil {
				iids[id] = e.InternalID
			}
			o.Cur.Look[id+"|"+fmt.Sprint(sc)] = kit.FromEntity(e).Key()
			o.Queries++
			for _, pr := range preds {
				for _, inv := range []bool{false, true} {
					if inv && pr == "*" && skipIn[id] {
						continue
					}
					set, _, err := h.Related(id, pr, inv, sc, nil)
					if err != nil {
						return nil, fmt.Errorf("relation query %s %s %v: %w", id, pr, inv, err)
					}
					o.Cur.Rel[fmt.Sprintf("%s|%s|%v|%v", id, pr, inv, sc)] = kit.SetStr(set)
					o.Queries++
				}
			}
		}
	}
	if !asOf {
		return o, nil
	}
	if prev != nil {
		// point-in-time lookups for the ids that were known then
		iids = prev.IIDs
	}
	o.IIDs = iids
	if prev == nil {
		seen := map[int64]bool{}
		for _, v := range o.Feed {
			for _, t := range []int64{int64(v.Rec) - 1, int64(v.Rec)} {
				if !seen[t] {
					seen[t] = true
					times = append(times, t)
				}
			}
		}
		gosort.Slice(times, func(i, j int) bool { return times[i] < times[j] })
	}
	o.Times = times
	for _, at := range times {
		q := &c12Q{Look: map[string]string{}, Rel: map[string]string{}}
		for _, id := range p.IDs {
			for _, sc := range c12Scopes {
				if iid, ok := iids[id]; ok {
					e, err := h.Store.GetEntityAtPointInTimeWithInternalID(iid, at, h.Store.DatasetsToInternalIDs(sc), true)
					if err != nil {
						return nil, fmt.Errorf("as-of lookup %s at %d: %w", id, at, err)
					}
					q.Look[id+"|"+fmt.Sprint(sc)] = kit.FromEntity(e).Key()
					o.Queries++
				}
				for _, pr := range preds {
					for _, inv := range []bool{false, true} {
						if inv && pr == "*" && skipIn[id] {
							continue
						}
						set, err := c12RelatedAt(h, id, pr, inv, sc, at)
						if err != nil {
							return nil, fmt.Errorf("as-of relation query %s %s %v at %d: %w", id, pr, inv, at, err)
						}
						q.Rel[fmt.Sprintf("%s|%s|%v|%v", id, pr, inv, sc)] = kit.SetStr(set)
						o.Queries++
					}
				}
			}
		}
		o.AsOf[at] = q
	}
	return o, nil
}

func c12RelatedAt(h *kit.Hub, start, pred string, inv bool, scope []string, at int64) (map[string]bool, error) {
	set := map[string]bool{}
	from, err := h.Store.ToRelatedFrom([]string{start}, pred, inv, scope, at)
	if err != nil {
		if strings.Contains(err.Error(), "could not load predicate id") {
			return set, nil
		}
		return nil, err
	}
	if from == nil {
		return set, nil
	}
	res, err := h.Store.GetManyRelatedEntitiesAtTime(from, 0, true)
	if err != nil {
		return nil, err
	}
	for _, x := range res.Relations {
		id := ""
		if x.RelatedEntity != nil {
			id = x.RelatedEntity.ID
		}
		set[x.PredicateURI+"|"+id] = true
	}
	return set, nil
}

// c12Raw: no change-log entry of the dataset points at a version key that does
// not exist, and every latest pointer names an existing version.
func c12Raw(h *kit.Hub) string {
	d := h.Dsm.GetDataset(c12DS)
	msg := ""
	_ = c12DB(h).View(func(txn *badger.Txn) error {
		for _, idx := range []uint16{server.DatasetEntityChangeLog, server.DatasetLatestEntities} {
			pfx := make([]byte, 6)
			binary.BigEndian.PutUint16(pfx, idx)
			binary.BigEndian.PutUint32(pfx[2:], d.InternalID)
			opts := badger.DefaultIteratorOptions
			opts.Prefix = pfx
			it := txn.NewIterator(opts)
			for it.Rewind(); it.ValidForPrefix(pfx); it.Next() {
				v, _ := it.Item().ValueCopy(nil)
				if _, err := txn.Get(v); err != nil && msg == "" {
					what := "change-log entry seq=" + fmt.Sprint(binary.BigEndian.Uint64(it.Item().Key()[6:]))
					if idx == server.DatasetLatestEntities {
						what = "latest pointer of entity " + fmt.Sprint(binary.BigEndian.Uint64(it.Item().Key()[6:]))
					}
					msg = fmt.Sprintf("RAW %s names a version key that does not exist (%x): %v", what, v, err)
				}
			}
			it.Close()
		}
		return nil
	})
	return msg
}

// ---- oracle ------------------------------------------------------------------

func c12CmpMap(tag string, want, got map[string]string) string {
	for _, k := range kit.SortedKeys(want) {
		if g, ok := got[k]; !ok {
			return fmt.Sprintf("%s %s: was %s, now missing", tag, k, want[k])
		} else if g != want[k] {
			return fmt.Sprintf("%s %s:\n  expected %s\n  got      %s", tag, k, want[k], g)
		}
	}
	for _, k := range kit.SortedKeys(got) {
		if _, ok := want[k]; !ok {
			return fmt.Sprintf("%s %s: was absent, now %s", tag, k, got[k])
		}
	}
	return ""
}

// c12CmpCurrent: latest view, latest-only feed, lookups and current relations
// are equal on content.
func c12CmpCurrent(ref, got *c12Obs) string {
	if s := c12CmpMap("LATEST-VIEW", ref.Latest, got.Latest); s != "" {
		return s
	}
	if s := c12CmpMap("LATEST-ONLY-FEED", ref.LO, got.LO); s != "" {
		return s
	}
	if s := c12CmpMap("LOOKUP", ref.Cur.Look, got.Cur.Look); s != "" {
		return s
	}
	return c12CmpMap("RELATIONS", ref.Cur.Rel, got.Cur.Rel)
}

func c12CmpAsOf(before, after *c12Obs) string {
	for _, at := range before.Times {
		b, a := before.AsOf[at], after.AsOf[at]
		if a == nil {
			return fmt.Sprintf("harness: instant %d not observed after", at)
		}
		if s := c12CmpMap(fmt.Sprintf("ASOF-LOOKUP at=%d", at), b.Look, a.Look); s != "" {
			return s
		}
		if s := c12CmpMap(fmt.Sprintf("ASOF-RELATIONS at=%d", at), b.Rel, a.Rel); s != "" {
			return s
		}
	}
	return ""
}

// c12CmpFeed: the feed after is the feed before minus versions identical to
// their immediate predecessor of the same entity, order kept. sameStore: commit
// times are comparable (same store before/after); otherwise match on content.
// Greedy earliest matching finds a valid explanation whenever one exists.
func c12CmpFeed(before, after []c12FV, sameStore bool) (removed int, msg string) {
	key := func(v c12FV) string {
		if sameStore {
			return v.Key + "@" + strconv.FormatUint(v.Rec, 10)
		}
		return v.Key
	}
	j := 0
	var gone []int
	for i, a := range after {
		for j < len(before) && key(before[j]) != key(a) {
			gone = append(gone, j)
			j++
		}
		if j == len(before) {
			return 0, fmt.Sprintf("FEED position %d after compaction holds %s, which is not in the remaining feed before (added, changed or reordered)", i, a.Key)
		}
		j++
	}
	for ; j < len(before); j++ {
		gone = append(gone, j)
	}
	for _, p := range gone {
		q := p - 1
		for q >= 0 && before[q].ID != before[p].ID {
			q--
		}
		if q < 0 {
			return 0, fmt.Sprintf("FEED version at position %d (%s) was removed although it is the first version of its entity", p, before[p].Key)
		}
		if before[q].Key != before[p].Key {
			return 0, fmt.Sprintf("FEED version at position %d was removed although it differs from its immediate predecessor\n  removed     %s\n  predecessor %s (position %d)", p, before[p].Key, before[q].Key, q)
		}
	}
	return len(gone), ""
}

// ---- running compaction --------------------------------------------------------

func c12Strategy(flush int) CompactionStrategy {
	st := DeduplicationStrategy().(*deduplicationStrategy)
	if flush > 0 {
		st.flushAfter = flush
	}
	return st
}

// c12Compact runs one compaction. cb (may be nil) is called at every arrival at
// the pause point, in the compactor's goroutine. Returns the number of arrivals.
func c12Compact(h *kit.Hub, flush int, cb func(hit int)) (hits int, err error) {
	verifhook.Reset()
	if cb != nil {
		verifhook.SetCallback(c12Point, cb)
	}
	defer verifhook.Reset()
	c := NewCompactor(h.Store, h.Dsm, zap.NewNop().Sugar())
	if flush == c12Async {
		// what POST /compact does
		if err := c.CompactAsync(c12DS, DeduplicationStrategy()); err != nil {
			return 0, err
		}
		deadline := time.Now().Add(60 * time.Second)
		for c.running {
			if time.Now().After(deadline) {
				return 0, fmt.Errorf("VERIF-WATCHDOG async compaction still running after 60s")
			}
			time.Sleep(200 * time.Microsecond)
		}
	} else if err := c.compact(c12DS, c12Strategy(flush)); err != nil {
		return 0, err
	}
	return verifhook.Hits()[c12Point], nil
}

type c12Runner struct {
	f         c12Fataler
	c         *c12Case
	m         *c12Model
	skipIn    map[string]bool
	noExclude bool
	hits      map[int]int // threshold -> arrivals at the pause point
	// counters
	compactions, removed, queries, races, raceWrites, kills, killsMid int
}

func (r *c12Runner) fail(format string, a ...any) {
	b, _ := json.Marshal(r.c)
	r.f.Fatalf("%s\nVERIF-CASE-BEGIN\n%s\nVERIF-CASE-END", fmt.Sprintf(format, a...), b)
}

func (r *c12Runner) observe(h *kit.Hub, skip map[string]bool, prev *c12Obs, asOf bool, when string) *c12Obs {
	if s := c12Raw(h); s != "" {
		r.fail("%s (%s)", s, when)
	}
	o, err := c12Observe(h, skip, prev, asOf)
	if err != nil {
		r.fail("READ-FAILED %s: %v", when, err)
	}
	r.queries += o.Queries
	return o
}

// sanity: the history was stored the way the harness thinks (otherwise the
// case does not exercise what its classes claim).
func (r *c12Runner) precondition(o *c12Obs) {
	if len(o.Feed) != len(r.m.Feed) {
		r.f.Fatalf("VERIF-INFRA feed before compaction has %d versions, the history model %d", len(o.Feed), len(r.m.Feed))
	}
	for i, v := range r.m.Feed {
		if o.Feed[i].Key != v.E.Key() {
			r.f.Fatalf("VERIF-INFRA feed before compaction differs from the history model at %d: %s vs %s", i, o.Feed[i].Key, v.E.Key())
		}
	}
}

func c12SkipSet(vers []*c12Ver, extra []*kit.Ent) map[string]bool {
	if !kit.Known("F04") {
		return nil
	}
	var es []*kit.Ent
	for _, v := range vers {
		es = append(es, v.E)
	}
	es = append(es, extra...)
	return c12MultiPredTargets(es)
}

// sequential part: history, compaction, before/after comparison.
// build creates the history on a fresh directory; done closes the store and removes it.
func (r *c12Runner) build() (h *kit.Hub, done func()) {
	dir := kit.NewDir("c12")
	h = c12Build(r.f, dir, r.c.Ops)
	return h, func() {
		if h.Store != nil {
			_ = h.Store.Close()
			h.Store = nil
		}
		_ = os.RemoveAll(dir)
	}
}

func (r *c12Runner) countHits(flush int) int {
	if n := r.hits[flush]; n > 0 {
		return n
	}
	tw, done := r.build()
	defer done()
	n, err := c12Compact(tw, flush, nil)
	if err != nil {
		r.fail("COMPACTION-ERROR flush=%d: %v", flush, err)
	}
	r.hits[flush] = n
	return n
}

func (r *c12Runner) runThreshold(flush int) {
	h, done := r.build()
	defer done()
	before := r.observe(h, r.skipIn, nil, true, "before compaction")
	r.precondition(before)
	hits, err := c12Compact(h, flush, nil)
	if err != nil {
		if strings.Contains(err.Error(), "VERIF-WATCHDOG") {
			kit.S().Inconcl()
			return
		}
		r.fail("COMPACTION-ERROR flush=%d: %v", flush, err)
	}
	r.hits[flush] = hits
	after := r.observe(h, r.skipIn, before, true, fmt.Sprintf("after compaction flush=%d", flush))
	r.compare(before, after, fmt.Sprintf("flush=%d", flush))
	r.compactions++
}

func (r *c12Runner) compare(before, after *c12Obs, what string) {
	if s := c12CmpCurrent(before, after); s != "" {
		r.fail("%s changed by compaction (%s)", s, what)
	}
	if s := c12CmpAsOf(before, after); s != "" {
		r.fail("%s changed by compaction (%s)", s, what)
	}
	n, s := c12CmpFeed(before.Feed, after.Feed, true)
	if s != "" {
		r.fail("%s (%s)\n feed before: %s\n feed after:  %s", s, what, c12FeedStr(before.Feed), c12FeedStr(after.Feed))
	}
	r.removed += n
}

func c12FeedStr(f []c12FV) string {
	var sb strings.Builder
	for i, v := range f {
		fmt.Fprintf(&sb, "\n   %2d %s", i, v.Key)
	}
	return sb.String()
}

// race part: a writer commits while the compactor is held at the pause point.
// Reference for the current state: a twin store with the same history and the
// same write, never compacted. Point-in-time answers at the instants before
// the race must stay what they were.
func (r *c12Runner) runRace(rc c12Race) {
	var all []*kit.Ent
	for _, w := range rc.Writes {
		all = append(all, w.Ents...)
	}
	if !r.noExclude && kit.Known("F11") && r.m.shapeF11(all) {
		kit.S().Exclude("F11")
		return
	}
	hitsTotal := r.countHits(rc.Flush)
	// resolve the schedule: arrival -> writes in list order
	at := map[int][]c12RaceW{}
	var order []int
	for _, w := range rc.Writes {
		hit := 1 + w.HitSel%hitsTotal
		if len(at[hit]) == 0 {
			order = append(order, hit)
		}
		at[hit] = append(at[hit], w)
	}
	gosort.Ints(order)
	skip := c12SkipSet(r.m.Feed, all)
	what := fmt.Sprintf("flush=%d, writers at arrivals %v of %d at %s", rc.Flush, order, hitsTotal, c12Point)

	ref, refDone := r.build()
	for _, hit := range order {
		for _, w := range at[hit] {
			if err := ref.StoreBatch(c12DS, w.Ents, w.Via); err != nil {
				refDone()
				r.f.Fatalf("VERIF-INFRA twin write failed: %v", err)
			}
		}
	}
	want := r.observe(ref, skip, nil, false, "twin store")
	refDone()

	h, done := r.build()
	defer done()
	before := r.observe(h, skip, nil, true, "before compaction")
	var werr error
	wrote := 0
	var late []chan error
	var earlyRelease chan struct{}
	if rc.Early {
		w := rc.Writes[0]
		parked, release := make(chan struct{}), make(chan struct{})
		var once sync.Once
		verifhook.SetCallback("store.beforeIDCommit", func(int) { once.Do(func() { close(parked); <-release }) })
		ch := make(chan error, 1)
		go func() { ch <- h.StoreBatch(c12DS, w.Ents, w.Via) }()
		select {
		case <-parked:
			earlyRelease = release
			late = append(late, ch)
		case e := <-ch:
			close(release)
			r.f.Fatalf("VERIF-INFRA the early writer was not parked (returned %v)", e)
		case <-time.After(10 * time.Second):
			close(release)
			r.f.Fatalf("VERIF-INFRA the early writer never reached its commit")
		}
	}
	_, err := c12Compact(h, rc.Flush, func(n int) {
		if rc.Early {
			if earlyRelease != nil {
				rel := earlyRelease
				earlyRelease = nil
				go func() { time.Sleep(30 * time.Millisecond); close(rel) }()
			}
			return
		}
		for i, w := range at[n] {
			w := w
			ch := make(chan error, 1)
			if rc.HoldLock && i == len(at[n])-1 {
				parked, release := make(chan struct{}), make(chan struct{})
				var once sync.Once
				verifhook.SetCallback("store.beforeIDCommit", func(int) { once.Do(func() { close(parked); <-release }) })
				go func() { ch <- h.StoreBatch(c12DS, w.Ents, w.Via) }()
				select {
				case <-parked:
					// the writer holds the lock; the compactor continues when this callback returns
					go func() { time.Sleep(30 * time.Millisecond); close(release) }()
					late = append(late, ch)
				case e := <-ch:
					close(release)
					wrote++
					if e != nil && werr == nil {
						werr = e
					}
				case <-time.After(5 * time.Second):
					close(release)
					late = append(late, ch)
				}
				continue
			}
			go func() { ch <- h.StoreBatch(c12DS, w.Ents, w.Via) }()
			select {
			case e := <-ch:
				wrote++
				if e != nil && werr == nil {
					werr = e
				}
			case <-time.After(5 * time.Second):
				// the compactor holds something the writer needs: the write lands after the flush
				late = append(late, ch)
			}
		}
	})
	for _, ch := range late {
		select {
		case e := <-ch:
			wrote++
			if e != nil && werr == nil {
				werr = e
			}
		case <-time.After(60 * time.Second):
			kit.S().Inconcl()
			return
		}
	}
	if err != nil {
		r.fail("COMPACTION-ERROR %s: %v", what, err)
	}
	if wrote != len(rc.Writes) {
		r.f.Fatalf("VERIF-INFRA %d of %d racing writes executed (%s)", wrote, len(rc.Writes), what)
	}
	if werr != nil {
		r.fail("RACING-WRITE-REJECTED %s: %v", what, werr)
	}
	if len(late) > 0 {
		kit.S().Class("racing-writer-blocked-until-after-flush", 1)
	}
	if rc.HoldLock {
		kit.S().Class("racing-writer-holds-the-lock-while-the-compactor-arrives", 1)
	}
	if rc.Early {
		kit.S().Class("writer-parked-before-its-commit-when-the-compaction-starts", 1)
	}
	after := r.observe(h, skip, before, true, "after compaction with racing writer")
	if s := c12CmpCurrent(want, after); s != "" {
		r.fail("%s differs from the twin store that took the same writes and was never compacted (%s)", s, what)
	}
	if s := c12CmpAsOf(before, after); s != "" {
		r.fail("%s changed by compaction (%s)", s, what)
	}
	n, s := c12CmpFeed(want.Feed, after.Feed, false)
	if s != "" {
		r.fail("%s (%s; 'before' = feed of the never-compacted twin)\n feed twin:  %s\n feed after: %s", s, what, c12FeedStr(want.Feed), c12FeedStr(after.Feed))
	}
	r.removed += n
	r.races++
	r.raceWrites += len(rc.Writes)
}

// kill part: a child process compacts and is killed at the n-th arrival at the
// flush point; the parent reopens the store and compares with before.
func (r *c12Runner) runKill(k c12Kill) {
	if k.DelayUS > 0 {
		r.runKillTimed(k)
		return
	}
	hitsTotal := r.countHits(k.Flush)
	n := 1 + k.NSel%hitsTotal
	dir := kit.NewDir("c12k")
	defer os.RemoveAll(dir)
	h := c12Build(r.f, dir, r.c.Ops)
	before := r.observe(h, r.skipIn, nil, true, "before compaction")
	_ = h.Store.Close()
	h.Store = nil

	cmd := exec.Command(os.Args[0], "-test.run", "^TestVerifChild_C12$", "-test.count", "1")
	cmd.Env = append(os.Environ(),
		"VERIF_C12_CHILD="+dir, "VERIF_C12_FLUSH="+strconv.Itoa(k.Flush),
		"VERIF_CRASH="+c12Point+":"+strconv.Itoa(n), "VERIF_STATS=", "VERIF_JOURNAL=")
	out, err := cmd.CombinedOutput()
	killed := false
	if err != nil {
		if ee, ok := err.(*exec.ExitError); ok {
			if ws, ok := ee.Sys().(syscall.WaitStatus); ok && ws.Signaled() && ws.Signal() == syscall.SIGKILL {
				killed = true
			}
		}
		if _, isExit := err.(*exec.ExitError); !killed && !isExit {
			r.f.Fatalf("VERIF-INFRA cannot run the compaction child: %v", err)
		}
		if !killed {
			if strings.Contains(string(out), "VERIF-INFRA") {
				r.f.Fatalf("VERIF-INFRA compaction child: %v\n%s", err, out)
			}
			r.fail("COMPACTION-CHILD-FAILED flush=%d kill at arrival %d/%d: %v\n%s", k.Flush, n, hitsTotal, err, out)
		}
	}
	if !killed {
		r.f.Fatalf("VERIF-INFRA compaction child was not killed at arrival %d of %d (flush=%d)\n%s", n, hitsTotal, k.Flush, out)
	}
	h2 := c12Open(r.f, dir)
	defer func() { _ = h2.Store.Close() }()
	what := fmt.Sprintf("flush=%d process killed at arrival %d/%d of %s, store reopened", k.Flush, n, hitsTotal, c12Point)
	after := r.observe(h2, r.skipIn, before, true, what)
	r.compare(before, after, what)
	// a later complete compaction must again be invisible
	if _, err := c12Compact(h2, k.Flush, nil); err != nil {
		r.fail("COMPACTION-ERROR on the reopened store (%s): %v", what, err)
	}
	after2 := r.observe(h2, r.skipIn, before, true, what+", compacted again")
	r.compare(before, after2, what+", compacted again")
	r.kills++
	if n > 1 && n < hitsTotal {
		r.killsMid++
	}
}

// runKillTimed: the compaction child is killed from outside after a drawn delay.
func (r *c12Runner) runKillTimed(k c12Kill) {
	dir := kit.NewDir("c12t")
	defer os.RemoveAll(dir)
	h := c12Build(r.f, dir, r.c.Ops)
	before := r.observe(h, r.skipIn, nil, true, "before compaction")
	_ = h.Store.Close()
	h.Store = nil
	ready := dir + "/child-ready"
	cmd := exec.Command(os.Args[0], "-test.run", "^TestVerifChild_C12$", "-test.count", "1")
	cmd.Env = append(os.Environ(), "VERIF_C12_CHILD="+dir, "VERIF_C12_FLUSH="+strconv.Itoa(k.Flush), "VERIF_C12_READY="+ready,
		"VERIF_CRASH=", "VERIF_STATS=", "VERIF_JOURNAL=")
	var buf bytes.Buffer
	cmd.Stdout, cmd.Stderr = &buf, &buf
	if err := cmd.Start(); err != nil {
		r.f.Fatalf("VERIF-INFRA cannot start the compaction child: %v", err)
	}
	exited := make(chan error, 1)
	go func() { exited <- cmd.Wait() }()
	deadline := time.Now().Add(60 * time.Second)
	isReady, gone := false, false
	var werr error
	for !isReady && !gone && time.Now().Before(deadline) {
		select {
		case werr = <-exited:
			gone = true
		default:
			if _, e := os.Stat(ready); e == nil {
				isReady = true
			} else {
				time.Sleep(100 * time.Microsecond)
			}
		}
	}
	if isReady {
		t1 := time.Now()
		for time.Since(t1) < time.Duration(k.DelayUS)*time.Microsecond {
		}
	}
	if !gone {
		_ = cmd.Process.Kill()
		werr = <-exited
	}
	killed := false
	if ee, ok := werr.(*exec.ExitError); ok {
		if ws, ok := ee.Sys().(syscall.WaitStatus); ok && ws.Signaled() && ws.Signal() == syscall.SIGKILL {
			killed = true
		}
	}
	if !killed && werr != nil {
		if strings.Contains(buf.String(), "VERIF-INFRA") {
			r.f.Fatalf("VERIF-INFRA compaction child: %v\n%s", werr, buf.String())
		}
		r.fail("COMPACTION-CHILD-FAILED flush=%d (timed kill part): %v\n%s", k.Flush, werr, buf.String())
	}
	if !killed {
		kit.S().AddExtra("timed kill came after the compaction had ended", 1)
	} else {
		kit.S().AddExtra("timed kills of the compaction child", 1)
	}
	if kit.Known("F27") && c12EmptyMemtable(dir) {
		// known finding F27 (input shape: the killed process left an empty memtable file): that start
		// fails and sizes the file; carry on with the start after it
		kit.S().Exclude("F27")
		func() {
			defer func() { _ = recover() }()
			if h0 := kit.NewHub(kit.HubOpts{Dir: dir}); h0 != nil && h0.Store != nil {
				_ = h0.Store.Close()
			}
		}()
	}
	var h2 *kit.Hub
	func() {
		defer func() {
			if p := recover(); p != nil {
				r.fail("STORE-DOES-NOT-OPEN after the compaction process was killed %dus after its hub was open (flush=%d): %v", k.DelayUS, k.Flush, p)
			}
		}()
		h2 = c12Open(r.f, dir)
	}()
	defer func() { _ = h2.Store.Close() }()
	what := fmt.Sprintf("flush=%d compaction process killed %dus after its hub was open (killed=%v), store reopened", k.Flush, k.DelayUS, killed)
	after := r.observe(h2, r.skipIn, before, true, what)
	r.compare(before, after, what)
	if _, err := c12Compact(h2, k.Flush, nil); err != nil {
		r.fail("COMPACTION-ERROR on the reopened store (%s): %v", what, err)
	}
	after2 := r.observe(h2, r.skipIn, before, true, what+", compacted again")
	r.compare(before, after2, what+", compacted again")
	if killed {
		r.kills++
	}
}

func c12EmptyMemtable(dir string) bool {
	for _, sub := range []string{"store", ""} {
		ents, _ := os.ReadDir(dir + "/" + sub)
		for _, e := range ents {
			if strings.HasSuffix(e.Name(), ".mem") {
				if st, err := e.Info(); err == nil && st.Size() == 0 {
					return true
				}
			}
		}
	}
	return false
}

// TestVerifChild_C12 is the compaction child of the kill part.
func TestVerifChild_C12(t *testing.T) {
	dir := os.Getenv("VERIF_C12_CHILD")
	if dir == "" {
		t.Skip("child process only")
	}
	flush, _ := strconv.Atoi(os.Getenv("VERIF_C12_FLUSH"))
	h := kit.NewHub(kit.HubOpts{Dir: dir})
	c := NewCompactor(h.Store, h.Dsm, zap.NewNop().Sugar())
	if rf := os.Getenv("VERIF_C12_READY"); rf != "" {
		_ = os.WriteFile(rf, []byte("1"), 0o644)
	}
	if err := c.compact(c12DS, c12Strategy(flush)); err != nil {
		t.Fatalf("compaction failed: %v", err)
	}
	_ = h.Store.Close()
}

// c12Run executes a case. Returns false when the case was skipped as a whole
// because its history is in a known finding's input shape.
func c12Run(f c12Fataler, c *c12Case, noExclude bool) (*c12Runner, bool) {
	r := &c12Runner{f: f, c: c, m: c12ModelOf(c.Ops), noExclude: noExclude, hits: map[int]int{}}
	if !noExclude && kit.Known("F10") && r.m.shapeF10() {
		kit.S().Exclude("F10")
		return r, false
	}
	r.skipIn = c12SkipSet(r.m.Feed, nil)
	if len(r.skipIn) > 0 {
		kit.S().Exclude("F04")
	}
	for _, fl := range c.Thresholds {
		r.runThreshold(fl)
	}
	for _, rc := range c.Races {
		r.runRace(rc)
	}
	for _, k := range c.Kills {
		r.runKill(k)
	}
	kit.S().AddExtra("compactions_compared", r.compactions)
	kit.S().AddExtra("race_schedules_compared", r.races)
	kit.S().AddExtra("racing_writes", r.raceWrites)
	kit.S().AddExtra("kill_points_compared", r.kills)
	kit.S().AddExtra("kill_points_between_first_and_last_flush", r.killsMid)
	kit.S().AddExtra("versions_removed_by_compaction", r.removed)
	kit.S().AddExtra("read_queries_compared", r.queries)
	return r, true
}

// ---- generation -----------------------------------------------------------------

var c12Vals = []any{"A", "B", "CC", "", 1.0, true}

func c12GenEnt(t *rapid.T, m *c12Model, p *kit.Pool, id string) *kit.Ent {
	cur := m.latest(id)
	fresh := func() *kit.Ent {
		e := kit.GenEnt(t, p, kit.GenCfg{MaxRefs: 2, DelPercent: 12}, []string{id})
		if rapid.IntRange(0, 2).Draw(t, "small") > 0 {
			// small value space: values flip back by themselves
			e.Props = map[string]any{p.Keys[0]: rapid.SampledFrom(c12Vals).Draw(t, "v")}
		}
		return e
	}
	if cur == nil {
		return fresh()
	}
	c := cur.E.Clone()
	switch rapid.IntRange(0, 11).Draw(t, "shape") {
	case 0, 1:
		return fresh()
	case 2, 3: // flip back to an earlier version
		vs := m.ByID[id]
		return vs[rapid.IntRange(0, len(vs)-1).Draw(t, "back")].E.Clone()
	case 4, 5, 6: // references kept, a property changes
		c.Props[rapid.SampledFrom(p.Keys[:2]).Draw(t, "pk")] = rapid.SampledFrom(c12Vals).Draw(t, "v")
		if len(c.Refs) == 0 {
			c.Refs[rapid.SampledFrom(p.Preds).Draw(t, "rk")] = rapid.SampledFrom(p.IDs).Draw(t, "tgt")
		}
		return c
	case 7: // properties kept, references change
		rk := rapid.SampledFrom(p.Preds).Draw(t, "rk")
		switch rapid.IntRange(0, 2).Draw(t, "rc") {
		case 0:
			delete(c.Refs, rk)
		case 1:
			c.Refs[rk] = rapid.SampledFrom(p.IDs).Draw(t, "tgt")
		default:
			c.Refs[rk] = []any{rapid.SampledFrom(p.IDs).Draw(t, "tgt"), rapid.SampledFrom(p.IDs).Draw(t, "tgt2")}
		}
		return c
	case 8: // one reference key kept, another changes, a property changes
		c.Props[p.Keys[0]] = rapid.SampledFrom(c12Vals).Draw(t, "v")
		c.Refs[rapid.SampledFrom(p.Preds).Draw(t, "rk")] = rapid.SampledFrom(p.IDs).Draw(t, "tgt")
		return c
	case 9, 10: // delete / un-delete run
		c.Deleted = !c.Deleted
		return c
	default: // identical rewrite (the write path drops it)
		return c
	}
}

func c12GenBatch(t *rapid.T, m *c12Model, p *kit.Pool, srcs []string) []*kit.Ent {
	n := 1
	if rapid.IntRange(0, 3).Draw(t, "multi") == 0 {
		n = rapid.IntRange(2, 3).Draw(t, "n")
	}
	tmp := &c12Model{ByID: map[string][]*c12Ver{}}
	for id, vs := range m.ByID {
		tmp.ByID[id] = append([]*c12Ver(nil), vs...)
	}
	var es []*kit.Ent
	for i := 0; i < n; i++ {
		id := rapid.SampledFrom(srcs).Draw(t, "id")
		e := c12GenEnt(t, tmp, p, id)
		es = append(es, e)
		tmp.write(-1, []*kit.Ent{e})
	}
	return es
}

func c12GenCase(t *rapid.T) *c12Case {
	p := c12Pool()
	// few source entities so that each collects many versions
	srcs := p.IDs[:rapid.IntRange(1, 3).Draw(t, "nsrc")]
	maxOps := 14
	if kit.Tier() == "thorough" {
		maxOps = 30
	}
	n := rapid.IntRange(3, maxOps).Draw(t, "nops")
	c := &c12Case{}
	m := newC12Model()
	for i := 0; i < n; i++ {
		var op c12Op
		ids := kit.SortedKeys(m.ByID)
		if len(ids) > 0 && rapid.IntRange(0, 3).Draw(t, "kind") == 0 {
			op = c12Op{K: "dup", ID: rapid.SampledFrom(ids).Draw(t, "dupid")}
		} else {
			op = c12Op{K: "w", Via: rapid.SampledFrom([]string{"store", "parser"}).Draw(t, "via"), Ents: c12GenBatch(t, m, p, srcs)}
		}
		m.apply(i, op)
		c.Ops = append(c.Ops, op)
	}
	// sometimes one batch of a few hundred entities in which a source entity occurs on both sides of
	// position 256 (the position in the batch is a two-byte part of the version key), keeping its
	// references while a property changes
	if rapid.IntRange(0, 5).Draw(t, "bigBatch") == 0 {
		id := rapid.SampledFrom(srcs).Draw(t, "bigId")
		p1 := rapid.SampledFrom([]int{3, 200, 255}).Draw(t, "bigP1")
		p2 := rapid.SampledFrom([]int{256, 257, 260, 300}).Draw(t, "bigP2")
		first := &kit.Ent{ID: id, Props: map[string]any{p.Keys[0]: "big1"}, Refs: map[string]any{p.Preds[0]: rapid.SampledFrom(p.IDs).Draw(t, "bigTgt")}}
		second := first.Clone()
		second.Props[p.Keys[0]] = "big2"
		var es []*kit.Ent
		for k := 0; k <= p2; k++ {
			switch k {
			case p1:
				es = append(es, first)
			case p2:
				es = append(es, second)
			default:
				es = append(es, &kit.Ent{ID: fmt.Sprintf("%s:f%d", p.P[0], k), Props: map[string]any{p.Keys[0]: "f"}, Refs: map[string]any{}})
			}
		}
		op := c12Op{K: "w", Via: "store", Ents: es}
		m.apply(len(c.Ops), op)
		c.Ops = append(c.Ops, op)
	}
	c.Thresholds = []int{1, 2, 3, c12Default}
	if rapid.IntRange(0, 4).Draw(t, "async") == 0 {
		c.Thresholds = append(c.Thresholds, c12Async)
	}
	flushes := []int{1, 2, 3, c12Default}
	nr := kit.EnvInt("VERIF_C12_RACES", 2)
	// entities whose newest version is a duplicate of its predecessor
	var dupLatest []string
	for _, id := range kit.SortedKeys(m.ByID) {
		vs := m.ByID[id]
		if k := len(vs); k >= 2 && kit.EqualContent(vs[k-1].E, vs[k-2].E) {
			dupLatest = append(dupLatest, id)
		}
	}
	for i := 0; i < nr; i++ {
		rc := c12Race{Flush: rapid.SampledFrom(flushes).Draw(t, "rflush"), HoldLock: rapid.IntRange(0, 2).Draw(t, "holdLock") == 0}
		// the writer's view of the dataset evolves with its own writes
		wm := &c12Model{ByID: map[string][]*c12Ver{}}
		for id, vs := range m.ByID {
			wm.ByID[id] = append([]*c12Ver(nil), vs...)
		}
		nw := rapid.SampledFrom([]int{1, 1, 2, 3}).Draw(t, "nw")
		if rapid.IntRange(0, 2).Draw(t, "early") == 0 {
			rc.Early, rc.HoldLock, nw = true, false, 1
		}
		for j := 0; j < nw; j++ {
			w := c12RaceW{HitSel: rapid.IntRange(0, 999).Draw(t, "hit"), Via: rapid.SampledFrom([]string{"store", "parser"}).Draw(t, "rvia")}
			if len(dupLatest) > 0 && rapid.IntRange(0, 2).Draw(t, "tgtdup") == 0 {
				w.Ents = []*kit.Ent{c12GenEnt(t, wm, p, rapid.SampledFrom(dupLatest).Draw(t, "rid"))}
			} else {
				w.Ents = c12GenBatch(t, wm, p, p.IDs[:3])
			}
			wm.write(-1, w.Ents)
			rc.Writes = append(rc.Writes, w)
		}
		c.Races = append(c.Races, rc)
	}
	nk := kit.EnvInt("VERIF_C12_KILLS", 2)
	for i := 0; i < nk; i++ {
		c.Kills = append(c.Kills, c12Kill{Flush: rapid.SampledFrom([]int{1, 1, 2, 3, c12Default}).Draw(t, "kflush"), NSel: rapid.IntRange(0, 999).Draw(t, "kn")})
	}
	for i := 0; i < kit.EnvInt("VERIF_C12_TIMED_KILLS", 1); i++ {
		c.Kills = append(c.Kills, c12Kill{Flush: rapid.SampledFrom([]int{1, 1, 2, 3, c12Default}).Draw(t, "tkflush"), DelayUS: rapid.IntRange(1, 4000).Draw(t, "tkdelay")})
	}
	return c
}

// ---- tests ---------------------------------------------------------------------

func c12Replay(t *testing.T) *c12Case {
	p := os.Getenv("VERIF_REPLAY_CASE")
	if p == "" {
		return nil
	}
	b, err := os.ReadFile(p)
	if err != nil {
		t.Fatalf("VERIF-INFRA cannot read replay case: %v", err)
	}
	c := &c12Case{}
	if err := json.Unmarshal(b, c); err != nil {
		t.Fatalf("VERIF-INFRA cannot parse replay case: %v", err)
	}
	return c
}

func TestVerif_C12(t *testing.T) {
	defer kit.S().Flush()
	defer kit.CleanupScratch()
	if c := c12Replay(t); c != nil {
		c12Run(t, c, false)
		return
	}
	rapid.Check(t, func(t *rapid.T) {
		c := c12GenCase(t)
		if kit.Known("F10") {
			// keep the longest prefix of the history that is outside the known shape
			n := len(c.Ops)
			for n > 0 && c12ModelOf(c.Ops[:n]).shapeF10() {
				n--
			}
			if n < len(c.Ops) {
				kit.S().Exclude("F10")
				if n < 3 {
					return
				}
				c.Ops = c.Ops[:n]
			}
		}
		kit.Journal(c)
		r, ran := c12Run(t, c, false)
		kit.JournalDone()
		if !ran {
			return
		}
		cls, nt := r.m.classes()
		kit.S().Case(c, nt, cls...)
	})
}

func c12E(id string, props, refs map[string]any, deleted bool) *kit.Ent {
	if props == nil {
		props = map[string]any{}
	}
	if refs == nil {
		refs = map[string]any{}
	}
	return &kit.Ent{ID: id, Props: props, Refs: refs, Deleted: deleted}
}

func c12W(es ...*kit.Ent) c12Op { return c12Op{K: "w", Via: "store", Ents: es} }

// F10: the strategy does not advance its comparison base after a "references
// only" deletion. (1) A, B, A with a kept reference loses the final A from the
// feed; (2) a reference that comes back equal to the stale base loses its key,
// so the current relation disappears.
func TestVerifProbe_F10(t *testing.T) {
	defer kit.CleanupScratch()
	p := c12Pool()
	a := p.P[0]
	e0, x, y, z := a+":e0", a+":e1", a+":e2", p.P[1]+":e0"
	r, s, k := a+":r0", a+":r1", a+":p0"
	c12Run(t, &c12Case{Thresholds: []int{c12Default, 1}, Ops: []c12Op{
		c12W(c12E(e0, map[string]any{k: "A"}, map[string]any{r: x}, false)),
		c12W(c12E(e0, map[string]any{k: "B"}, map[string]any{r: x}, false)),
		c12W(c12E(e0, map[string]any{k: "A"}, map[string]any{r: x}, false)),
	}}, true)
	c12Run(t, &c12Case{Thresholds: []int{c12Default, 1}, Ops: []c12Op{
		c12W(c12E(e0, map[string]any{k: "A"}, map[string]any{r: x, s: y}, false)),
		c12W(c12E(e0, map[string]any{k: "B"}, map[string]any{r: x, s: z}, false)),
		c12W(c12E(e0, map[string]any{k: "C"}, map[string]any{r: x, s: y}, false)),
	}}, true)
}

// F11: a write that commits between the compactor's scan and its flush loses
// its latest pointer when compaction removes the entity's previous newest
// version as a duplicate.
func TestVerifProbe_F11(t *testing.T) {
	defer kit.CleanupScratch()
	p := c12Pool()
	a := p.P[0]
	e0, k := a+":e0", a+":p0"
	c12Run(t, &c12Case{
		Ops:   []c12Op{c12W(c12E(e0, map[string]any{k: "A"}, nil, false)), {K: "dup", ID: e0}},
		Races: []c12Race{{Flush: 1, Writes: []c12RaceW{{HitSel: 0, Via: "store", Ents: []*kit.Ent{c12E(e0, map[string]any{k: "B"}, nil, false)}}}}},
	}, true)
}

// F25: the "references only" branch removed the reference keys of a version
// although later versions of the same entity were stored in the same batch:
// reference keys carry the commit time but not the position in the batch, so
// the removed keys were also the later versions' tombstones and a removed
// relation came back. Needs: V1 deleted with a reference; one batch [V2 =
// V1 with another property (still deleted), V3 live keeping the reference, V4
// live without it].
func TestVerifProbe_F25(t *testing.T) {
	defer kit.CleanupScratch()
	p := c12Pool()
	a := p.P[0]
	e0, x, y := a+":e0", a+":e1", p.P[1]+":e0"
	r, k := p.P[1]+":r2", a+":p0"
	c12Run(t, &c12Case{Thresholds: []int{1, c12Default}, Ops: []c12Op{
		c12W(c12E(e0, nil, map[string]any{r: []any{x, y}}, true)),
		c12W(c12E(e0, map[string]any{k: true}, map[string]any{r: []any{x, y}}, true),
			c12E(e0, nil, map[string]any{r: []any{y}}, false),
			c12E(e0, nil, nil, false)),
	}}, true)
}
