// Native coverage-guided fuzzing of the UDA stream parser (property C15 (c)).
//
// This directory is an external Go module whose path has datahub's module path
// as prefix, so datahub's internal/ packages are importable; crashers are
// written to testdata/fuzz/ here, never into the repository. The in-target
// oracle lives in ../checks/c15_oracle_test.go (symlinked as c15_oracle_test.go)
// and is the same code TestVerif_C15_corpus replays saved inputs through.
//
// Run: ./run.sh            (see there; thorough tier only, bounded by -fuzztime)
package verifchecks

import (
	"os"
	"path/filepath"
	"strings"
	"sync"
	"testing"

	"github.com/DataDog/datadog-go/v5/statsd"
	"go.uber.org/zap"

	"github.com/mimiro-io/datahub/internal/conf"
	"github.com/mimiro-io/datahub/internal/server"
)

var fz struct {
	mu    sync.Mutex
	store *server.Store
	dir   string
	n     int
}

func fuzzScratch() string {
	if r := os.Getenv("VERIF_FUZZ_SCRATCH"); r != "" {
		_ = os.MkdirAll(r, 0o755)
		return r
	}
	if st, err := os.Stat("/dev/shm"); err == nil && st.IsDir() {
		return "/dev/shm"
	}
	return os.TempDir()
}

// fuzzStore returns this worker's store. It is replaced every few thousand
// executions: fuzzed contexts register namespaces, and the namespace table is
// rewritten on every new one.
func fuzzStore(tb testing.TB) *server.Store {
	fz.mu.Lock()
	defer fz.mu.Unlock()
	fz.n++
	if fz.store != nil && fz.n%4000 != 0 {
		return fz.store
	}
	if fz.store != nil {
		_ = fz.store.Close()
		_ = os.RemoveAll(fz.dir)
	}
	dir, err := os.MkdirTemp(fuzzScratch(), "verif-fuzz-store")
	if err != nil {
		tb.Fatalf("VERIF-INFRA %v", err)
	}
	env := &conf.Config{Logger: zap.NewNop().Sugar(), StoreLocation: dir, Auth: &conf.AuthConfig{Middleware: "noop"}}
	fz.dir = dir
	fz.store = server.NewStore(env, &statsd.NoOpClient{})
	return fz.store
}

func knownFinding(id string) bool {
	for _, k := range strings.Split(os.Getenv("VERIF_KNOWN"), ",") {
		if k == id {
			return true
		}
	}
	return false
}

func FuzzParseStream(f *testing.F) {
	for _, s := range c15SeedsStream {
		f.Add([]byte(s.Data))
	}
	for _, s := range c15SeedsTxn {
		f.Add([]byte(s.Data))
	}
	known := knownFinding("F16")
	f.Fuzz(func(t *testing.T, data []byte) {
		if !c15InDomain(data) {
			t.Skip("outside the checked input domain")
		}
		if known && c15F16Shape(data, false) {
			t.Skip("input shape of known finding F16")
		}
		if v, _, _ := c15OracleStream(fuzzStore(t), data); v != "" {
			t.Fatalf("%s\ninput=%q", v, data)
		}
	})
}

func FuzzParseTransaction(f *testing.F) {
	for _, s := range c15SeedsTxn {
		f.Add([]byte(s.Data))
	}
	for _, s := range c15SeedsStream {
		f.Add([]byte(s.Data))
	}
	known := knownFinding("F16")
	f.Fuzz(func(t *testing.T, data []byte) {
		if !c15InDomain(data) {
			t.Skip("outside the checked input domain")
		}
		if known && c15F16Shape(data, true) {
			t.Skip("input shape of known finding F16")
		}
		if v, _, _ := c15OracleTxn(fuzzStore(t), data); v != "" {
			t.Fatalf("%s\ninput=%q", v, data)
		}
	})
}

// TestC15WriteSeeds materialises the seed constants as corpus files
// (testdata/fuzz/<target>/seed-<name>) when VERIF_WRITE_SEEDS=1, so that the
// in-process replay (TestVerif_C15_corpus) and the fuzzer read the same corpus.
func TestC15WriteSeeds(t *testing.T) {
	if os.Getenv("VERIF_WRITE_SEEDS") != "1" {
		t.Skip("set VERIF_WRITE_SEEDS=1")
	}
	write := func(target string, seeds []c15Seed) {
		dir := filepath.Join("testdata", "fuzz", target)
		if err := os.MkdirAll(dir, 0o755); err != nil {
			t.Fatal(err)
		}
		for _, s := range seeds {
			if err := c15WriteCorpusFile(filepath.Join(dir, "seed-"+s.Name), []byte(s.Data)); err != nil {
				t.Fatal(err)
			}
		}
	}
	write("FuzzParseStream", c15SeedsStream)
	write("FuzzParseTransaction", c15SeedsTxn)
}
