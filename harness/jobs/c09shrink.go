package jobs

// C09, job part 2: fullsync jobs over a source whose full set shrinks and grows
// between runs (SampleSource, the number of entities is changed between runs),
// with sink failures at any delivery. A DatasetSource never loses an entity (it
// re-delivers deleted versions), so only a source like this one shows what a
// completed job-driven sync deletes:
//
//   - a run that fails deletes nothing (what it delivered before the failure is live);
//   - a run that completes leaves exactly the entities it delivered live; every other
//     entity that was live gets one more deleted version, entities already deleted none
//     - whatever earlier runs of the job failed half-way and whatever they had delivered.

import (
	"errors"
	"fmt"
	"sort"
	"testing"

	"pgregory.net/rapid"

	jobSource "github.com/mimiro-io/datahub/internal/jobs/source"
	"github.com/mimiro-io/datahub/internal/verifhook"
	kit "github.com/mimiro-io/datahub/internal/verifkit"
)

type c09sRun struct {
	N      int    `json:"n"`                // entities the source holds in this run: e-0 .. e-(n-1)
	FailAt int    `json:"failAt,omitempty"` // the k-th delivery to the sink is refused (0 = none)
	Err    string `json:"err,omitempty"`    // observed
}

type c09sCase struct {
	Batch int       `json:"batch"`
	Runs  []c09sRun `json:"runs"`
}

func TestVerif_C09_jobshrink(t *testing.T) {
	defer kit.S().Flush()
	defer kit.CleanupScratch()
	rapid.Check(t, func(t *rapid.T) {
		h := newVJHub(vjOpts{})
		defer h.close()
		h.createDataset("shsink")
		cs := &c09sCase{Batch: rapid.IntRange(1, 4).Draw(t, "batch")}
		jobs, err := h.addJob(vjJobJSON(vjJob{ID: "c09shrink", Source: map[string]any{"Type": "SampleSource", "NumberOfEntities": 1},
			Sink: vjDatasetSink("shsink"), BatchSize: cs.Batch, JobType: JobTypeFull}))
		if err != nil || len(jobs) != 1 {
			t.Fatalf("VERIF-INFRA job setup: %v", err)
		}
		j := jobs[0]
		src, ok := j.pipeline.spec().source.(*jobSource.SampleSource)
		if !ok {
			t.Fatalf("VERIF-INFRA the job's source is a %T", j.pipeline.spec().source)
		}
		fail := func(format string, a ...any) {
			t.Fatalf("%s\nVERIF-CASE-BEGIN\n%s\nVERIF-CASE-END", fmt.Sprintf(format, a...), c17JSON(cs))
		}
		live := map[int]bool{}    // model: index -> live
		versions := map[int]int{} // model: index -> number of versions in the sink's feed
		idx := func(id string) int { return c17Index(id) }
		failedThenShrunk, failedBefore := false, false
		maxSeen := 0
		nruns := rapid.IntRange(2, 7).Draw(t, "runs")
		for r := 0; r < nruns; r++ {
			run := c09sRun{N: rapid.IntRange(0, 9).Draw(t, "n")}
			if r == nruns-1 {
				run.FailAt = 0
			} else if rapid.IntRange(0, 2).Draw(t, "fault") == 0 && run.N > 0 {
				run.FailAt = rapid.IntRange(1, (run.N+cs.Batch-1)/cs.Batch).Draw(t, "failAt")
			}
			cs.Runs = append(cs.Runs, run)
			kit.Journal(cs)
			src.NumberOfEntities = run.N
			verifhook.Reset()
			if run.FailAt > 0 {
				n := 0
				verifhook.SetFault("job.sink", func(int) error {
					n++
					if n == run.FailAt {
						return errors.New("verif: injected sink failure")
					}
					return nil
				})
			}
			prev := h.result("c09shrink")
			res, p := h.runJob(j)
			verifhook.SetFault("job.sink", nil)
			if p != nil {
				fail("job run panicked: %v", p)
			}
			if res == nil || (prev != nil && res.Start.Equal(prev.Start)) {
				fail("VERIF-INFRA job did not run (no new job result)")
			}
			cs.Runs[r].Err = res.LastError
			delivered := run.N
			if run.FailAt > 0 {
				if res.LastError == "" {
					fail("run %d: the injected sink failure at delivery %d did not fail the run", r, run.FailAt)
				}
				delivered = (run.FailAt - 1) * cs.Batch
				failedBefore = true
			} else if res.LastError != "" {
				fail("run %d failed without an injected fault: %s", r, res.LastError)
			}
			for i := 0; i < delivered; i++ {
				if !live[i] {
					versions[i]++ // new, or un-deleted
				}
				live[i] = true
			}
			if run.N > maxSeen {
				maxSeen = run.N
			}
			if run.FailAt == 0 {
				// completed: everything else that was live is deleted, once
				for i := range live {
					if i >= run.N && live[i] {
						live[i] = false
						versions[i]++
						if failedBefore {
							failedThenShrunk = true
						}
					}
				}
				failedBefore = false
			}
			// compare
			gotLive, gotVers := map[int]bool{}, map[int]int{}
			for _, e := range h.latest("shsink") {
				gotLive[idx(e.ID)] = !e.Deleted
			}
			feed, _ := h.changes("shsink", 0)
			for _, e := range feed {
				gotVers[idx(e.ID)]++
			}
			var bad []string
			for i := 0; i < maxSeen; i++ {
				_, known := gotLive[i]
				switch {
				case live[i] && !gotLive[i]:
					bad = append(bad, fmt.Sprintf("e-%d is %s, the statement has it live", i, map[bool]string{true: "deleted", false: "missing"}[known]))
				case !live[i] && gotLive[i]:
					bad = append(bad, fmt.Sprintf("e-%d is live, the statement has it deleted", i))
				case gotVers[i] != versions[i]:
					bad = append(bad, fmt.Sprintf("e-%d has %d versions in the sink's feed, the statement gives %d (deleted exactly once per completed sync that did not contain it)", i, gotVers[i], versions[i]))
				}
			}
			sort.Strings(bad)
			if len(bad) > 0 {
				what := "completed"
				if run.FailAt > 0 {
					what = fmt.Sprintf("failed at delivery %d", run.FailAt)
				}
				fail("after run %d (source holds e-0..e-%d, run %s): %v", r, run.N-1, what, bad)
			}
		}
		kit.S().Case(cs, failedThenShrunk, "jobshrink", fmt.Sprintf("jobshrink-batch-%d", cs.Batch))
		kit.JournalDone()
	})
}
