package jobs

// C11: every job definition the scheduler accepts ends each run as success,
// failure or kill with a stored run result and a released run slot, never
// crashes or hangs the hub; no two runs of one job id overlap and the number
// of running jobs never exceeds the incremental / fullsync pools.
//
// TestVerif_C11        cross product of job building blocks. Groups of ~40
//                      configurations run in CHILD PROCESSES (this test binary
//                      re-executed with -test.run ^TestVerifChild_C11$), because
//                      a stack overflow or a panic on a job goroutine cannot be
//                      survived in-process. A dead child is bisected to a single
//                      configuration.
// TestVerif_C11_storm  concurrent run requests (cron entry, on-change event,
//                      manual RunJob, reRun retries, KillJob) on a few job ids
//                      with small pools; a local HTTP source is the probe that
//                      sees every run whatever started it.
// TestVerifChild_C11   the child side (does nothing unless VERIF_C11_GROUP is set).
// TestVerifProbe_F09   log handler + transform => wrappedTransform.EndStoreContext recursion.

import (
	"context"
	"encoding/json"
	"fmt"
	"io"
	"net/http"
	"net/http/httptest"
	"os"
	"os/exec"
	"path/filepath"
	"runtime"
	"sort"
	"strings"
	"sync"
	"sync/atomic"
	"testing"
	"time"

	"github.com/bamzi/jobrunner"
	"github.com/robfig/cron/v3"
	"pgregory.net/rapid"

	"github.com/mimiro-io/datahub/internal/server"
	kit "github.com/mimiro-io/datahub/internal/verifkit"
)

// ---- building blocks ---------------------------------------------------------

var (
	c11Srcs  = []string{"dataset", "latest", "union", "multi", "sample", "slow", "http"}
	c11Trs   = []string{"none", "js", "jsthrow", "jspar4", "jspar4throw", "jsempty", "jsnocode", "http"}
	c11Sinks = []string{"dataset", "devnull", "console", "http", "nodataset"}
	c11Trigs = []string{"cron", "onchange"}
	c11Types = []string{JobTypeIncremental, JobTypeFull}
	c11Ehs   = []string{"none", "log", "logmax", "rerun", "logrerun"}
)

// c11Cfg names one point of the product.
type c11Cfg struct {
	Src  string `json:"src"`
	Tr   string `json:"tr"`
	Sink string `json:"sink"`
	Trig string `json:"trig"`
	Type string `json:"type"`
	Eh   string `json:"eh"`
}

func (c c11Cfg) String() string {
	return fmt.Sprintf("%s/%s/%s/%s/%s/%s", c.Src, c.Tr, c.Sink, c.Trig, c.Type, c.Eh)
}

// c11Product enumerates the product; the error handlers vary fastest, the
// sources slowest.
func c11Product() []c11Cfg {
	var out []c11Cfg
	for _, s := range c11Srcs {
		for _, tr := range c11Trs {
			for _, k := range c11Sinks {
				for _, tg := range c11Trigs {
					for _, ty := range c11Types {
						for _, eh := range c11Ehs {
							out = append(out, c11Cfg{s, tr, k, tg, ty, eh})
						}
					}
				}
			}
		}
	}
	return out
}

func (c c11Cfg) hasLog() bool   { return c.Eh == "log" || c.Eh == "logmax" || c.Eh == "logrerun" }
func (c c11Cfg) hasRerun() bool { return c.Eh == "rerun" || c.Eh == "logrerun" }

// c11F09Shape: input shape of finding F09 - a transform together with a log
// error handler (instrumentErrorHandling wraps the transform).
func c11F09Shape(c c11Cfg) bool { return c.Tr != "none" && c.hasLog() }

// c11F22Shape: input shape of finding F22 - an onchange trigger carrying a log
// error handler (Scheduler.verify returns before verifyErrorHandlers).
func c11F22Shape(c c11Cfg) bool { return c.Trig == "onchange" && c.hasLog() }

// c11F23Shape: input shape of finding F23 - javascript transform with
// Parallelism > 1 under a log error handler on the incremental pipeline.
func c11F23Shape(c c11Cfg) bool {
	return c.Tr == "jspar4" && c.hasLog() && c.Type == JobTypeIncremental
}

func c11Features(c c11Cfg) int {
	n := 0
	if c.Tr != "none" {
		n++
	}
	if c.Eh != "none" {
		n++
	}
	if c.Src != "dataset" {
		n++
	}
	if c.Sink != "dataset" {
		n++
	}
	return n
}

// ---- child side --------------------------------------------------------------

// c11Result is one line of the child's result file.
type c11Result struct {
	Idx      int      `json:"idx"`
	Cfg      c11Cfg   `json:"cfg"`
	Hung     bool     `json:"hung,omitempty"` // the run never returned: the child stops after this configuration
	Status   string   `json:"status"`         // rejected | ok | violation | inconclusive
	Detail   string   `json:"detail,omitempty"`
	Outcomes []string `json:"outcomes,omitempty"` // per run: success | failure
}

type c11Servers struct {
	src, tr, sink, sinkFail *httptest.Server
}

func c11StartServers() *c11Servers {
	s := &c11Servers{}
	s.src = httptest.NewServer(http.HandlerFunc(func(w http.ResponseWriter, r *http.Request) {
		w.Header().Set("Content-Type", "application/json")
		ctx := `{"id":"@context","namespaces":{"ex":"http://ex.org/a/"}}`
		if r.URL.Query().Get("since") != "" {
			_, _ = io.WriteString(w, `[`+ctx+`,{"id":"@continuation","token":"t1"}]`)
			return
		}
		_, _ = io.WriteString(w, `[`+ctx+`,{"id":"ex:h1","props":{"ex:v":1},"refs":{}},{"id":"ex:h2","props":{"ex:v":2},"refs":{"ex:r":"ex:h1"}},{"id":"ex:h3","props":{},"refs":{}},{"id":"@continuation","token":"t1"}]`)
	}))
	s.tr = httptest.NewServer(http.HandlerFunc(func(w http.ResponseWriter, r *http.Request) {
		b, _ := io.ReadAll(r.Body)
		w.Header().Set("Content-Type", "application/json")
		_, _ = w.Write(b)
	}))
	s.sink = httptest.NewServer(http.HandlerFunc(func(w http.ResponseWriter, r *http.Request) {
		_, _ = io.Copy(io.Discard, r.Body)
		w.WriteHeader(200)
	}))
	s.sinkFail = httptest.NewServer(http.HandlerFunc(func(w http.ResponseWriter, r *http.Request) {
		_, _ = io.Copy(io.Discard, r.Body)
		w.WriteHeader(500)
	}))
	return s
}

func (s *c11Servers) close() { s.src.Close(); s.tr.Close(); s.sink.Close(); s.sinkFail.Close() }

const c11PoolIncr, c11PoolFull = 4, 2

// c11JobJSON renders the configuration for dataset names derived from k.
func c11JobJSON(c c11Cfg, id string, k int, p string, sv *c11Servers) string {
	src, src2, dep, sink := fmt.Sprintf("c11s%d", k), fmt.Sprintf("c11t%d", k), fmt.Sprintf("c11d%d", k), fmt.Sprintf("c11k%d", k)
	var source map[string]any
	switch c.Src {
	case "dataset":
		source = vjDatasetSource(src, false)
	case "latest":
		source = vjDatasetSource(src, true)
	case "union":
		source = map[string]any{"Type": "UnionDatasetSource", "DatasetSources": []any{map[string]any{"Name": src}, map[string]any{"Name": src2}}}
	case "multi":
		source = map[string]any{"Type": "MultiSource", "Name": src, "Dependencies": []any{map[string]any{"dataset": dep,
			"joins": []any{map[string]any{"dataset": src, "predicate": kit.PoolNS[0] + "r0", "inverse": true}}}}}
	case "sample":
		source = map[string]any{"Type": "SampleSource", "NumberOfEntities": 7}
	case "sample400": // probes only
		source = map[string]any{"Type": "SampleSource", "NumberOfEntities": 400}
	case "slow":
		source = map[string]any{"Type": "SlowSource", "Sleep": "3ms", "BatchSize": 3}
	case "http":
		source = map[string]any{"Type": "HttpDatasetSource", "Url": sv.src.URL + "/datasets/x/changes"}
	}
	var tr map[string]any
	switch c.Tr {
	case "js":
		tr = vjJSTransform(`function transform_entities(entities) { return entities; }`, 0)
	case "jsthrow":
		tr = vjJSTransform(`function transform_entities(entities) { throw new Error("boom"); }`, 0)
	case "jspar4":
		tr = vjJSTransform(`function transform_entities(entities) { var out = []; for (var i = 0; i < entities.length; i++) { out.push(entities[i]); } return out; }`, 4)
	case "jspar4throw": // every worker's chunk fails
		tr = vjJSTransform(`function transform_entities(entities) { throw new Error("boom in a worker"); }`, 4)
	case "jsnocode": // a javascript transform declared without code (the scheduler accepts it)
		tr = map[string]any{"Type": "JavascriptTransform"}
	case "jsempty": // the transform drops everything: the sink gets an empty batch
		tr = vjJSTransform(`function transform_entities(entities) { return []; }`, 0)
	case "jspar8work": // probes only: 8 workers that keep the javascript runtime busy
		tr = vjJSTransform(`function transform_entities(entities) { var out = []; for (var i = 0; i < entities.length; i++) { var e = entities[i]; for (var k = 0; k < 200; k++) { SetProperty(e, "x", "p" + (k % 7), {"a": [k, "s" + k]}); } out.push(e); } return out; }`, 8)
	case "http":
		tr = map[string]any{"Type": "HttpTransform", "Url": sv.tr.URL + "/transform"}
	}
	var snk map[string]any
	switch c.Sink {
	case "dataset":
		snk = vjDatasetSink(sink)
	case "devnull":
		snk = map[string]any{"Type": "DevNullSink"}
	case "console":
		snk = map[string]any{"Type": "ConsoleSink", "Prefix": "c11 ", "Detailed": true}
	case "http":
		snk = map[string]any{"Type": "HttpDatasetSink", "Url": sv.sink.URL + "/datasets/y/entities"}
	case "nodataset": // a sink that refuses every batch at once: its dataset does not exist
		// (an HTTP receiver answering 500 does the same, but the sink's http client retries with a
		// backoff of seconds, which no quick watchdog can tell from a hang)
		snk = vjDatasetSink(sink + "-missing")
	}
	var eh []any
	switch c.Eh {
	case "log":
		eh = []any{map[string]any{"errorHandler": "log"}}
	case "logmax":
		eh = []any{map[string]any{"errorHandler": "log", "maxItems": 1}}
	case "rerun":
		eh = []any{map[string]any{"errorHandler": "reRun", "maxRetries": 1, "retryDelay": 1}}
	case "logrerun":
		eh = []any{map[string]any{"errorHandler": "log", "maxItems": 2}, map[string]any{"errorHandler": "reRun", "maxRetries": 1, "retryDelay": 1}}
	}
	trig := map[string]any{"triggerType": c.Trig, "jobType": c.Type}
	if c.Trig == "cron" {
		trig["schedule"] = "@every 24h"
	} else {
		trig["monitoredDataset"] = src
	}
	if eh != nil {
		trig["onError"] = eh
	}
	return vjJobJSON(vjJob{ID: id, Source: source, Sink: snk, Transform: tr, Triggers: []map[string]any{trig}})
}

const c11Watchdog = 8 * time.Second

// c11HangAfter: a synchronously started run that has not returned by then hangs.
const c11HangAfter = 15 * time.Second

// c11RunConfig runs one configuration on the child's hub.
func c11RunConfig(h *vjHub, sv *c11Servers, idx int, c c11Cfg) c11Result {
	res := c11Result{Idx: idx, Cfg: c}
	p := h.P[0]
	k := idx
	id := fmt.Sprintf("c11job%d", k)
	src, src2, dep, sink := fmt.Sprintf("c11s%d", k), fmt.Sprintf("c11t%d", k), fmt.Sprintf("c11d%d", k), fmt.Sprintf("c11k%d", k)
	h.createDataset(src)
	if c.Src == "union" {
		h.createDataset(src2)
		_ = h.write(src2, []*kit.Ent{{ID: p + ":u1", Props: map[string]any{p + ":v": 1}, Refs: map[string]any{}}})
	}
	if c.Src == "multi" {
		h.createDataset(dep)
		_ = h.write(dep, []*kit.Ent{{ID: p + ":d1", Props: map[string]any{}, Refs: map[string]any{p + ":r0": p + ":m1"}}})
	}
	if c.Sink == "dataset" {
		h.createDataset(sink)
	}
	var first []*kit.Ent
	for i := 0; i < 5; i++ {
		first = append(first, &kit.Ent{ID: fmt.Sprintf("%s:m%d", p, i), Props: map[string]any{p + ":v": i}, Refs: map[string]any{}})
	}
	_ = h.write(src, first)

	cfg, err := h.Sched.Parse([]byte(c11JobJSON(c, id, k, p, sv)))
	if err != nil {
		res.Status, res.Detail = "violation", "harness produced unparsable JSON: "+err.Error()
		return res
	}
	if err := h.Sched.AddJob(cfg); err != nil {
		res.Status, res.Detail = "rejected", err.Error()
		return res
	}
	defer func() { _ = h.Sched.DeleteJob(id) }()
	// the configured retry delay is in seconds: shorten to milliseconds so that
	// retries happen (and finish) while the configuration is being observed
	for _, t := range cfg.Triggers {
		for _, eh := range t.ErrorHandlers {
			if eh.Type == ErrorHandlerReRun {
				eh.RetryDelay = int64(2 * time.Millisecond)
			}
		}
	}
	quiet := func() (string, bool) { // wait until no run of this hub is active
		deadline := time.Now().Add(c11Watchdog)
		for {
			if !c11LockRaf(h.Runner.raffle) {
				return c11LockMsg, false
			}
			n := len(h.Runner.raffle.runningJobs)
			h.Runner.raffle.runningMu.Unlock()
			if n == 0 {
				return "", true
			}
			if time.Now().After(deadline) {
				return fmt.Sprintf("%d job(s) still running after %v", n, c11Watchdog), false
			}
			time.Sleep(time.Millisecond)
		}
	}
	check := func(tag string, prev *jobResult) string {
		r := h.result(id)
		if r == nil {
			return tag + ": no run result stored"
		}
		if r.ID != id {
			return fmt.Sprintf("%s: stored result has id %q", tag, r.ID)
		}
		if r.End.Before(r.Start) {
			return fmt.Sprintf("%s: stored result ends (%v) before it starts (%v)", tag, r.End, r.Start)
		}
		if prev != nil && r.Start.Equal(prev.Start) && r.End.Equal(prev.End) {
			return fmt.Sprintf("%s: no result stored for this run (the stored result is still the one of the previous run, started %v)", tag, r.Start)
		}
		if !c11LockRaf(h.Runner.raffle) {
			return tag + ": " + c11LockMsg
		}
		ti, tf, n := h.Runner.raffle.ticketsIncr, h.Runner.raffle.ticketsFull, len(h.Runner.raffle.runningJobs)
		var who []string
		for rid := range h.Runner.raffle.runningJobs {
			who = append(who, rid)
		}
		h.Runner.raffle.runningMu.Unlock()
		if n != 0 || ti != c11PoolIncr || tf != c11PoolFull {
			return fmt.Sprintf("%s: run slots not released: running=%d %v ticketsIncr=%d/%d ticketsFull=%d/%d", tag, n, who, ti, c11PoolIncr, tf, c11PoolFull)
		}
		if r.LastError == "" {
			res.Outcomes = append(res.Outcomes, "success")
		} else {
			res.Outcomes = append(res.Outcomes, "failure")
		}
		return ""
	}
	// waitResult waits for an asynchronously started run to have stored its result.
	waitResult := func(prev *jobResult) bool {
		deadline := time.Now().Add(c11Watchdog)
		for time.Now().Before(deadline) {
			if r := h.result(id); r != nil && (prev == nil || !r.Start.Equal(prev.Start)) {
				return true
			}
			time.Sleep(time.Millisecond)
		}
		return false
	}
	settle := func() (string, bool) {
		if c.hasRerun() {
			time.Sleep(25 * time.Millisecond) // a retry (2 ms delay) starts within this
		}
		return quiet()
	}
	for run := 1; run <= 3; run++ {
		tag := fmt.Sprintf("run %d", run)
		if run == 2 {
			_ = h.write(src, []*kit.Ent{{ID: p + ":m9", Props: map[string]any{p + ":v": 9}, Refs: map[string]any{}}})
		}
		prev := h.result(id)
		switch {
		case run == 3:
			// manual run (Scheduler.RunJob): asynchronous through the job runner
			tag += " (manual RunJob)"
			if _, err := h.Sched.RunJob(id, c.Type); err != nil {
				res.Status, res.Detail = "violation", tag+": RunJob refused: "+err.Error()
				return res
			}
			if !waitResult(prev) {
				res.Status, res.Detail = "inconclusive", tag+": no result within the watchdog"
				return res
			}
		case c.Trig == "cron":
			// the cron entry the scheduler registered, run on this goroutine
			tag += " (cron entry)"
			ids := h.Runner.scheduledJobs[id]
			if len(ids) != 1 {
				res.Status, res.Detail = "violation", fmt.Sprintf("%s: %d cron entries registered for the job", tag, len(ids))
				return res
			}
			entry := jobrunner.MainCron.Entry(ids[0])
			var pan any
			ended := make(chan struct{})
			go func() {
				defer close(ended)
				defer func() { pan = recover() }()
				entry.Job.Run()
			}()
			select {
			case <-ended:
			case <-time.After(c11HangAfter):
				// the harness owns this schedule: the run is the only activity of the hub, its source,
				// transform and sink are local and answer at once, a run takes milliseconds
				res.Status, res.Detail = "violation", fmt.Sprintf("%s: the run did not end within %v (it was started alone; its source, transform and sink are local and answer at once): the job hangs, no outcome is recorded and its run slot stays taken", tag, c11HangAfter)
				res.Hung = true
				return res
			}
			if pan != nil {
				s := fmt.Sprint(pan)
				if len(s) > 600 {
					s = s[:600]
				}
				res.Status, res.Detail = "violation", tag+": panic in the job run (the job runner re-panics, the hub dies): "+s
				return res
			}
		default:
			// the on-change subscription: emit the dataset event, the run happens on its own goroutine
			tag += " (on-change event)"
			h.Bus.Emit(context.Background(), "dataset."+src, nil)
			if !waitResult(prev) {
				res.Status, res.Detail = "inconclusive", tag+": no result within the watchdog"
				return res
			}
		}
		if run != 3 && c.Trig == "cron" && !c.hasRerun() {
			// the run happened on this goroutine and nothing can follow it: the
			// harness owns the schedule, the slot must be free right now
		} else if msg, ok := settle(); !ok {
			res.Status, res.Detail = "inconclusive", tag+": "+msg
			return res
		}
		if msg := check(tag, prev); msg != "" {
			res.Status, res.Detail = "violation", msg
			return res
		}
	}
	res.Status = "ok"
	return res
}

type c11Group struct {
	Idx  []int    `json:"idx"`
	Cfgs []c11Cfg `json:"cfgs"`
}

// TestVerifChild_C11 is the child side: runs the group named by
// VERIF_C11_GROUP, appends one JSON line per configuration to VERIF_C11_OUT
// and writes the index in flight to VERIF_C11_OUT+".cur".
func TestVerifChild_C11(t *testing.T) {
	gf := os.Getenv("VERIF_C11_GROUP")
	if gf == "" {
		return
	}
	defer kit.CleanupScratch()
	b, err := os.ReadFile(gf)
	if err != nil {
		t.Fatalf("VERIF-INFRA child cannot read group: %v", err)
	}
	var g c11Group
	if err := json.Unmarshal(b, &g); err != nil {
		t.Fatalf("VERIF-INFRA child cannot parse group: %v", err)
	}
	outPath := os.Getenv("VERIF_C11_OUT")
	out, err := os.OpenFile(outPath, os.O_CREATE|os.O_WRONLY|os.O_APPEND, 0o644)
	if err != nil {
		t.Fatalf("VERIF-INFRA child cannot open result file: %v", err)
	}
	defer out.Close()
	h := newVJHub(vjOpts{Bus: true, PoolIncr: c11PoolIncr, PoolFull: c11PoolFull})
	sv := c11StartServers()
	defer func() {
		time.Sleep(100 * time.Millisecond) // let stray timers fire before the store closes
		sv.close()
		h.close()
	}()
	for i, c := range g.Cfgs {
		_ = os.WriteFile(outPath+".cur", []byte(fmt.Sprint(g.Idx[i])), 0o644)
		r := c11RunConfig(h, sv, g.Idx[i], c)
		line, _ := json.Marshal(r)
		_, _ = out.Write(append(line, '\n'))
		_ = out.Sync()
		if r.Hung {
			// a goroutine of this hub is stuck for good: report the rest of the group as not run and leave
			for k := i + 1; k < len(g.Cfgs); k++ {
				line, _ := json.Marshal(c11Result{Idx: g.Idx[k], Cfg: g.Cfgs[k], Status: "inconclusive", Detail: "not run: an earlier configuration of the group hangs"})
				_, _ = out.Write(append(line, '\n'))
			}
			_ = out.Sync()
			_ = os.Remove(outPath + ".cur")
			os.Exit(0)
		}
	}
	_ = os.Remove(outPath + ".cur")
}

// ---- parent side -------------------------------------------------------------

type c11ChildRun struct {
	results map[int]c11Result
	died    bool
	cur     int // configuration in flight when the child died (-1 unknown)
	tail    string
}

var c11ChildSeq int

func c11Spawn(dir string, g c11Group, timeout time.Duration) c11ChildRun {
	c11ChildSeq++
	base := filepath.Join(dir, fmt.Sprintf("g%d", c11ChildSeq))
	gb, _ := json.Marshal(g)
	_ = os.WriteFile(base+".json", gb, 0o644)
	outPath := base + ".out"
	logf, _ := os.Create(base + ".log")
	ctx, cancel := context.WithTimeout(context.Background(), timeout)
	defer cancel()
	cmd := exec.CommandContext(ctx, os.Args[0], "-test.run", "^TestVerifChild_C11$", "-test.count", "1", "-test.timeout", "0")
	var env []string
	for _, e := range os.Environ() {
		if strings.HasPrefix(e, "VERIF_STATS=") || strings.HasPrefix(e, "VERIF_JOURNAL=") || strings.HasPrefix(e, "VERIF_REPLAY_CASE=") {
			continue
		}
		env = append(env, e)
	}
	cmd.Env = append(env, "VERIF_C11_GROUP="+base+".json", "VERIF_C11_OUT="+outPath)
	cmd.Stdout, cmd.Stderr = logf, logf
	cmd.Dir = dir
	err := cmd.Run()
	_ = logf.Close()
	run := c11ChildRun{results: map[int]c11Result{}, cur: -1}
	if b, e := os.ReadFile(outPath); e == nil {
		for _, line := range strings.Split(string(b), "\n") {
			if strings.TrimSpace(line) == "" {
				continue
			}
			var r c11Result
			if json.Unmarshal([]byte(line), &r) == nil {
				run.results[r.Idx] = r
			}
		}
	}
	if err != nil || len(run.results) < len(g.Idx) {
		run.died = true
		if b, e := os.ReadFile(outPath + ".cur"); e == nil {
			_, _ = fmt.Sscan(string(b), &run.cur)
		}
		lb, _ := os.ReadFile(base + ".log")
		s := string(lb)
		// keep the head of the crash report (reason + first frames)
		if i := strings.Index(s, "fatal error:"); i >= 0 {
			s = s[i:]
		} else if i := strings.Index(s, "panic:"); i >= 0 {
			s = s[i:]
		}
		if len(s) > 1500 {
			s = s[:1500] + "\n..."
		}
		if ctx.Err() != nil {
			s = "child killed after " + timeout.String() + "\n" + s
		}
		run.tail = s
	}
	return run
}

// c11Bisect narrows a dying group down to the smallest sub-list that still
// kills a fresh child.
func c11Bisect(dir string, g c11Group, timeout time.Duration) (c11Group, c11ChildRun) {
	cur := g
	last := c11ChildRun{died: true}
	for len(cur.Idx) > 1 {
		mid := len(cur.Idx) / 2
		a := c11Group{Idx: cur.Idx[:mid], Cfgs: cur.Cfgs[:mid]}
		b := c11Group{Idx: cur.Idx[mid:], Cfgs: cur.Cfgs[mid:]}
		if r := c11Spawn(dir, a, timeout); r.died {
			cur, last = a, r
			continue
		}
		if r := c11Spawn(dir, b, timeout); r.died {
			cur, last = b, r
			continue
		}
		break // only the combination dies
	}
	return cur, last
}

func c11Select(t *testing.T) (all []c11Cfg, idx []int) {
	all = c11Product()
	shard, shards := kit.EnvInt("VERIF_SHARD", 0), kit.EnvInt("VERIF_SHARDS", 1)
	stride := kit.EnvInt("VERIF_C11_STRIDE", 7) // 1 = full product
	off := kit.EnvInt("VERIF_SEED", 1) % stride
	var chosen []int
	for i := range all {
		if stride <= 1 || i%stride == off {
			chosen = append(chosen, i)
		}
	}
	for k, i := range chosen {
		if k%shards == shard {
			idx = append(idx, i)
		}
	}
	// pair coverage of the whole selection (all shards), for the evidence
	if shard == 0 {
		type pair struct {
			a, b int
			x, y string
		}
		seen := map[pair]bool{}
		total := 0
		dims := func(c c11Cfg) []string { return []string{c.Src, c.Tr, c.Sink, c.Trig, c.Type, c.Eh} }
		sizes := []int{len(c11Srcs), len(c11Trs), len(c11Sinks), len(c11Trigs), len(c11Types), len(c11Ehs)}
		for a := 0; a < len(sizes); a++ {
			for b := a + 1; b < len(sizes); b++ {
				total += sizes[a] * sizes[b]
			}
		}
		for _, i := range chosen {
			d := dims(all[i])
			for a := 0; a < len(d); a++ {
				for b := a + 1; b < len(d); b++ {
					seen[pair{a, b, d[a], d[b]}] = true
				}
			}
		}
		kit.S().SetExtra("c11_selected_configs", len(chosen))
		kit.S().SetExtra("c11_block_pairs_covered", len(seen))
		kit.S().SetExtra("c11_block_pairs_total", total)
	}
	return all, idx
}

func TestVerif_C11(t *testing.T) {
	defer kit.S().Flush()
	defer kit.CleanupScratch()
	dir := kit.NewDir("c11")
	if rd := os.Getenv("VERIF_RUNDIR"); rd != "" { // keep the children's logs with the shard's output
		dir = filepath.Join(rd, "c11-children")
		_ = os.MkdirAll(dir, 0o755)
	}
	timeout := time.Duration(kit.EnvInt("VERIF_C11_CHILD_TIMEOUT", 180)) * time.Second
	all, idx := c11Select(t)
	var rg c11Group
	if c17ReplayFile(t, &rg) {
		if len(rg.Cfgs) == 0 {
			return
		}
		all, idx = rg.Cfgs, nil
		for i := range rg.Cfgs {
			idx = append(idx, i)
		}
	}
	var todo []int
	for _, i := range idx {
		if c11F09Shape(all[i]) && kit.Known("F09") {
			kit.S().Exclude("F09: job with a transform and a log error handler")
			continue
		}
		if c11F22Shape(all[i]) && kit.Known("F22") {
			kit.S().Exclude("F22: onchange trigger with a log error handler")
			continue
		}
		if c11F23Shape(all[i]) && kit.Known("F23") {
			kit.S().Exclude("F23: javascript transform with Parallelism > 1, log error handler, incremental job")
			continue
		}
		todo = append(todo, i)
	}
	groupSize := kit.EnvInt("VERIF_C11_GROUPSIZE", 40)
	record := func(r c11Result) {
		c := r.Cfg
		cls := []string{"src:" + c.Src, "tr:" + c.Tr, "sink:" + c.Sink, "trig:" + c.Trig, "type:" + c.Type, "eh:" + c.Eh, "status:" + r.Status}
		for _, o := range r.Outcomes {
			cls = append(cls, "run-"+o)
		}
		if r.Status == "inconclusive" {
			kit.S().Inconcl()
			return
		}
		kit.S().Case(c, r.Status == "ok" && c11Features(c) >= 2, cls...)
	}
	for from := 0; from < len(todo); from += groupSize {
		to := from + groupSize
		if to > len(todo) {
			to = len(todo)
		}
		g := c11Group{}
		for _, i := range todo[from:to] {
			g.Idx = append(g.Idx, i)
			g.Cfgs = append(g.Cfgs, all[i])
		}
		kit.Journal(g)
		run := c11Spawn(dir, g, timeout)
		if run.died {
			// confirm with the configuration that was in flight, else bisect
			culprit, last := g, run
			found := false
			if run.cur >= 0 {
				single := c11Group{Idx: []int{run.cur}, Cfgs: []c11Cfg{all[run.cur]}}
				if r := c11Spawn(dir, single, timeout); r.died {
					culprit, last, found = single, r, true
				}
			}
			if !found {
				culprit, last = c11Bisect(dir, g, timeout)
			}
			kit.Journal(culprit)
			names := []string{}
			for _, c := range culprit.Cfgs {
				names = append(names, c.String())
			}
			t.Fatalf("C11 violated: the hub process died while running configuration(s) %v\n%s\nVERIF-CASE-BEGIN\n%s\nVERIF-CASE-END",
				names, indent(last.tail), c17JSON(culprit))
		}
		for _, i := range g.Idx {
			r := run.results[i]
			if r.Status == "violation" {
				single := c11Group{Idx: []int{i}, Cfgs: []c11Cfg{all[i]}}
				kit.Journal(single)
				t.Fatalf("C11 violated: configuration %s: %s\nVERIF-CASE-BEGIN\n%s\nVERIF-CASE-END", r.Cfg, r.Detail, c17JSON(single))
			}
			record(r)
		}
		kit.JournalDone()
	}
}

func indent(s string) string { return "    | " + strings.ReplaceAll(s, "\n", "\n    | ") }

// TestVerifProbe_F09: log handler + JS transform, in a child process.
func TestVerifProbe_F09(t *testing.T) {
	defer kit.CleanupScratch()
	dir := kit.NewDir("c11p")
	g := c11Group{Idx: []int{0, 1}, Cfgs: []c11Cfg{
		{"dataset", "js", "dataset", "cron", JobTypeIncremental, "log"},
		{"sample", "http", "devnull", "cron", JobTypeFull, "logmax"},
	}}
	run := c11Spawn(dir, g, 120*time.Second)
	if run.died {
		t.Fatalf("F09 present: hub process died (configuration in flight: %d)\n%s", run.cur, indent(run.tail))
	}
	for _, r := range run.results {
		if r.Status != "ok" {
			t.Fatalf("F09 probe: configuration %s: %s %s", r.Cfg, r.Status, r.Detail)
		}
	}
}

// TestVerifProbe_F22: onchange trigger with a log error handler (second run
// dereferences the never initialised failing-entity handler).
func TestVerifProbe_F22(t *testing.T) {
	defer kit.CleanupScratch()
	dir := kit.NewDir("c11p")
	g := c11Group{Idx: []int{0, 1}, Cfgs: []c11Cfg{
		{"dataset", "none", "devnull", "onchange", JobTypeIncremental, "log"},
		{"sample", "none", "dataset", "onchange", JobTypeFull, "logrerun"},
	}}
	run := c11Spawn(dir, g, 120*time.Second)
	if run.died {
		t.Fatalf("F22 present: hub process died (configuration in flight: %d)\n%s", run.cur, indent(run.tail))
	}
	for _, r := range run.results {
		if r.Status != "ok" {
			t.Fatalf("F22 probe: configuration %s: %s %s", r.Cfg, r.Status, r.Detail)
		}
	}
}

// TestVerifProbe_F23: javascript transform with Parallelism 8 under a log
// error handler: the workers share one javascript runtime.
func TestVerifProbe_F23(t *testing.T) {
	defer kit.CleanupScratch()
	dir := kit.NewDir("c11p")
	g := c11Group{}
	for i := 0; i < 6; i++ {
		g.Idx = append(g.Idx, i)
		g.Cfgs = append(g.Cfgs, c11Cfg{"sample400", "jspar8work", "devnull", "cron", JobTypeIncremental, "log"})
	}
	run := c11Spawn(dir, g, 120*time.Second)
	if run.died {
		t.Fatalf("F23 present: hub process died (configuration in flight: %d)\n%s", run.cur, indent(run.tail))
	}
	for _, r := range run.results {
		if r.Status != "ok" {
			t.Fatalf("F23 probe: configuration %s: %s %s", r.Cfg, r.Status, r.Detail)
		}
	}
}

// ---- concurrency storm -------------------------------------------------------

type c11Req struct {
	Kind string `json:"kind"` // cron | event | manual-incr | manual-full | kill
	Job  int    `json:"job"`  // job index
	AtUs int    `json:"atUs"` // offset from the common start in microseconds
}

type c11Storm struct {
	Storm    bool     `json:"storm"`
	Jobs     int      `json:"jobs"`
	FullCron []bool   `json:"fullCron"` // job k's cron trigger is fullsync (else incremental)
	FailBits []int    `json:"failBits"` // job k: bit (n mod 16) set = the n-th transform call of a runtime throws
	HoldMs   int      `json:"holdMs"`   // time each run spends inside the transform
	SrcMs    int      `json:"srcMs"`    // SlowSource sleep before the batch (window in which a kill is noticed)
	Reqs     []c11Req `json:"reqs"`
}

const c11StormPrefix = "c11storm|"

// c11Probe evaluates the enter/exit lines the job's transform logs. onLog runs
// synchronously on the goroutine of the run, between borrowTicket and
// returnTicket, so the markers are exact for every way a run can be started
// (cron entry, event, manual RunJob, retry): the transform is part of the
// stored configuration.
type c11Probe struct {
	mu       sync.Mutex
	inflight map[string]int
	enters   map[string]int
	problems []string
	total    int
	maxRun   int
	raf      *raffle
}

func (p *c11Probe) onLog(msg string) {
	parts := strings.Split(msg, "|")
	if len(parts) != 3 {
		return
	}
	kind, id := parts[1], parts[2]
	if kind == "exit" {
		p.mu.Lock()
		p.inflight[id]--
		p.mu.Unlock()
		return
	}
	// sample the run table the way its owner does (under its mutex)
	if !c11LockRaf(p.raf) {
		p.mu.Lock()
		p.problems = append(p.problems, c11LockMsg)
		p.mu.Unlock()
		return
	}
	nIncr, nFull := 0, 0
	for _, st := range p.raf.runningJobs {
		if st.isFull {
			nFull++
		} else {
			nIncr++
		}
	}
	tI, tF := p.raf.ticketsIncr, p.raf.ticketsFull
	_, listed := p.raf.runningJobs[id]
	p.raf.runningMu.Unlock()
	p.mu.Lock()
	defer p.mu.Unlock()
	p.total++
	p.enters[id]++
	p.inflight[id]++
	if p.inflight[id] > 1 {
		p.problems = append(p.problems, fmt.Sprintf("two runs of job %s are inside their transform at the same time", id))
	}
	if nIncr > c11StormIncr || nFull > c11StormFull {
		p.problems = append(p.problems, fmt.Sprintf("%d incremental and %d fullsync jobs running, pools are %d and %d", nIncr, nFull, c11StormIncr, c11StormFull))
	}
	if tI+nIncr != c11StormIncr || tF+nFull != c11StormFull {
		p.problems = append(p.problems, fmt.Sprintf("slot accounting broken: ticketsIncr=%d with %d incremental running (pool %d), ticketsFull=%d with %d fullsync running (pool %d)", tI, nIncr, c11StormIncr, tF, nFull, c11StormFull))
	}
	if !listed {
		p.problems = append(p.problems, fmt.Sprintf("job %s is transforming but is not in the running table", id))
	}
	if nIncr+nFull > p.maxRun {
		p.maxRun = nIncr + nFull
	}
}

const c11StormIncr, c11StormFull = 2, 1

func c11StormJS(id string, holdMs, failBits int) string {
	return fmt.Sprintf(`var n = 0;
function transform_entities(entities) {
  n++;
  Log("%senter|%s", "info");
  var t = Date.now(); while (Date.now() - t < %d) {}
  Log("%sexit|%s", "info");
  if ((%d >> (n %% 16)) & 1) { throw new Error("scripted failure"); }
  return entities;
}`, c11StormPrefix, id, holdMs, c11StormPrefix, id, failBits)
}

// c11StormEnv: one hub for all storms of the process (a hub is only closed at
// the very end, after a long pause, so that no late timer of an earlier storm
// can meet a closed store); the log hook dispatches to the current probe.
type c11StormEnv struct {
	wedged string // set once the hub's run table can no longer be locked
	h      *vjHub
	mu     sync.Mutex
	probe  *c11Probe
	seq    int
}

func newC11StormEnv() *c11StormEnv {
	_ = os.Setenv("JOB_FULLSYNC_RETRY_INTERVAL", "3ms")
	env := &c11StormEnv{}
	env.h = newVJHub(vjOpts{Bus: true, PoolIncr: c11StormIncr, PoolFull: c11StormFull, CaptureLog: c11StormPrefix, OnLog: func(m string) {
		env.mu.Lock()
		p := env.probe
		env.mu.Unlock()
		if p != nil {
			p.onLog(m)
		}
	}})
	return env
}

func (env *c11StormEnv) close() {
	time.Sleep(400 * time.Millisecond)
	env.h.close()
}

func (env *c11StormEnv) run(c c11Storm) (problem string, inconclusive bool, extra map[string]int) {
	if env.wedged != "" {
		// the hub of this process is wedged for good by what an earlier case found: every further case
		// (the shrinker's attempts included) ends the same way, without waiting for it again
		return env.wedged, false, nil
	}
	defer func() {
		if strings.Contains(problem, "mutex could not be taken") {
			env.wedged = problem + " (found by an earlier case of this process; the hub stays wedged)"
		}
	}()
	h := env.h
	env.seq++
	h.takeLogs()
	probe := &c11Probe{inflight: map[string]int{}, enters: map[string]int{}, raf: h.Runner.raffle}
	env.mu.Lock()
	env.probe = probe
	env.mu.Unlock()
	ids := make([]string, c.Jobs)
	cfgJSON := make([]string, c.Jobs)
	var schedMu sync.RWMutex // the harness' own reads of Runner.scheduledJobs vs. its redeploy requests
	for k := 0; k < c.Jobs; k++ {
		ids[k] = fmt.Sprintf("storm%d-%d", env.seq, k)
		topic := fmt.Sprintf("stormtopic%d-%d", env.seq, k)
		h.createDataset(topic)
		cronType := JobTypeIncremental
		if c.FullCron[k] {
			cronType = JobTypeFull
		}
		eh := []any{map[string]any{"errorHandler": "reRun", "maxRetries": 2, "retryDelay": 1}}
		cfgJSON[k] = vjJobJSON(vjJob{ID: ids[k],
			Source:    map[string]any{"Type": "SlowSource", "Sleep": fmt.Sprintf("%dms", c.SrcMs), "BatchSize": 2},
			Transform: vjJSTransform(c11StormJS(ids[k], c.HoldMs, c.FailBits[k]), 0),
			Sink:      map[string]any{"Type": "DevNullSink"},
			Triggers: []map[string]any{
				{"triggerType": "cron", "jobType": cronType, "schedule": "@every 24h", "onError": eh},
				{"triggerType": "onchange", "jobType": JobTypeIncremental, "monitoredDataset": topic},
			}})
		cfg, err := h.Sched.Parse([]byte(vjJobJSON(vjJob{ID: ids[k],
			Source:    map[string]any{"Type": "SlowSource", "Sleep": fmt.Sprintf("%dms", c.SrcMs), "BatchSize": 2},
			Transform: vjJSTransform(c11StormJS(ids[k], c.HoldMs, c.FailBits[k]), 0),
			Sink:      map[string]any{"Type": "DevNullSink"},
			Triggers: []map[string]any{
				{"triggerType": "cron", "jobType": cronType, "schedule": "@every 24h", "onError": eh},
				{"triggerType": "onchange", "jobType": JobTypeIncremental, "monitoredDataset": topic},
			}})))
		if err == nil {
			err = h.Sched.AddJob(cfg)
		}
		if err != nil {
			return "VERIF-INFRA scheduler rejected the storm job: " + err.Error(), false, nil
		}
		for _, t := range cfg.Triggers {
			for _, e := range t.ErrorHandlers {
				if e.Type == ErrorHandlerReRun {
					e.RetryDelay = int64(time.Millisecond)
				}
			}
		}
	}
	var wg sync.WaitGroup
	start := time.Now().Add(2 * time.Millisecond)
	// requests scheduled for the same microsecond form a burst: they are released together by a spin
	// barrier, so that they reach the scheduler within nanoseconds of each other (a sleep alone
	// spreads them over tens of microseconds)
	type barrier struct{ n, arrived int32 }
	bars := map[int]*barrier{}
	for _, r := range c.Reqs {
		if bars[r.AtUs] == nil {
			bars[r.AtUs] = &barrier{}
		}
		bars[r.AtUs].n++
	}
	for _, r := range c.Reqs {
		r := r
		wg.Add(1)
		go func() {
			defer wg.Done()
			time.Sleep(time.Until(start.Add(time.Duration(r.AtUs) * time.Microsecond)))
			if b := bars[r.AtUs]; b.n > 1 {
				atomic.AddInt32(&b.arrived, 1)
				for spin := 0; atomic.LoadInt32(&b.arrived) < b.n; spin++ {
					if spin%2048 == 2047 {
						runtime.Gosched()
					}
				}
			}
			id := ids[r.Job]
			switch r.Kind {
			case "cron":
				schedMu.RLock()
				eids := append([]cron.EntryID{}, h.Runner.scheduledJobs[id]...)
				schedMu.RUnlock()
				for _, eid := range eids {
					if e := jobrunner.MainCron.Entry(eid); e.Job != nil {
						e.Job.Run()
					}
				}
			case "redeploy":
				// what a deployment of job definitions does: delete the job, add it again under the same
				// id - also while a run of it is in progress
				schedMu.Lock()
				_ = h.Sched.DeleteJob(id)
				if cfg, err := h.Sched.Parse([]byte(cfgJSON[r.Job])); err == nil {
					if h.Sched.AddJob(cfg) == nil {
						for _, t := range cfg.Triggers {
							for _, e := range t.ErrorHandlers {
								if e.Type == ErrorHandlerReRun {
									e.RetryDelay = int64(time.Millisecond)
								}
							}
						}
					}
				}
				schedMu.Unlock()
			case "event":
				h.Bus.Emit(context.Background(), fmt.Sprintf("dataset.stormtopic%d-%d", env.seq, r.Job), nil)
			case "manual-incr":
				_, _ = h.Sched.RunJob(id, JobTypeIncremental)
			case "manual-full":
				_, _ = h.Sched.RunJob(id, JobTypeFull)
			case "kill":
				h.Sched.KillJob(id)
			}
		}()
	}
	reqDone := make(chan struct{})
	go func() { wg.Wait(); close(reqDone) }()
	select {
	case <-reqDone:
	case <-time.After(60 * time.Second):
		// run requests, kills and status calls answer in microseconds (runs are started, not awaited)
		if !c11LockRaf(h.Runner.raffle) {
			return "requests of the storm got no answer within 60s; " + c11LockMsg, false, nil
		}
		h.Runner.raffle.runningMu.Unlock()
		return "", true, nil
	}
	// quiescence: nothing running, no fullsync waiting for a ticket, and it stays so
	deadline := time.Now().Add(10 * time.Second)
	calm := 0
	for calm < 15 {
		if time.Now().After(deadline) {
			// Not quiet after 10 s although a run takes milliseconds. Either the machine is starved
			// (inconclusive) or a run slot is held by nobody: a job id listed as running with the same
			// start time for another 20 s while not a single transform call of any storm job happens in
			// that time and none is in flight is a slot that was never released ("each run ends ... with
			// a released run slot"): every later trigger of that id is refused for good.
			snap := func() (map[string]time.Time, int) {
				m := map[string]time.Time{}
				if !c11LockRaf(h.Runner.raffle) {
					return nil, -2
				}
				for id, st := range h.Runner.raffle.runningJobs {
					m[id] = st.started
				}
				h.Runner.raffle.runningMu.Unlock()
				probe.mu.Lock()
				n := probe.total
				for _, v := range probe.inflight {
					if v > 0 {
						n = -1
					}
				}
				probe.mu.Unlock()
				return m, n
			}
			before, callsBefore := snap()
			if callsBefore == -2 {
				return c11LockMsg, false, nil
			}
			time.Sleep(20 * time.Second)
			after, callsAfter := snap()
			if callsAfter == -2 {
				return c11LockMsg, false, nil
			}
			if callsBefore >= 0 && callsBefore == callsAfter {
				for id, st := range before {
					if st2, still := after[id]; still && st2.Equal(st) {
						for _, my := range ids {
							if my == id {
								return fmt.Sprintf("job %s is listed as running since %v (for more than 30 s, a run takes milliseconds) although no run of it is in progress: its run slot was never released", id, st.Format("15:04:05.000")), false, nil
							}
						}
					}
				}
			}
			return "", true, nil
		}
		if !c11LockRaf(h.Runner.raffle) {
			return c11LockMsg, false, nil
		}
		n := len(h.Runner.raffle.runningJobs)
		h.Runner.raffle.runningMu.Unlock()
		queued := 0
		retryJobIds.Range(func(_, _ any) bool { queued++; return true })
		if n == 0 && queued == 0 {
			calm++
		} else {
			calm = 0
		}
		time.Sleep(time.Millisecond)
	}
	// slot accounting (consistent under the table's own mutex, whatever a late
	// retry of an earlier storm may be doing): free tickets + running = pool
	if !c11LockRaf(h.Runner.raffle) {
		return c11LockMsg, false, nil
	}
	tI, tF, nI, nF := h.Runner.raffle.ticketsIncr, h.Runner.raffle.ticketsFull, 0, 0
	mine := 0
	for id, st := range h.Runner.raffle.runningJobs {
		if st.isFull {
			nF++
		} else {
			nI++
		}
		for _, my := range ids {
			if my == id {
				mine++
			}
		}
	}
	h.Runner.raffle.runningMu.Unlock()
	for _, id := range ids {
		_ = h.Sched.DeleteJob(id)
	}
	probe.mu.Lock()
	defer probe.mu.Unlock()
	if len(probe.problems) > 0 {
		sort.Strings(probe.problems)
		return probe.problems[0], false, nil
	}
	if tI+nI != c11StormIncr || tF+nF != c11StormFull {
		return fmt.Sprintf("after the storm: ticketsIncr=%d with %d incremental running (pool %d), ticketsFull=%d with %d fullsync running (pool %d)", tI, nI, c11StormIncr, tF, nF, c11StormFull), false, nil
	}
	if mine != 0 {
		return "", true, nil // became active again after the calm period: not decidable here
	}
	for _, id := range ids {
		if probe.enters[id] > 0 {
			r := h.result(id)
			if r == nil {
				return fmt.Sprintf("job %s ran (%d transform calls) but no result is stored", id, probe.enters[id]), false, nil
			}
			if r.End.Before(r.Start) {
				return fmt.Sprintf("job %s: stored result ends before it starts", id), false, nil
			}
		}
	}
	return "", false, map[string]int{"storm_runs_observed": probe.total, "storm_max_running_seen": probe.maxRun}
}

func TestVerif_C11_storm(t *testing.T) {
	defer kit.S().Flush()
	defer kit.CleanupScratch()
	env := newC11StormEnv()
	defer env.close()
	exec := func(c c11Storm, fail func(format string, args ...any)) {
		kit.Journal(c)
		problem, inconcl, extra := env.run(c)
		if strings.HasPrefix(problem, "VERIF-INFRA") {
			fail("%s", problem)
		}
		if problem != "" {
			fail("C11 violated (storm): %s\nVERIF-CASE-BEGIN\n%s\nVERIF-CASE-END", problem, c17JSON(c))
		}
		kit.JournalDone()
		if inconcl {
			kit.S().Inconcl()
			return
		}
		for k, v := range extra {
			if k == "storm_max_running_seen" {
				kit.S().Class(fmt.Sprintf("storm-max-running-%d", v), 1)
				continue
			}
			kit.S().AddExtra(k, v)
		}
		perJob := map[int]int{}
		for _, r := range c.Reqs {
			if r.Kind != "kill" && r.Kind != "redeploy" {
				perJob[r.Job]++
			}
		}
		nt := false
		for _, n := range perJob {
			nt = nt || n >= 3
		}
		kit.S().Case(c, nt, "storm")
	}
	var rc c11Storm
	if c17ReplayFile(t, &rc) {
		if rc.Storm {
			exec(rc, t.Fatalf)
		}
		return
	}
	rapid.Check(t, func(t *rapid.T) {
		c := c11Storm{Storm: true, Jobs: rapid.IntRange(1, 4).Draw(t, "jobs"), HoldMs: rapid.IntRange(0, 3).Draw(t, "holdMs"), SrcMs: rapid.IntRange(0, 2).Draw(t, "srcMs")}
		for k := 0; k < c.Jobs; k++ {
			c.FullCron = append(c.FullCron, rapid.Bool().Draw(t, "fullCron"))
			fb := 0
			if rapid.Bool().Draw(t, "failing") {
				fb = rapid.IntRange(0, 65535).Draw(t, "failBits")
			}
			c.FailBits = append(c.FailBits, fb)
		}
		n := rapid.IntRange(3, 24).Draw(t, "requests")
		for i := 0; i < n; i++ {
			c.Reqs = append(c.Reqs, c11Req{
				Kind: rapid.SampledFrom([]string{"cron", "cron", "cron", "event", "event", "event", "manual-incr", "manual-incr", "manual-full", "kill", "redeploy"}).Draw(t, "kind"),
				Job:  rapid.IntRange(0, c.Jobs-1).Draw(t, "job"),
				AtUs: rapid.IntRange(0, 4000).Draw(t, "atUs"),
			})
		}
		// bursts: several run requests for ONE job id released at the same instant
		for b := rapid.IntRange(0, 3).Draw(t, "bursts"); b > 0; b-- {
			job, at := rapid.IntRange(0, c.Jobs-1).Draw(t, "burstJob"), rapid.IntRange(0, 4000).Draw(t, "burstAt")
			for k := rapid.IntRange(2, 6).Draw(t, "burstSize"); k > 0; k-- {
				c.Reqs = append(c.Reqs, c11Req{Kind: rapid.SampledFrom([]string{"cron", "event", "event", "manual-incr"}).Draw(t, "burstKind"), Job: job, AtUs: at})
			}
		}
		exec(c, t.Fatalf)
	})
}

var _ = server.JobResultIndex

// F28 (fixed): raffle.runningJob (KillJob, job status) read the run table without
// its mutex and getRunningJobs handed out the live map: a kill or status request
// that coincides with a job start or end died with "fatal error: concurrent map
// read and map write". White-box and deterministic: a reader must wait while
// the table's mutex is held, and the listing must be a copy.
func TestVerifProbe_F28(t *testing.T) {
	defer kit.CleanupScratch()
	h := newVJHub(vjOpts{})
	defer h.close()
	raf := h.Runner.raffle
	raf.runningMu.Lock()
	done := make(chan struct{})
	go func() { _ = raf.runningJob("x"); close(done) }()
	select {
	case <-done:
		raf.runningMu.Unlock()
		t.Fatalf("F28 present: raffle.runningJob reads the run table without taking its mutex")
	case <-time.After(100 * time.Millisecond):
	}
	raf.runningMu.Unlock()
	<-done
	m := raf.getRunningJobs()
	m["probe"] = &runState{}
	raf.runningMu.Lock()
	_, leaked := raf.runningJobs["probe"]
	raf.runningMu.Unlock()
	if leaked {
		t.Fatalf("F28 present: getRunningJobs hands out the live run table")
	}
}

const c11LockMsg = "the run table's mutex could not be taken for 30s: it is held although every path holds it for microseconds only (an admission or release path returned without unlocking); every later run request, kill and status call hangs"

// c11LockRaf takes the run table's mutex the way its owner does, but gives up after 30 s.
func c11LockRaf(raf *raffle) bool {
	for t0 := time.Now(); !raf.runningMu.TryLock(); time.Sleep(200 * time.Microsecond) {
		if time.Since(t0) > 30*time.Second {
			return false
		}
	}
	return true
}
