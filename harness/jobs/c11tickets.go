package jobs

// C11 part "tickets": run admission under contention. Every run of a job -
// cron tick, on-change event, manual run, retry - is admitted by
// raffle.borrowTicket and ends with returnTicket. Several goroutines, released
// by a spin barrier so that they arrive within nanoseconds of each other, ask
// for tickets for a few job ids (several requests per id, as a cron tick and a
// manual run of one job do) in thousands of rounds per case. After every round,
// with all tickets still out:
//   - at most one ticket was handed out per job id,
//   - no more fullsync / incremental tickets are out than the pools hold,
//   - the run table lists exactly the ids that hold a ticket and the pools hold
//     exactly what is not out;
// after the tickets were returned the run table is empty and the pools are
// back at their configured sizes. White-box (package jobs): the admission
// decision is taken nowhere else.

import (
	"fmt"
	"runtime"
	"sync"
	"sync/atomic"
	"testing"
	"time"

	"pgregory.net/rapid"

	kit "github.com/mimiro-io/datahub/internal/verifkit"
)

type c11TicketCase struct {
	PoolIncr int    `json:"poolIncr"`
	PoolFull int    `json:"poolFull"`
	Full     []bool `json:"full"` // per job id: fullsync run requested
	Req      []int  `json:"req"`  // per requester: index of the job id it asks for
	Rounds   int    `json:"rounds"`
}

func TestVerif_C11_tickets(t *testing.T) {
	defer kit.S().Flush()
	defer kit.CleanupScratch()
	rounds := kit.EnvInt("VERIF_C11_TICKET_ROUNDS", 400)
	budget := kit.EnvInt("VERIF_C11_TICKET_CASES", 30) // cases per shard
	cases := 0
	h := newVJHub(vjOpts{})
	defer h.close()
	h.createDataset("tsrc")
	h.createDataset("tsink")
	seq := 0
	rapid.Check(t, func(t *rapid.T) {
		if cases >= budget {
			return
		}
		cases++
		c := &c11TicketCase{PoolIncr: rapid.IntRange(1, 3).Draw(t, "poolIncr"), PoolFull: rapid.IntRange(1, 2).Draw(t, "poolFull"), Rounds: rounds}
		nids := rapid.IntRange(1, 4).Draw(t, "ids")
		for i := 0; i < nids; i++ {
			c.Full = append(c.Full, rapid.Bool().Draw(t, "full"))
		}
		nreq := rapid.IntRange(2, 8).Draw(t, "requesters")
		for i := 0; i < nreq; i++ {
			c.Req = append(c.Req, rapid.IntRange(0, nids-1).Draw(t, "reqJob"))
		}
		kit.Journal(c)
		defer kit.JournalDone()
		seq++
		// one job object per requester (a cron tick and a manual run build their own), same id per job index
		jobs := make([]*job, nreq)
		for i, k := range c.Req {
			id := fmt.Sprintf("tk%d-%d", seq, k)
			typ := JobTypeIncremental
			if c.Full[k] {
				typ = JobTypeFull
			}
			cfg, err := h.Sched.Parse([]byte(vjJobJSON(vjJob{ID: id, Source: vjDatasetSource("tsrc", false), Sink: vjDatasetSink("tsink"),
				Triggers: []map[string]any{{"triggerType": "cron", "jobType": typ, "schedule": "@every 24h"}}})))
			if err != nil {
				t.Fatalf("VERIF-INFRA job config: %v", err)
			}
			p, err := h.Sched.toPipeline(cfg, typ)
			if err != nil {
				t.Fatalf("VERIF-INFRA pipeline: %v", err)
			}
			jobs[i] = &job{id: id, title: id, pipeline: p, runner: h.Runner, dsm: h.Dsm}
		}
		raf := NewRaffle(c.PoolFull, c.PoolIncr, h.Runner.logger, h.Runner.statsdClient)
		perID := map[int]int{}
		for _, k := range c.Req {
			perID[k]++
		}
		contended := false
		for _, n := range perID {
			contended = contended || n >= 2
		}
		got := make([]*ticket, nreq)
		var arrived, round int32
		var wg sync.WaitGroup
		done := make(chan struct{}, nreq)
		starts := make([]chan struct{}, c.Rounds)
		for r := range starts {
			starts[r] = make(chan struct{})
		}
		for i := range jobs {
			i := i
			wg.Add(1)
			go func() {
				defer wg.Done()
				for r := 0; r < c.Rounds; r++ {
					<-starts[r]
					atomic.AddInt32(&arrived, 1)
					for spin := 0; atomic.LoadInt32(&arrived) < int32(nreq)*(atomic.LoadInt32(&round)+1); spin++ {
						if spin%256 == 255 {
							runtime.Gosched()
						}
					}
					got[i] = raf.borrowTicket(jobs[i])
					done <- struct{}{}
				}
			}()
		}
		multi := 0
		// the harness' own looks at the run table: no request is in flight when they happen, so the
		// table's mutex must be free; a mutex still held then is a lock that was never released
		lock := func(r int, when string) {
			for t0 := time.Now(); !raf.runningMu.TryLock(); time.Sleep(time.Millisecond) {
				if time.Since(t0) > 30*time.Second {
					t.Fatalf("C11 violated (tickets): round %d, %s: no run request is in flight but the run table's mutex is held (for 30s): an admission path returned without releasing it; every later run request, kill and status call hangs\nVERIF-CASE-BEGIN\n%s\nVERIF-CASE-END", r, when, c17JSON(c))
				}
			}
		}
		for r := 0; r < c.Rounds; r++ {
			close(starts[r])
			for i := 0; i < nreq; i++ {
				select {
				case <-done:
				case <-time.After(60 * time.Second):
					// nothing but the run table's mutex stands between a request and its answer: a request
					// that has no answer after a minute never gets one, and with it every later run request,
					// kill and status call of the hub
					t.Fatalf("C11 violated (tickets): round %d: %d of %d simultaneous run requests got no answer within 60s (admission hangs; the hub can neither start nor end a run any more)\nVERIF-CASE-BEGIN\n%s\nVERIF-CASE-END", r, nreq-i, nreq, c17JSON(c))
				}
			}
			// all requesters of this round have their answer; tickets are still out
			out := map[string]int{}
			full, incr := 0, 0
			for i, tk := range got {
				if tk == nil {
					continue
				}
				out[jobs[i].id]++
				if tk.runState.isFull {
					full++
				} else {
					incr++
				}
			}
			for id, n := range out {
				if n > 1 {
					t.Fatalf("C11 violated (tickets): round %d: %d tickets for job id %s are out at the same time (two runs of one job admitted)\nVERIF-CASE-BEGIN\n%s\nVERIF-CASE-END", r, n, id, c17JSON(c))
				}
			}
			if full > c.PoolFull || incr > c.PoolIncr {
				t.Fatalf("C11 violated (tickets): round %d: %d fullsync and %d incremental tickets are out, the pools hold %d and %d\nVERIF-CASE-BEGIN\n%s\nVERIF-CASE-END", r, full, incr, c.PoolFull, c.PoolIncr, c17JSON(c))
			}
			lock(r, "after all requests were answered")
			listed, tf, ti := len(raf.runningJobs), raf.ticketsFull, raf.ticketsIncr
			for id := range out {
				if raf.runningJobs[id] == nil {
					raf.runningMu.Unlock()
					t.Fatalf("C11 violated (tickets): round %d: job id %s holds a ticket but is not listed as running\nVERIF-CASE-BEGIN\n%s\nVERIF-CASE-END", r, id, c17JSON(c))
				}
			}
			raf.runningMu.Unlock()
			if listed != len(out) || tf != c.PoolFull-full || ti != c.PoolIncr-incr {
				t.Fatalf("C11 violated (tickets): round %d: %d ids hold tickets (%d fullsync, %d incremental) but %d are listed as running and the pools hold %d/%d of %d/%d\nVERIF-CASE-BEGIN\n%s\nVERIF-CASE-END",
					r, len(out), full, incr, listed, tf, ti, c.PoolFull, c.PoolIncr, c17JSON(c))
			}
			if len(out) >= 2 {
				multi++
			}
			for i, tk := range got {
				if tk != nil {
					raf.returnTicket(tk)
					got[i] = nil
				}
			}
			lock(r, "after the tickets were returned")
			listed, tf, ti = len(raf.runningJobs), raf.ticketsFull, raf.ticketsIncr
			raf.runningMu.Unlock()
			if listed != 0 || tf != c.PoolFull || ti != c.PoolIncr {
				t.Fatalf("C11 violated (tickets): round %d: after all tickets were returned %d ids are still listed as running and the pools hold %d/%d of %d/%d\nVERIF-CASE-BEGIN\n%s\nVERIF-CASE-END",
					r, listed, tf, ti, c.PoolFull, c.PoolIncr, c17JSON(c))
			}
			atomic.AddInt32(&round, 1)
		}
		wg.Wait()
		kit.S().AddExtra("ticket rounds (simultaneous requests released by a spin barrier)", c.Rounds)
		kit.S().AddExtra("ticket rounds with tickets out for >=2 ids", multi)
		kit.S().Case(c, contended, "tickets", fmt.Sprintf("tickets-requesters-%d", nreq))
	})
}
