package jobs

// C08: incremental jobs converge and tokens never run ahead of delivered data.
//
// Real pipeline (Scheduler.AddJob -> toTriggeredJobs -> synchronous job.Run()),
// real DatasetSource / UnionDatasetSource, real DatasetSink. Three entry points:
//
//	TestVerif_C08        in-process rapid state machine: source writes interleaved
//	                     with runs; faults: sink error at batch i, KillJob at batch
//	                     boundary i (both through verifhook.Fault("job.sink")).
//	TestVerif_C08_Crash  crash rig: a generated script is executed by child
//	                     processes; a counting run records how often each
//	                     instrumented point is hit, then the script is replayed with
//	                     VERIF_CRASH=<point>:<n> (SIGKILL), reopened by a second child
//	                     and continued. Points: job.incr.afterSink (between sink write
//	                     and token store), job.incr.afterToken, job.full.beforeEnd,
//	                     job.full.beforeToken.
//	TestVerifChild_C08   the child entry (skipped unless VERIF_C08_CHILD is set).
//
// Oracles (all computed from observations of the implementation: source feeds,
// sink feed, latest views, persisted SyncJobState):
//
//	(i)   after a successful run: sink latest view == union of the members' latest views
//	(ii)  plain incremental copy, no fault so far: sink feed restricted to a member's
//	      ids == that member's feed, entry by entry
//	(iii) after EVERY run / crash recovery, per member with persisted token T:
//	      T <= end of the member's feed, and every change before T was written to
//	      the sink: not latest-only -> the member's entries before T of an id are a
//	      subsequence of the sink's entries of that id; latest-only -> if an id's
//	      newest version lies before T it occurs in the sink's entries of that id
//	(iv)  the next successful run restores (i) (every case ends with a fault-free run)
//	(v)   re-run with nothing new: sink feed length, latest view and token unchanged
//	      (known finding F20: fullsync over a not-latest-only source with an entity
//	      of >=2 versions replays history -> latest view only, counted as excluded)

import (
	"encoding/json"
	"fmt"
	"os"
	"os/exec"
	"path/filepath"
	"runtime"
	"sort"
	"strconv"
	"strings"
	"syscall"
	"testing"
	"time"

	"github.com/DataDog/datadog-go/v5/statsd"
	"github.com/dgraph-io/badger/v4"
	"go.uber.org/zap"
	"pgregory.net/rapid"

	"github.com/mimiro-io/datahub/internal/conf"
	"github.com/mimiro-io/datahub/internal/security"
	"github.com/mimiro-io/datahub/internal/server"
	"github.com/mimiro-io/datahub/internal/verifhook"
	kit "github.com/mimiro-io/datahub/internal/verifkit"
)

const (
	c08JobID = "c08job"
	c08Sink  = "sink"
)

var c08CrashPoints = []string{"job.incr.afterSink", "job.incr.afterToken", "job.full.beforeEnd", "job.full.beforeToken"}

// ---- configuration -----------------------------------------------------------

type c08Member struct {
	Name       string `json:"name"`
	LatestOnly bool   `json:"latestOnly,omitempty"`
}

type c08Cfg struct {
	Kind    string      `json:"kind"` // "dataset" | "union"
	Members []c08Member `json:"members"`
	JobType string      `json:"jobType"`
	Batch   int         `json:"batch"`
}

func (c c08Cfg) jobJSON() string {
	var src map[string]any
	if c.Kind == "union" {
		var ms []any
		for _, m := range c.Members {
			ms = append(ms, vjDatasetSource(m.Name, m.LatestOnly))
		}
		src = map[string]any{"Type": "UnionDatasetSource", "DatasetSources": ms}
	} else {
		src = vjDatasetSource(c.Members[0].Name, c.Members[0].LatestOnly)
	}
	return vjJobJSON(vjJob{ID: c08JobID, Source: src, Sink: vjDatasetSink(c08Sink), BatchSize: c.Batch, JobType: c.JobType})
}

func (c c08Cfg) plain() bool { // every member delivers the complete change feed
	for _, m := range c.Members {
		if m.LatestOnly {
			return false
		}
	}
	return true
}

func c08GenCfg(t *rapid.T) c08Cfg {
	c := c08Cfg{}
	switch rapid.SampledFrom([]string{"dataset", "datasetLatest", "union"}).Draw(t, "kind") {
	case "dataset":
		c.Kind = "dataset"
		c.Members = []c08Member{{Name: "src0"}}
	case "datasetLatest":
		c.Kind = "dataset"
		c.Members = []c08Member{{Name: "src0", LatestOnly: true}}
	default:
		c.Kind = "union"
		n := rapid.IntRange(2, 3).Draw(t, "members")
		for i := 0; i < n; i++ {
			c.Members = append(c.Members, c08Member{Name: fmt.Sprintf("src%d", i), LatestOnly: rapid.IntRange(0, 2).Draw(t, "mlo") == 0})
		}
	}
	c.JobType = rapid.SampledFrom([]string{JobTypeIncremental, JobTypeIncremental, JobTypeFull}).Draw(t, "jobType")
	c.Batch = rapid.IntRange(1, 7).Draw(t, "batch")
	return c
}

// c08MemberIDs: disjoint id pools, 3 ids per member (two namespaces).
func c08MemberIDs(p []string, k int) []string {
	return []string{fmt.Sprintf("%s:s%de0", p[0], k), fmt.Sprintf("%s:s%de1", p[0], k), fmt.Sprintf("%s:s%de2", p[1], k)}
}

func c08Pool(p []string, cfg c08Cfg) *kit.Pool {
	pool := &kit.Pool{
		Preds: []string{p[0] + ":r0", p[0] + ":r1", p[1] + ":r2"},
		Keys:  []string{p[0] + ":p0", p[0] + ":p1", p[1] + ":p2", p[0] + ":p3"},
		P:     p,
	}
	for k := range cfg.Members {
		pool.IDs = append(pool.IDs, c08MemberIDs(p, k)...)
	}
	return pool
}

// ---- ops ---------------------------------------------------------------------

type c08Op struct {
	K      string     `json:"k"` // "write" | "run"
	DS     string     `json:"ds,omitempty"`
	Ents   []*kit.Ent `json:"ents,omitempty"`
	Fault  string     `json:"fault,omitempty"`  // run: "" | "sinkerr" | "storeerr" | "kill"
	TooBig bool       `json:"tooBig,omitempty"` // storeerr: the storage answers with badger.ErrTxnTooBig
	At     int        `json:"at,omitempty"`     // 1-based index of the sink batch of this run
}

func c08GenWrite(t *rapid.T, pool *kit.Pool, cfg c08Cfg) c08Op {
	k := rapid.IntRange(0, len(cfg.Members)-1).Draw(t, "member")
	n := rapid.IntRange(1, 5).Draw(t, "n")
	op := c08Op{K: "write", DS: cfg.Members[k].Name}
	ids := c08MemberIDs(pool.P, k)
	for i := 0; i < n; i++ {
		op.Ents = append(op.Ents, kit.GenEnt(t, pool, kit.GenCfg{}, ids))
	}
	return op
}

// ---- observation ---------------------------------------------------------------

type c08Obs struct {
	Kind       string                `json:"kind"` // "run" | "rerun" | "recover" | "write"
	Step       int                   `json:"step"`
	Ran        bool                  `json:"ran"`
	LastError  string                `json:"lastError"`
	Panic      string                `json:"panic,omitempty"`
	Token      string                `json:"token"`
	TokErr     string                `json:"tokErr,omitempty"`
	Tok        map[string]uint64     `json:"tok"`       // persisted token per member
	Src        map[string][]*kit.Ent `json:"src"`       // complete feed per member
	SrcEnd     map[string]uint64     `json:"srcEnd"`    // token at the end of the member's feed
	SrcBefore  map[string]int        `json:"srcBefore"` // number of feed entries before the member's token
	SrcLatest  map[string][]*kit.Ent `json:"srcLatest"`
	Sink       []*kit.Ent            `json:"sink"`
	SinkLatest []*kit.Ent            `json:"sinkLatest"`
	Hits       map[string]int        `json:"hits"`    // cumulative verifhook hits of this process
	Batches    int                   `json:"batches"` // sink batches attempted by this run
	FaultHit   bool                  `json:"faultHit,omitempty"`
}

// c08MemberTokens decodes the persisted continuation token into one change
// position per member dataset.
func c08MemberTokens(cfg c08Cfg, token string) (map[string]uint64, error) {
	out := map[string]uint64{}
	num := func(s string) (uint64, error) {
		if s == "" {
			return 0, nil
		}
		return strconv.ParseUint(s, 10, 64)
	}
	if cfg.Kind != "union" {
		n, err := num(token)
		if err != nil {
			return nil, fmt.Errorf("token %q is not a change position: %v", token, err)
		}
		out[cfg.Members[0].Name] = n
		return out, nil
	}
	for _, m := range cfg.Members {
		out[m.Name] = 0
	}
	if token == "" {
		return out, nil
	}
	var u struct {
		Tokens       []*struct{ Token string }
		DatasetNames []string
	}
	if err := json.Unmarshal([]byte(token), &u); err != nil {
		return nil, fmt.Errorf("union token %q: %v", token, err)
	}
	if len(u.Tokens) != len(u.DatasetNames) || len(u.Tokens) > len(cfg.Members) {
		return nil, fmt.Errorf("union token %q: %d tokens for %d names / %d members", token, len(u.Tokens), len(u.DatasetNames), len(cfg.Members))
	}
	for i, name := range u.DatasetNames {
		if name != cfg.Members[i].Name {
			return nil, fmt.Errorf("union token %q: dataset %d is %s, configured %s", token, i, name, cfg.Members[i].Name)
		}
		s := ""
		if u.Tokens[i] != nil {
			s = u.Tokens[i].Token
		}
		n, err := num(s)
		if err != nil {
			return nil, fmt.Errorf("union token %q: %v", token, err)
		}
		out[name] = n
	}
	return out, nil
}

func c08Observe(h *vjHub, cfg c08Cfg, kind string, step int) *c08Obs {
	o := &c08Obs{Kind: kind, Step: step, Src: map[string][]*kit.Ent{}, SrcEnd: map[string]uint64{}, SrcBefore: map[string]int{},
		SrcLatest: map[string][]*kit.Ent{}, Hits: verifhook.Hits()}
	o.Token = h.syncState(c08JobID).ContinuationToken
	if r := h.result(c08JobID); r != nil {
		o.LastError = r.LastError
	}
	tok, err := c08MemberTokens(cfg, o.Token)
	if err != nil {
		o.TokErr = err.Error()
	}
	o.Tok = tok
	for _, m := range cfg.Members {
		feed, end := h.changes(m.Name, 0)
		o.Src[m.Name] = feed
		o.SrcEnd[m.Name] = end
		o.SrcLatest[m.Name] = h.latest(m.Name)
		if tok != nil {
			rest, _ := h.changes(m.Name, tok[m.Name])
			o.SrcBefore[m.Name] = len(feed) - len(rest)
		}
	}
	o.Sink, _ = h.changes(c08Sink, 0)
	o.SinkLatest = h.latest(c08Sink)
	return o
}

// ---- oracles -------------------------------------------------------------------

func c08ByID(es []*kit.Ent) map[string][]*kit.Ent {
	out := map[string][]*kit.Ent{}
	for _, e := range es {
		out[e.ID] = append(out[e.ID], e)
	}
	return out
}

// (iii) token safety. Returns "" or a description of the violation.
func c08CheckToken(cfg c08Cfg, o *c08Obs) string {
	if o.TokErr != "" {
		return "persisted token unreadable: " + o.TokErr
	}
	sinkByID := c08ByID(o.Sink)
	for _, m := range cfg.Members {
		t, end := o.Tok[m.Name], o.SrcEnd[m.Name]
		if t > end {
			return fmt.Sprintf("(iii) token of %s is %d, beyond the end of its change feed (%d)", m.Name, t, end)
		}
		n := o.SrcBefore[m.Name]
		feed := o.Src[m.Name]
		before := c08ByID(feed[:n])
		all := c08ByID(feed)
		for _, id := range kit.SortedKeys(before) {
			want := before[id]
			got := sinkByID[id]
			if m.LatestOnly {
				if len(want) != len(all[id]) {
					continue // the newest version lies at or after the token: nothing promised yet
				}
				newest := want[len(want)-1]
				found := false
				for _, g := range got {
					if kit.SameVersion(g, newest) {
						found = true
						break
					}
				}
				if !found {
					return fmt.Sprintf("(iii) token of %s (latest-only) is %d, past the newest version of %s which was never written to the sink: %s", m.Name, t, id, newest.Key())
				}
				continue
			}
			j := 0
			for _, w := range want {
				for j < len(got) && !kit.SameVersion(got[j], w) {
					j++
				}
				if j == len(got) {
					return fmt.Sprintf("(iii) token of %s is %d (%d changes before it) but change %s of %s was not written to the sink (sink has %d versions of it)", m.Name, t, n, w.Key(), id, len(got))
				}
				j++
			}
		}
	}
	return ""
}

// (i) latest views equal.
func c08CheckLatest(cfg c08Cfg, o *c08Obs) string {
	want := map[string]*kit.Ent{}
	for _, m := range cfg.Members {
		for _, e := range o.SrcLatest[m.Name] {
			if want[e.ID] != nil {
				return "VERIF-INFRA id pools of union members overlap: " + e.ID
			}
			want[e.ID] = e
		}
	}
	got := map[string]*kit.Ent{}
	for _, e := range o.SinkLatest {
		if got[e.ID] != nil {
			return "(i) sink latest view lists " + e.ID + " twice"
		}
		got[e.ID] = e
	}
	for _, id := range kit.SortedKeys(want) {
		if got[id] == nil {
			return fmt.Sprintf("(i) %s is in the source's latest view but not in the sink's: %s", id, want[id].Key())
		}
		if !kit.EqualContent(want[id], got[id]) {
			return fmt.Sprintf("(i) latest version of %s differs: source %s sink %s", id, want[id].Key(), got[id].Key())
		}
	}
	for _, id := range kit.SortedKeys(got) {
		if want[id] == nil {
			return fmt.Sprintf("(i) %s is in the sink's latest view but not in the source's: %s", id, got[id].Key())
		}
	}
	return ""
}

// (ii) sink feed restricted to a member's ids == the member's feed.
func c08CheckFeed(cfg c08Cfg, o *c08Obs) string {
	member := map[string]string{}
	for _, m := range cfg.Members {
		for _, e := range o.Src[m.Name] {
			member[e.ID] = m.Name
		}
	}
	per := map[string][]*kit.Ent{}
	for _, e := range o.Sink {
		mn, ok := member[e.ID]
		if !ok {
			return "(ii) sink feed holds " + e.ID + " which no source dataset has"
		}
		per[mn] = append(per[mn], e)
	}
	for _, m := range cfg.Members {
		a, b := o.Src[m.Name], per[m.Name]
		if len(a) != len(b) {
			return fmt.Sprintf("(ii) %s has %d changes, the sink has %d changes of its entities", m.Name, len(a), len(b))
		}
		for i := range a {
			if !kit.SameVersion(a[i], b[i]) {
				return fmt.Sprintf("(ii) change %d of %s is %s, the sink's %d-th change of its entities is %s", i, m.Name, a[i].Key(), i, b[i].Key())
			}
		}
	}
	return ""
}

// c08F20Shape: fullsync over a not-latest-only member holding an entity with >= 2 versions.
func c08F20Shape(cfg c08Cfg, o *c08Obs) bool {
	if cfg.JobType != JobTypeFull {
		return false
	}
	for _, m := range cfg.Members {
		if m.LatestOnly {
			continue
		}
		for _, vs := range c08ByID(o.Src[m.Name]) {
			if len(vs) >= 2 {
				return true
			}
		}
	}
	return false
}

// (v) re-run with nothing new.
func c08CheckRerun(cfg c08Cfg, a, b *c08Obs, latestOnlyView bool) string {
	if s := c08CheckLatest(cfg, b); s != "" {
		return "(v) after re-run: " + s
	}
	if latestOnlyView {
		return ""
	}
	if len(a.Sink) != len(b.Sink) {
		extra := ""
		if len(b.Sink) > len(a.Sink) {
			extra = " first new: " + b.Sink[len(a.Sink)].Key()
		}
		return fmt.Sprintf("(v) re-run with nothing new changed the sink feed from %d to %d entries%s", len(a.Sink), len(b.Sink), extra)
	}
	if a.Token != b.Token {
		return fmt.Sprintf("(v) re-run with nothing new changed the token from %q to %q", a.Token, b.Token)
	}
	return ""
}

// ---- execution -------------------------------------------------------------------

type c08Fataler interface {
	Fatalf(format string, args ...any)
}

// c08Run executes one run of the job with the op's fault armed and observes.
func c08Run(h *vjHub, j *job, cfg c08Cfg, op c08Op, kind string, step int) *c08Obs {
	prev := h.result(c08JobID)
	base := verifhook.Hits()["fault:job.sink"]
	hit := false
	switch op.Fault {
	case "sinkerr":
		verifhook.SetFault("job.sink", func(n int) error {
			if n-base == op.At {
				hit = true
				return fmt.Errorf("verif: injected sink failure at batch %d", op.At)
			}
			return nil
		})
	case "storeerr":
		// the sink's own write fails (a commit the storage engine refuses): the error comes out of
		// Dataset.StoreEntities, inside the real DatasetSink, not from in front of it
		nth := 0
		verifhook.SetFault("store.commit", func(int) error {
			if !c08InSink() {
				return nil
			}
			nth++
			if nth == op.At {
				hit = true
				if op.TooBig {
					// the error badger itself gives for a page that does not fit into one transaction
					return badger.ErrTxnTooBig
				}
				return fmt.Errorf("verif: injected storage failure in the sink's write %d", op.At)
			}
			return nil
		})
	case "kill":
		verifhook.SetFault("job.sink", func(n int) error {
			if n-base == op.At {
				hit = true
				h.Sched.KillJob(c08JobID) // cancels the run's context; effective at the next batch boundary
			}
			return nil
		})
	}
	res, p := h.runJob(j)
	verifhook.SetFault("job.sink", nil)
	verifhook.SetFault("store.commit", nil)
	o := c08Observe(h, cfg, kind, step)
	o.Batches = verifhook.Hits()["fault:job.sink"] - base
	o.FaultHit = hit
	o.Ran = res != nil && (prev == nil || !res.Start.Equal(prev.Start))
	if p != nil {
		o.Panic = fmt.Sprint(p)
	}
	return o
}

// c08InSink: the calling goroutine is inside datasetSink.processEntities.
func c08InSink() bool {
	pcs := make([]uintptr, 48)
	frames := runtime.CallersFrames(pcs[:runtime.Callers(2, pcs)])
	for {
		fr, more := frames.Next()
		if strings.HasSuffix(fr.Function, "(*datasetSink).processEntities") {
			return true
		}
		if !more {
			return false
		}
	}
}

// c08Verdict applies the oracles to the observation of one run and, after a
// successful run, to the immediate re-run. faulted: some earlier run of the
// case failed, was killed or crashed. Returns the violation ("" = none) and
// the possibly updated faulted flag.
type c08Judge struct {
	cfg     c08Cfg
	faulted bool
	rerun   func() *c08Obs // executes the re-run, nil result = not available
}

func (jd *c08Judge) run(o *c08Obs) string {
	if o.Panic != "" {
		return "job run panicked: " + o.Panic
	}
	if !o.Ran {
		return "VERIF-INFRA job did not run (no new job result)"
	}
	if s := c08CheckToken(jd.cfg, o); s != "" {
		return s
	}
	if o.LastError != "" {
		jd.faulted = true
		return ""
	}
	if s := c08CheckLatest(jd.cfg, o); s != "" {
		return s
	}
	if !jd.faulted && jd.cfg.JobType == JobTypeIncremental && jd.cfg.plain() {
		if s := c08CheckFeed(jd.cfg, o); s != "" {
			return s
		}
	}
	return ""
}

func (jd *c08Judge) rerunCheck(a, b *c08Obs) string {
	if b.Panic != "" {
		return "job re-run panicked: " + b.Panic
	}
	if !b.Ran {
		return "VERIF-INFRA job did not re-run (no new job result)"
	}
	if s := c08CheckToken(jd.cfg, b); s != "" {
		return "after re-run: " + s
	}
	latestOnly := false
	if c08F20Shape(jd.cfg, a) && kit.Known("F20") {
		latestOnly = true
		kit.S().Exclude("F20")
	}
	return c08CheckRerun(jd.cfg, a, b, latestOnly)
}

// ---- in-process state machine -----------------------------------------------------

type c08Case struct {
	Cfg  c08Cfg  `json:"cfg"`
	Hist []c08Op `json:"hist"`
}

func c08CaseText(c any) string {
	b, _ := json.MarshalIndent(c, "", " ")
	return string(b)
}

func c08Setup(h *vjHub, cfg c08Cfg) (*job, error) {
	for _, m := range cfg.Members {
		if h.Dsm.GetDataset(m.Name) == nil {
			h.createDataset(m.Name)
		}
	}
	if h.Dsm.GetDataset(c08Sink) == nil {
		h.createDataset(c08Sink)
	}
	jobs, err := h.addJob(cfg.jobJSON())
	if err != nil {
		return nil, err
	}
	if len(jobs) != 1 {
		return nil, fmt.Errorf("expected 1 triggered job, got %d", len(jobs))
	}
	return jobs[0], nil
}

func TestVerif_C08(t *testing.T) {
	defer kit.S().Flush()
	defer kit.CleanupScratch()
	rapid.Check(t, func(t *rapid.T) {
		cfg := c08GenCfg(t)
		h := newVJHub(vjOpts{})
		defer h.close()
		j, err := c08Setup(h, cfg)
		if err != nil {
			t.Fatalf("VERIF-INFRA job setup: %v", err)
		}
		pool := c08Pool(h.P, cfg)
		cs := &c08Case{Cfg: cfg}
		jd := &c08Judge{cfg: cfg}
		cls := map[string]bool{"src:" + cfg.Kind: true, "type:" + cfg.JobType: true}
		if !cfg.plain() {
			cls["latestOnly"] = true
		}
		runsAfterWrites, dirty, faultOn2, nruns := 0, false, false, 0
		fail := func(format string, a ...any) {
			t.Fatalf("%s\nVERIF-CASE-BEGIN\n%s\nVERIF-CASE-END", fmt.Sprintf(format, a...), c08CaseText(cs))
		}
		doRun := func(op c08Op) {
			cs.Hist = append(cs.Hist, op)
			kit.Journal(cs)
			nruns++
			if dirty {
				runsAfterWrites++
				dirty = false
			}
			o := c08Run(h, j, cfg, op, "run", len(cs.Hist)-1)
			if op.Fault != "" {
				kit.S().AddExtra("faultpoint job.sink:"+op.Fault+" armed", 1)
				if o.FaultHit {
					kit.S().AddExtra("faultpoint job.sink:"+op.Fault+" hit", 1)
					at := fmt.Sprint(op.At)
					if op.At > 5 {
						at = "6+"
					}
					kit.S().AddExtra(fmt.Sprintf("faultpoint job.sink:%s hit at batch %s", op.Fault, at), 1)
					cls["fault:"+op.Fault] = true
					if o.Batches >= 2 || op.At >= 2 {
						faultOn2 = true
					}
				}
			}
			if s := jd.run(o); s != "" {
				fail("%s", s)
			}
			if o.LastError != "" {
				kit.S().AddExtra("runs failed", 1)
				return
			}
			kit.S().AddExtra("runs ok", 1)
			if jd.faulted {
				kit.S().AddExtra("runs ok after an earlier failed run (iv)", 1)
			}
			if c08F20Shape(cfg, o) {
				cls["f20-shape"] = true
			}
			o2 := c08Run(h, j, cfg, c08Op{K: "run"}, "rerun", len(cs.Hist)-1)
			kit.S().AddExtra("reruns (v)", 1)
			if s := jd.rerunCheck(o, o2); s != "" {
				fail("%s", s)
			}
		}
		defer func() {
			nt := faultOn2 || runsAfterWrites >= 2
			var cl []string
			for k := range cls {
				cl = append(cl, k)
			}
			sort.Strings(cl)
			kit.S().Case(cs, nt, cl...)
			kit.JournalDone()
		}()
		t.Repeat(map[string]func(*rapid.T){
			"write": func(t *rapid.T) {
				op := c08GenWrite(t, pool, cfg)
				cs.Hist = append(cs.Hist, op)
				kit.Journal(cs)
				if err := h.write(op.DS, op.Ents); err != nil {
					fail("VERIF-INFRA source write failed: %v", err)
				}
				dirty = true
			},
			"run": func(t *rapid.T) {
				op := c08Op{K: "run"}
				// number of sink batches the run would make if every pending change is delivered
				o := c08Observe(h, cfg, "pre", len(cs.Hist))
				nb := 0
				for _, m := range cfg.Members {
					pending := len(o.Src[m.Name])
					if cfg.JobType == JobTypeIncremental && o.TokErr == "" {
						pending -= o.SrcBefore[m.Name]
					}
					nb += (pending + cfg.Batch - 1) / cfg.Batch
				}
				if nb > 0 {
					op.Fault = rapid.SampledFrom([]string{"", "", "sinkerr", "storeerr", "kill"}).Draw(t, "fault")
					if op.Fault != "" {
						op.At = rapid.IntRange(1, nb+1).Draw(t, "at")
					}
					if op.Fault == "storeerr" {
						op.TooBig = rapid.Bool().Draw(t, "tooBig")
					}
				}
				doRun(op)
			},
		})
		// (iv): every case ends with a fault-free run
		doRun(c08Op{K: "run"})
	})
}

// ---- probe F20 -------------------------------------------------------------------

// F20 (known): a fullsync job over a not-latest-only DatasetSource replays the
// whole change log on every run; re-running with nothing new appends the old
// versions to the sink again.
func TestVerifProbe_F20(t *testing.T) {
	defer kit.CleanupScratch()
	h := newVJHub(vjOpts{})
	defer h.close()
	cfg := c08Cfg{Kind: "dataset", Members: []c08Member{{Name: "src0"}}, JobType: JobTypeFull, Batch: 5}
	j, err := c08Setup(h, cfg)
	if err != nil {
		t.Fatalf("VERIF-INFRA %v", err)
	}
	id := h.P[0] + ":s0e0"
	for v := 1; v <= 2; v++ {
		if err := h.write("src0", []*kit.Ent{{ID: id, Props: map[string]any{h.P[0] + ":p0": v}, Refs: map[string]any{}}}); err != nil {
			t.Fatalf("VERIF-INFRA %v", err)
		}
	}
	jd := &c08Judge{cfg: cfg}
	a := c08Run(h, j, cfg, c08Op{K: "run"}, "run", 0)
	if s := jd.run(a); s != "" || a.LastError != "" {
		t.Fatalf("first run: %s %s", s, a.LastError)
	}
	b := c08Run(h, j, cfg, c08Op{K: "run"}, "rerun", 0)
	if s := c08CheckRerun(cfg, a, b, false); s != "" {
		t.Fatalf("%s", s)
	}
}

// ---- crash rig -------------------------------------------------------------------

// c08Script is what a child process executes: steps [From, To) of Steps on the
// hub in Dir, observations appended to Out (one JSON document per line).
type c08Script struct {
	Dir   string   `json:"dir"`
	Cfg   c08Cfg   `json:"cfg"`
	Steps []c08Op  `json:"steps"`
	From  int      `json:"from"`
	To    int      `json:"to"`
	Out   string   `json:"out"`
	Ack   string   `json:"ack"`
	P     []string `json:"p"` // store prefixes the script's ids were generated with
}

// c08OpenHub opens (or creates) a hub on a given directory; hub.go's newVJHub
// always takes a fresh directory.
func c08OpenHub(dir string) *vjHub {
	h := &vjHub{Dir: dir}
	lg := zap.NewNop().Sugar()
	h.Env = &conf.Config{
		Logger:         lg,
		StoreLocation:  filepath.Join(dir, "store"),
		BlockCacheSize: 32 << 20,
		Auth:           &conf.AuthConfig{Middleware: "noop"},
		RunnerConfig:   &conf.RunnerConfig{PoolIncremental: 10, PoolFull: 5, Concurrent: 1},
	}
	_ = os.MkdirAll(h.Env.StoreLocation, 0o755)
	vjQuiet(func() {
		h.Store = server.NewStore(h.Env, &statsd.NoOpClient{})
		h.Bus = server.NoOpBus()
		pm := security.NewProviderManager(h.Env, h.Store, lg)
		tps := security.NewTokenProviders(lg, pm, nil)
		h.Runner = NewRunner(h.Env, h.Store, tps, h.Bus, &statsd.NoOpClient{})
		h.Dsm = server.NewDsManager(h.Env, h.Store, h.Bus)
		h.Sched = NewScheduler(h.Env, h.Store, h.Dsm, h.Runner)
	})
	for _, ns := range kit.PoolNS {
		p, err := h.Store.NamespaceManager.AssertPrefixMappingForExpansion(ns)
		if err != nil {
			panic(fmt.Sprintf("VERIF-INFRA namespace: %v", err))
		}
		h.P = append(h.P, p)
	}
	return h
}

func c08AppendLine(path string, v any, sync bool) {
	b, _ := json.Marshal(v)
	f, err := os.OpenFile(path, os.O_APPEND|os.O_CREATE|os.O_WRONLY, 0o644)
	if err != nil {
		panic("VERIF-INFRA " + err.Error())
	}
	_, _ = f.Write(append(b, '\n'))
	if sync {
		_ = f.Sync()
	}
	_ = f.Close()
}

// TestVerifChild_C08 is the child process entry of the crash rig.
func TestVerifChild_C08(t *testing.T) {
	path := os.Getenv("VERIF_C08_CHILD")
	if path == "" {
		t.Skip("child entry")
	}
	b, err := os.ReadFile(path)
	if err != nil {
		t.Fatalf("VERIF-INFRA %v", err)
	}
	var sc c08Script
	if err := json.Unmarshal(b, &sc); err != nil {
		t.Fatalf("VERIF-INFRA %v", err)
	}
	h := c08OpenHub(sc.Dir)
	if fmt.Sprint(h.P) != fmt.Sprint(sc.P) {
		t.Fatalf("VERIF-INFRA store prefixes %v differ from the script's %v", h.P, sc.P)
	}
	j, err := c08Setup(h, sc.Cfg)
	if err != nil {
		t.Fatalf("VERIF-INFRA job setup: %v", err)
	}
	if sc.From > 0 {
		c08AppendLine(sc.Out, c08Observe(h, sc.Cfg, "recover", sc.From-1), false)
	}
	// the parent of a timed kill starts its clock when this file appears
	_ = os.WriteFile(sc.Ack+".ready", []byte(strconv.FormatInt(time.Now().UnixNano(), 10)), 0o644)
	defer func() {
		_ = os.WriteFile(sc.Ack+".done", []byte(strconv.FormatInt(time.Now().UnixNano(), 10)), 0o644)
	}()
	for k := sc.From; k < sc.To; k++ {
		op := sc.Steps[k]
		switch op.K {
		case "write":
			if err := h.write(op.DS, op.Ents); err != nil {
				t.Fatalf("VERIF-INFRA source write: %v", err)
			}
		case "run":
			o := c08Run(h, j, sc.Cfg, op, "run", k)
			c08AppendLine(sc.Out, o, false)
			if o.Panic == "" && o.Ran && o.LastError == "" {
				c08AppendLine(sc.Out, c08Run(h, j, sc.Cfg, c08Op{K: "run"}, "rerun", k), false)
			}
		}
		c08AppendLine(sc.Ack, k, true)
	}
	// no clean close: the directory is never opened again after this child
	// (or is opened by a recovery child that must cope with an unclean stop anyway)
}

type c08ChildResult struct {
	Exit    int
	Killed  bool // died from SIGKILL
	Out     string
	Obs     []*c08Obs
	Acked   int
	Elapsed time.Duration
	Work    time.Duration // from hub open to the end of the script (children that finished)
}

func c08Child(sc c08Script, crash string) (*c08ChildResult, error) {
	return c08ChildKill(sc, crash, -1)
}

// c08ChildKill: killAfter >= 0 sends SIGKILL that long after the child reported
// its hub open (file Ack+".ready"): a kill at an arbitrary instant.
func c08ChildKill(sc c08Script, crash string, killAfter time.Duration) (*c08ChildResult, error) {
	scPath := filepath.Join(filepath.Dir(sc.Out), fmt.Sprintf("script-%d-%d.json", sc.From, sc.To))
	b, _ := json.Marshal(sc)
	if err := os.WriteFile(scPath, b, 0o644); err != nil {
		return nil, err
	}
	_ = os.Remove(sc.Out)
	_ = os.Remove(sc.Ack)
	_ = os.Remove(sc.Ack + ".ready")
	_ = os.Remove(sc.Ack + ".done")
	cmd := exec.Command(os.Args[0], "-test.run", "^TestVerifChild_C08$", "-test.count", "1", "-test.timeout", "120s")
	cmd.Dir = filepath.Dir(sc.Out)
	for _, e := range os.Environ() {
		if strings.HasPrefix(e, "VERIF_STATS=") || strings.HasPrefix(e, "VERIF_JOURNAL=") || strings.HasPrefix(e, "VERIF_CRASH=") ||
			strings.HasPrefix(e, "VERIF_POINT_COUNTS=") {
			continue
		}
		cmd.Env = append(cmd.Env, e)
	}
	cmd.Env = append(cmd.Env, "VERIF_C08_CHILD="+scPath, "VERIF_MEMTABLE_MB=8")
	if crash != "" {
		cmd.Env = append(cmd.Env, "VERIF_CRASH="+crash)
	}
	t0 := time.Now()
	var out []byte
	var err error
	if killAfter < 0 {
		out, err = cmd.CombinedOutput()
	} else {
		var buf strings.Builder
		cmd.Stdout, cmd.Stderr = &buf, &buf
		if err = cmd.Start(); err != nil {
			return nil, err
		}
		exited := make(chan error, 1)
		go func() { exited <- cmd.Wait() }()
		deadline := time.Now().Add(60 * time.Second)
		ready := false
		for !ready && time.Now().Before(deadline) {
			select {
			case err = <-exited:
				exited <- err
				deadline = time.Now()
			default:
				if _, e := os.Stat(sc.Ack + ".ready"); e == nil {
					ready = true
				} else {
					time.Sleep(200 * time.Microsecond)
				}
			}
		}
		if ready {
			t1 := time.Now()
			for time.Since(t1) < killAfter { // spin: sleep granularity is too coarse for sub-millisecond delays
				if killAfter-time.Since(t1) > 2*time.Millisecond {
					time.Sleep(time.Millisecond)
				}
			}
		}
		_ = cmd.Process.Kill()
		err = <-exited
		out = []byte(buf.String())
	}
	r := &c08ChildResult{Out: string(out), Elapsed: time.Since(t0)}
	if a, e1 := os.ReadFile(sc.Ack + ".ready"); e1 == nil {
		if b, e2 := os.ReadFile(sc.Ack + ".done"); e2 == nil {
			x, _ := strconv.ParseInt(string(a), 10, 64)
			y, _ := strconv.ParseInt(string(b), 10, 64)
			r.Work = time.Duration(y - x)
		}
	}
	kit.S().AddExtra("child processes", 1)
	kit.S().AddExtra("child processes total ms", int(r.Elapsed.Milliseconds()))
	if err != nil {
		ee, ok := err.(*exec.ExitError)
		if !ok {
			return nil, err
		}
		r.Exit = ee.ExitCode()
		if ws, ok := ee.Sys().(syscall.WaitStatus); ok && ws.Signaled() && ws.Signal() == syscall.SIGKILL {
			r.Killed = true
		}
	}
	if ob, err := os.ReadFile(sc.Out); err == nil {
		for _, line := range strings.Split(strings.TrimSpace(string(ob)), "\n") {
			if line == "" {
				continue
			}
			o := &c08Obs{}
			if err := json.Unmarshal([]byte(line), o); err != nil {
				break // torn last line of a killed child
			}
			r.Obs = append(r.Obs, o)
		}
	}
	if ab, err := os.ReadFile(sc.Ack); err == nil {
		r.Acked = len(strings.Fields(string(ab)))
	}
	return r, nil
}

// c08JudgeObs applies the oracles to a child's observation list.
func c08JudgeObs(jd *c08Judge, obs []*c08Obs) string {
	var lastRun *c08Obs
	for _, o := range obs {
		switch o.Kind {
		case "recover":
			jd.faulted = true
			if s := c08CheckToken(jd.cfg, o); s != "" {
				return fmt.Sprintf("after the crash in step %d: %s", o.Step, s)
			}
		case "run":
			lastRun = o
			if s := jd.run(o); s != "" {
				return fmt.Sprintf("step %d: %s", o.Step, s)
			}
		case "rerun":
			if lastRun == nil || lastRun.Step != o.Step {
				return "VERIF-INFRA rerun observation without its run"
			}
			if s := jd.rerunCheck(lastRun, o); s != "" {
				return fmt.Sprintf("step %d: %s", o.Step, s)
			}
		}
	}
	return ""
}

type c08CrashCase struct {
	Cfg   c08Cfg  `json:"cfg"`
	Steps []c08Op `json:"steps"`
	Crash string  `json:"crash,omitempty"` // point:n (n counted from process start)
	Step  int     `json:"crashStep,omitempty"`
}

func TestVerif_C08_Crash(t *testing.T) {
	defer kit.S().Flush()
	defer kit.CleanupScratch()
	budget := kit.EnvInt("VERIF_C08_CRASH_SCRIPTS", 12) // scripts per shard
	perScript := kit.EnvInt("VERIF_C08_CRASH_POINTS", 4)
	timed := kit.EnvInt("VERIF_C08_TIMED_KILLS", 2)
	done := 0
	rapid.Check(t, func(t *rapid.T) {
		if done >= budget {
			return
		}
		done++
		cfg := c08GenCfg(t)
		root := kit.NewDir("c08crash")
		defer os.RemoveAll(root)
		// the store prefixes of the pool namespaces are assigned in creation order:
		// take them from a throw-away hub once per process
		p := c08Prefixes()
		pool := c08Pool(p, cfg)
		var steps []c08Op
		n := rapid.IntRange(3, 9).Draw(t, "len")
		for i := 0; i < n; i++ {
			if rapid.IntRange(0, 2).Draw(t, "isRun") == 0 && i > 0 {
				steps = append(steps, c08Op{K: "run"})
			} else {
				steps = append(steps, c08GenWrite(t, pool, cfg))
			}
		}
		steps = append(steps, c08Op{K: "run"})
		runsAfterWrites, dirty := 0, false
		for _, op := range steps {
			if op.K == "write" {
				dirty = true
			} else if dirty {
				runsAfterWrites++
				dirty = false
			}
		}
		cc := &c08CrashCase{Cfg: cfg, Steps: steps}
		fail := func(format string, a ...any) {
			t.Fatalf("%s\nVERIF-CASE-BEGIN\n%s\nVERIF-CASE-END", fmt.Sprintf(format, a...), c08CaseText(cc))
		}
		mk := func(sub string, from, to int, st []c08Op) c08Script {
			d := filepath.Join(root, sub)
			_ = os.MkdirAll(d, 0o755)
			return c08Script{Dir: filepath.Join(d, "hub"), Cfg: cfg, Steps: st, From: from, To: to, P: p,
				Out: filepath.Join(d, fmt.Sprintf("obs-%d.jsonl", from)), Ack: filepath.Join(d, fmt.Sprintf("ack-%d", from))}
		}
		// 1. counting run, no crash
		kit.Journal(cc)
		r0, err := c08Child(mk("count", 0, len(steps), steps), "")
		if err != nil || r0.Exit != 0 || r0.Acked != len(steps) {
			if err == nil && strings.Contains(r0.Out, "VERIF-INFRA") {
				t.Fatalf("VERIF-INFRA counting child: %s", r0.Out)
			}
			fail("counting child failed (err=%v exit=%d acked=%d/%d):\n%s", err, r0.Exit, r0.Acked, len(steps), c08Tail(r0.Out))
		}
		if s := c08JudgeObs(&c08Judge{cfg: cfg}, r0.Obs); s != "" {
			fail("no-crash run: %s", s)
		}
		// candidates: (run step, point, n-th hit within the process)
		type cand struct {
			step  int
			point string
			abs   int
		}
		var cands []cand
		prev := map[string]int{}
		multiBatch := map[int]bool{}
		for _, o := range r0.Obs {
			if o.Kind == "run" && o.Batches >= 2 {
				multiBatch[o.Step] = true
			}
			for _, pt := range c08CrashPoints {
				for k := prev[pt] + 1; k <= o.Hits[pt]; k++ {
					cands = append(cands, cand{o.Step, pt, k})
				}
				prev[pt] = o.Hits[pt]
			}
		}
		kit.S().AddExtra("crash candidates (point hits in counting runs)", len(cands))
		chosen := cands
		if len(cands) > perScript {
			idx := rapid.SliceOfNDistinct(rapid.IntRange(0, len(cands)-1), perScript, perScript, rapid.ID[int]).Draw(t, "crashes")
			sort.Ints(idx)
			chosen = nil
			for _, i := range idx {
				chosen = append(chosen, cands[i])
			}
		}
		if len(chosen) == 0 {
			kit.S().Case(cc, false, "crash:none-possible", "type:"+cfg.JobType, "src:"+cfg.Kind)
			kit.JournalDone()
			return
		}
		for ci, c := range chosen {
			cc.Crash, cc.Step = fmt.Sprintf("%s:%d", c.point, c.abs), c.step
			kit.Journal(cc)
			sub := fmt.Sprintf("crash%d", ci)
			ra, err := c08Child(mk(sub, 0, c.step+1, steps), cc.Crash)
			if err != nil {
				t.Fatalf("VERIF-INFRA crash child: %v", err)
			}
			if !ra.Killed || ra.Acked != c.step {
				// the point was not reached as in the counting run: nothing to judge
				kit.S().Inconcl()
				kit.S().AddExtra("crash not reproduced (inconclusive)", 1)
				continue
			}
			kit.S().AddExtra("crashpoint "+c.point+" killed", 1)
			// 2. recover, continue, and end with a fault-free run
			st := append(append([]c08Op{}, steps...), c08Op{K: "run"})
			rb, err := c08Child(mk(sub, c.step+1, len(st), st), "")
			if err != nil {
				t.Fatalf("VERIF-INFRA recovery child: %v", err)
			}
			if rb.Exit != 0 || rb.Acked != len(st)-(c.step+1) {
				if strings.Contains(rb.Out, "VERIF-INFRA") {
					t.Fatalf("VERIF-INFRA recovery child: %s", rb.Out)
				}
				fail("recovery child after crash at %s failed (exit=%d acked=%d):\n%s", cc.Crash, rb.Exit, rb.Acked, c08Tail(rb.Out))
			}
			jd := &c08Judge{cfg: cfg}
			// observations of the crashed child before the crash belong to the same history
			if s := c08JudgeObs(jd, ra.Obs); s != "" {
				fail("before the crash: %s", s)
			}
			if s := c08JudgeObs(jd, rb.Obs); s != "" {
				fail("crash at %s (step %d): %s", cc.Crash, c.step, s)
			}
			last := rb.Obs[len(rb.Obs)-1]
			if last.LastError != "" {
				fail("fault-free run after crash at %s failed: %s", cc.Crash, last.LastError)
			}
			cp := *cc
			kit.S().Case(&cp, multiBatch[c.step] || runsAfterWrites >= 2, "crash:"+c.point, "type:"+cfg.JobType, "src:"+cfg.Kind)
		}
		// 3. kills at arbitrary instants: SIGKILL from outside after a drawn fraction of the
		// counting run's working time. Not reproducible by seed (the case records the observed
		// acknowledged prefix); what is judged is the same as above.
		for ti := 0; ti < timed && r0.Work > 0; ti++ {
			permille := rapid.IntRange(0, 1000).Draw(t, "killPermille")
			delay := time.Duration(int64(r0.Work) * int64(permille) / 1000)
			cc.Crash, cc.Step = fmt.Sprintf("timed:%dpermille", permille), -1
			kit.Journal(cc)
			sub := fmt.Sprintf("timed%d", ti)
			ra, err := c08ChildKill(mk(sub, 0, len(steps), steps), "", delay)
			if err != nil {
				t.Fatalf("VERIF-INFRA timed child: %v", err)
			}
			if !ra.Killed {
				kit.S().AddExtra("timed kill came after the script had ended", 1)
				continue
			}
			kit.S().AddExtra("timed kills", 1)
			inflight := "none"
			if ra.Acked < len(steps) {
				inflight = steps[ra.Acked].K
			}
			cc.Step = ra.Acked
			st := append(append([]c08Op{}, steps...), c08Op{K: "run"})
			// the step that was in flight is executed again (a client retrying)
			scb := mk(sub, ra.Acked, len(st), st)
			rb, err := c08Child(scb, "")
			if err != nil {
				t.Fatalf("VERIF-INFRA recovery child: %v", err)
			}
			if rb.Exit != 0 && kit.Known("F27") && c08EmptyMemtable(scb.Dir) {
				// known finding F27 (input shape: the killed process left an empty memtable file):
				// that start fails and sizes the file; carry on with the start after it
				kit.S().Exclude("F27")
				if rb, err = c08Child(scb, ""); err != nil {
					t.Fatalf("VERIF-INFRA recovery child: %v", err)
				}
			}
			if rb.Exit != 0 || rb.Acked != len(st)-ra.Acked {
				if strings.Contains(rb.Out, "VERIF-INFRA") {
					t.Fatalf("VERIF-INFRA recovery child: %s", rb.Out)
				}
				fail("recovery child after a kill %d permille into the script (step %d, %s, in flight) failed (exit=%d acked=%d):\n%s", permille, ra.Acked, inflight, rb.Exit, rb.Acked, c08Tail(rb.Out))
			}
			jd := &c08Judge{cfg: cfg}
			if s := c08JudgeObs(jd, ra.Obs); s != "" {
				fail("before the timed kill: %s", s)
			}
			if s := c08JudgeObs(jd, rb.Obs); s != "" {
				fail("kill %d permille into the script (step %d, %s, in flight): %s", permille, ra.Acked, inflight, s)
			}
			if last := rb.Obs[len(rb.Obs)-1]; last.LastError != "" {
				fail("fault-free run after a timed kill failed: %s", last.LastError)
			}
			cp := *cc
			kit.S().Case(&cp, inflight == "run" && multiBatch[ra.Acked], "crash:timed", "timed-inflight:"+inflight, "type:"+cfg.JobType, "src:"+cfg.Kind)
		}
		kit.JournalDone()
	})
}

func c08EmptyMemtable(hubDir string) bool {
	mems, _ := filepath.Glob(filepath.Join(hubDir, "store", "*.mem"))
	for _, m := range mems {
		if st, err := os.Stat(m); err == nil && st.Size() == 0 {
			return true
		}
	}
	return false
}

func c08Tail(s string) string {
	if len(s) > 3000 {
		return s[len(s)-3000:]
	}
	return s
}

var c08PrefixCache []string

// c08Prefixes returns the store prefixes the pool namespaces get in a fresh
// hub (deterministic: assigned in creation order), needed to generate entity
// ids for a script before any hub of the case exists.
func c08Prefixes() []string {
	if c08PrefixCache == nil {
		h := newVJHub(vjOpts{})
		c08PrefixCache = append([]string{}, h.P...)
		h.close()
	}
	return c08PrefixCache
}
