package jobs

// C08, large part: page sizes around the powers of two and the defaults (1024,
// 4096, 8192, the default batch size 10000). One DatasetSource (plain or
// latest-only), incremental or fullsync, batch size from {default, 1024, 4096,
// 5000}; the source receives n entities, the job runs (until its token stops
// moving), the sink's latest view must equal the source's and the token must
// not pass anything undelivered; then a few more writes and another run.

import (
	"fmt"
	"testing"

	"pgregory.net/rapid"

	kit "github.com/mimiro-io/datahub/internal/verifkit"
)

func TestVerif_C08_large(t *testing.T) {
	defer kit.S().Flush()
	defer kit.CleanupScratch()
	rapid.Check(t, func(t *rapid.T) {
		cfg := c08Cfg{Kind: "dataset", Members: []c08Member{{Name: "src0", LatestOnly: rapid.Bool().Draw(t, "latestOnly")}},
			JobType: rapid.SampledFrom([]string{JobTypeIncremental, JobTypeIncremental, JobTypeFull}).Draw(t, "jobType"),
			Batch:   rapid.SampledFrom([]int{0, 0, 1024, 4096, 5000}).Draw(t, "batch")}
		n := rapid.SampledFrom([]int{1023, 1024, 1025, 2048, 4095, 4096, 4097, 8192, 9999, 10000, 10001, 12288}).Draw(t, "n")
		extra := rapid.SampledFrom([]int{1, 1023, 4096}).Draw(t, "extra")
		cs := map[string]any{"cfg": cfg, "n": n, "extra": extra}
		kit.Journal(cs)
		defer kit.JournalDone()
		h := newVJHub(vjOpts{})
		defer h.close()
		j, err := c08Setup(h, cfg)
		if err != nil {
			t.Fatalf("VERIF-INFRA job setup: %v", err)
		}
		fail := func(format string, a ...any) {
			t.Fatalf("%s\nVERIF-CASE-BEGIN\n%s\nVERIF-CASE-END", fmt.Sprintf(format, a...), c17JSON(cs))
		}
		p := h.P[0]
		write := func(from, to int, v string) {
			for lo := from; lo < to; lo += 2000 {
				var es []*kit.Ent
				for i := lo; i < lo+2000 && i < to; i++ {
					es = append(es, &kit.Ent{ID: fmt.Sprintf("%s:L%d", p, i), Props: map[string]any{p + ":p0": v}, Refs: map[string]any{}})
				}
				if err := h.write("src0", es); err != nil {
					t.Fatalf("VERIF-INFRA source write: %v", err)
				}
			}
		}
		catchUp := func(phase string) {
			for r := 0; r < 8; r++ {
				before := h.syncState(c08JobID).ContinuationToken
				o := c08Run(h, j, cfg, c08Op{K: "run"}, "run", r)
				if o.Panic != "" {
					fail("%s: job run panicked: %s", phase, o.Panic)
				}
				if o.LastError != "" {
					fail("%s: run %d failed: %s", phase, r+1, o.LastError)
				}
				if s := c08CheckToken(cfg, o); s != "" {
					fail("%s, after run %d: %s", phase, r+1, s)
				}
				if o.Token == before || cfg.JobType == JobTypeFull {
					if s := c08CheckLatest(cfg, o); s != "" {
						fail("%s: after %d successful run(s) with nothing written meanwhile: %s (source holds %d entities, sink %d)", phase, r+1, s, len(o.SrcLatest["src0"]), len(o.SinkLatest))
					}
					return
				}
			}
			fail("%s: the token still moves after 8 runs with nothing written meanwhile", phase)
		}
		write(0, n, "v0")
		catchUp(fmt.Sprintf("%d entities in the source", n))
		write(n-extra/2, n+extra-extra/2, "v1") // some rewritten, some new
		catchUp(fmt.Sprintf("%d more changes", extra))
		kit.S().Case(cs, true, "large-job", fmt.Sprintf("large-n-%d", n), fmt.Sprintf("large-batch-%d", cfg.Batch), "type:"+cfg.JobType)
	})
}
