package jobs

// hub.go: shared wiring for the white-box checks compiled into package jobs
// (C08, C10, C11, C17, C18). Everything here is prefixed `vj`.
//
// API (stable; keep it small):
//
//	h := newVJHub(vjOpts{})            store + dsm + runner + scheduler on a kit.NewDir directory
//	defer h.close()                    stops the runner, closes the store, removes the directory
//	h.createDataset("src")             panics on error (infrastructure)
//	h.write("src", []*kit.Ent{...})    kit.ToEntities -> Dataset.StoreEntities (the job/sink write path)
//	h.latest("sink")                   latest view as []*kit.Ent (GetEntities, one unlimited call)
//	h.changes("sink", since)           change feed from `since` as []*kit.Ent + next token (GetChanges, not latest-only)
//	h.P                                store prefixes of kit.PoolNS (h.P[0]+":e1" is a valid entity id)
//	jobs, err := h.addJob(cfgJSON)     Scheduler.Parse + Scheduler.AddJob (validation, persisted, scheduled)
//	                                   then fresh *job objects, one per trigger, for synchronous runs
//	res, p := h.runJob(jobs[0])        job.Run() on the calling goroutine; p = recovered panic value (nil = none),
//	                                   res = the stored jobResult of that job id afterwards (nil = none stored)
//	h.result(id), h.syncState(id)      stored jobResult / SyncJobState (continuation token)
//	h.takeLogs()                       with vjOpts{CaptureLog:"x|"}: log messages starting with "x|" emitted
//	                                   since the last call (a JS transform's Log("x|..."), any goroutine)
//	vjJS(code)                         base64 of a JS transform source
//	vjJobJSON(vjJob{...})              renders a job configuration as JSON (see vjJob)
//
// Notes:
//   - job.Run() is synchronous; a panic in a job run is recovered by runJob
//     (jobrunner would re-panic and kill the process), a stack overflow cannot
//     be recovered: journal cases (kit.Journal) or use child processes.
//   - The *job objects returned by addJob share their *ErrorHandler values with
//     the copies the scheduler registered in cron; use a schedule that does not
//     fire during the test (vjJob default "@every 24h") unless firing is the point.
//   - jobrunner.MainCron is process-global: one vjHub at a time per process.

import (
	"bytes"
	"encoding/base64"
	"encoding/json"
	"fmt"
	"os"
	"path/filepath"
	"runtime"
	"strings"
	"sync"
	"time"

	"github.com/DataDog/datadog-go/v5/statsd"
	"go.uber.org/zap"
	"go.uber.org/zap/zapcore"

	"github.com/mimiro-io/datahub/internal/conf"
	"github.com/mimiro-io/datahub/internal/security"
	"github.com/mimiro-io/datahub/internal/server"
	kit "github.com/mimiro-io/datahub/internal/verifkit"
)

// vjOpts configures a hub. The zero value gives a NoOp event bus and the
// pools 10 (incremental) / 5 (fullsync).
type vjOpts struct {
	Bus      bool // real event bus (server.NewBus): onchange triggers fire on sink writes
	PoolIncr int  // 0 = 10
	PoolFull int  // 0 = 5
	// CaptureLog != "": the hub's logger keeps every message (any level >= info)
	// that starts with this prefix; read and clear them with takeLogs(). All
	// other log output is discarded. A JS transform reaches it with Log("<prefix>...").
	CaptureLog string
	// OnLog (optional, with CaptureLog): called synchronously on the logging
	// goroutine for every captured message, before it is stored.
	OnLog func(msg string)
}

type vjHub struct {
	Dir    string
	Env    *conf.Config
	Store  *server.Store
	Dsm    *server.DsManager
	Runner *Runner
	Sched  *Scheduler
	Bus    server.EventBus
	P      []string // store prefixes of kit.PoolNS
	logs   *vjLogCore
	// stray: a MultiSource run ended with an error. Its query goroutine (multi_source.go processDependency)
	// is not waited for by the run and may still be reading the store; close() lets it finish first.
	stray bool
}

// vjLogCore is a zap core that keeps messages with a given prefix.
type vjLogCore struct {
	mu     sync.Mutex
	prefix string
	msgs   []string
	onLog  func(string)
}

func (c *vjLogCore) Enabled(l zapcore.Level) bool      { return l >= zapcore.InfoLevel }
func (c *vjLogCore) With([]zapcore.Field) zapcore.Core { return c }
func (c *vjLogCore) Sync() error                       { return nil }
func (c *vjLogCore) Check(e zapcore.Entry, ce *zapcore.CheckedEntry) *zapcore.CheckedEntry {
	if c.Enabled(e.Level) && strings.HasPrefix(e.Message, c.prefix) {
		return ce.AddCore(e, c)
	}
	return ce
}
func (c *vjLogCore) Write(e zapcore.Entry, _ []zapcore.Field) error {
	if c.onLog != nil {
		c.onLog(e.Message)
	}
	c.mu.Lock()
	c.msgs = append(c.msgs, e.Message)
	c.mu.Unlock()
	return nil
}

// takeLogs returns and clears the captured log messages (see vjOpts.CaptureLog).
func (h *vjHub) takeLogs() []string {
	if h.logs == nil {
		return nil
	}
	h.logs.mu.Lock()
	defer h.logs.mu.Unlock()
	out := h.logs.msgs
	h.logs.msgs = nil
	return out
}

var vjStdoutMu sync.Mutex

// vjQuiet runs f with os.Stdout pointing at /dev/null (jobrunner and the
// store print there on start/stop). Serialised by a mutex; never call it
// around a job run.
func vjQuiet(f func()) {
	vjStdoutMu.Lock()
	defer vjStdoutMu.Unlock()
	devNull, err := os.OpenFile("/dev/null", os.O_WRONLY, 0)
	if err != nil {
		f()
		return
	}
	old := os.Stdout
	os.Stdout = devNull
	defer func() { os.Stdout = old; _ = devNull.Close() }()
	f()
}

func newVJHub(o vjOpts) *vjHub {
	if os.Getenv("VERIF_MEMTABLE_MB") == "" {
		_ = os.Setenv("VERIF_MEMTABLE_MB", "8") // ~10x faster store open/close (verifhook.TuneBadger)
	}
	if o.PoolIncr == 0 {
		o.PoolIncr = 10
	}
	if o.PoolFull == 0 {
		o.PoolFull = 5
	}
	h := &vjHub{Dir: kit.NewDir("vj")}
	lg := zap.NewNop().Sugar()
	if o.CaptureLog != "" {
		h.logs = &vjLogCore{prefix: o.CaptureLog, onLog: o.OnLog}
		lg = zap.New(h.logs).Sugar()
	}
	h.Env = &conf.Config{
		Logger:        lg,
		StoreLocation: filepath.Join(h.Dir, "store"),
		// the hub defaults to a 4 GB block cache whose bookkeeping alone allocates ~290 MB per open store
		BlockCacheSize: 32 << 20,
		Auth:           &conf.AuthConfig{Middleware: "noop"},
		RunnerConfig:   &conf.RunnerConfig{PoolIncremental: o.PoolIncr, PoolFull: o.PoolFull, Concurrent: 1},
	}
	_ = os.MkdirAll(h.Env.StoreLocation, 0o755)
	vjQuiet(func() {
		h.Store = server.NewStore(h.Env, &statsd.NoOpClient{})
		h.Bus = server.NoOpBus()
		if o.Bus {
			b, err := server.NewBus(h.Env)
			if err != nil {
				panic(fmt.Sprintf("VERIF-INFRA event bus: %v", err))
			}
			h.Bus = b
		}
		pm := security.NewProviderManager(h.Env, h.Store, lg)
		tps := security.NewTokenProviders(lg, pm, nil)
		h.Runner = NewRunner(h.Env, h.Store, tps, h.Bus, &statsd.NoOpClient{})
		h.Dsm = server.NewDsManager(h.Env, h.Store, h.Bus)
		h.Sched = NewScheduler(h.Env, h.Store, h.Dsm, h.Runner)
	})
	for _, ns := range kit.PoolNS {
		p, err := h.Store.NamespaceManager.AssertPrefixMappingForExpansion(ns)
		if err != nil {
			panic(fmt.Sprintf("VERIF-INFRA namespace: %v", err))
		}
		h.P = append(h.P, p)
	}
	return h
}

func (h *vjHub) close() {
	if h.stray {
		vjQuiesceQueries()
	}
	vjQuiet(func() {
		if h.Runner != nil {
			h.Runner.Stop()
		}
		if h.Store != nil {
			_ = h.Store.Close()
			h.Store = nil
		}
	})
	_ = os.RemoveAll(h.Dir)
}

// vjQuiesceQueries waits until no query goroutine of a MultiSource run is still working. A run that ends
// with an error returns without waiting for the goroutine it started; that goroutine goes on reading the
// store until it has worked through its start points or parks for ever in a channel send nobody receives.
// Closing the store under it is a shutdown race the product has (ProcessChangesRaw then dereferences the
// nil item of a failed txn.Get) and has nothing to do with the properties checked here, so the harness,
// which opens and closes a store per case inside one process, does not provoke it.
func vjQuiesceQueries() {
	deadline := time.Now().Add(30 * time.Second)
	buf := make([]byte, 1<<20)
	for {
		n := runtime.Stack(buf, true)
		for n == len(buf) {
			buf = make([]byte, 2*len(buf))
			n = runtime.Stack(buf, true)
		}
		busy := false
		for _, g := range bytes.Split(buf[:n], []byte("\n\n")) {
			if !bytes.Contains(g, []byte("processDependency.func1(")) {
				continue
			}
			hdr := g
			if i := bytes.IndexByte(g, '\n'); i >= 0 {
				hdr = g[:i]
			}
			if bytes.Contains(hdr, []byte("[chan send")) {
				continue // parked for good
			}
			busy = true
			break
		}
		if !busy || time.Now().After(deadline) {
			return
		}
		time.Sleep(time.Millisecond)
	}
}

func (h *vjHub) createDataset(name string) *server.Dataset {
	d, err := h.Dsm.CreateDataset(name, nil)
	if err != nil || d == nil {
		panic(fmt.Sprintf("VERIF-INFRA create dataset %s: %v", name, err))
	}
	return d
}

// write stores a batch the way sinks do: JSON wire form -> server.Entity ->
// Dataset.StoreEntities.
func (h *vjHub) write(ds string, es []*kit.Ent) error {
	d := h.Dsm.GetDataset(ds)
	if d == nil {
		return fmt.Errorf("no dataset %s", ds)
	}
	return d.StoreEntities(kit.ToEntities(es))
}

// latest returns the dataset's latest view (one unlimited GetEntities call).
func (h *vjHub) latest(ds string) []*kit.Ent {
	d := h.Dsm.GetDataset(ds)
	if d == nil {
		return nil
	}
	r, err := d.GetEntities("", 0)
	if err != nil {
		panic(fmt.Sprintf("VERIF-INFRA GetEntities %s: %v", ds, err))
	}
	return kit.FromEntities(r.Entities)
}

// changes returns the full (not latest-only) change feed from `since` and the
// next token.
func (h *vjHub) changes(ds string, since uint64) ([]*kit.Ent, uint64) {
	d := h.Dsm.GetDataset(ds)
	if d == nil {
		return nil, since
	}
	c, err := d.GetChanges(since, 0, false)
	if err != nil {
		panic(fmt.Sprintf("VERIF-INFRA GetChanges %s: %v", ds, err))
	}
	return kit.FromEntities(c.Entities), c.NextToken
}

// addJob parses and registers the configuration through the scheduler (so the
// scheduler's validation applies and the job is persisted/scheduled) and
// returns fresh job objects, one per trigger in configuration order, to be run
// synchronously with runJob.
func (h *vjHub) addJob(cfgJSON string) ([]*job, error) {
	cfg, err := h.Sched.Parse([]byte(cfgJSON))
	if err != nil {
		return nil, err
	}
	if err := h.Sched.AddJob(cfg); err != nil {
		return nil, err
	}
	return h.Sched.toTriggeredJobs(cfg)
}

// runJob runs the job on the calling goroutine. Returns the job result stored
// for the job id after the run (nil if none) and the recovered panic value.
func (h *vjHub) runJob(j *job) (res *jobResult, panicked any) {
	func() {
		defer func() { panicked = recover() }()
		j.Run()
	}()
	return h.result(j.id), panicked
}

// result returns the stored jobResult of the job id, nil if there is none.
func (h *vjHub) result(id string) *jobResult {
	r := &jobResult{}
	if err := h.Store.GetObject(server.JobResultIndex, id, r); err != nil || r.ID == "" {
		return nil
	}
	return r
}

// syncState returns the stored SyncJobState (continuation token) of the job.
func (h *vjHub) syncState(id string) *SyncJobState {
	s := &SyncJobState{}
	_ = h.Store.GetObject(server.JobDataIndex, id, s)
	return s
}

// vjJS encodes a transform source for the "Code" field.
func vjJS(code string) string { return base64.StdEncoding.EncodeToString([]byte(code)) }

// vjJob describes a job configuration. Source/Sink/Transform are the raw
// config maps ({"Type":"DatasetSource","Name":"src"}); Transform nil = none.
// Triggers nil = one cron trigger {JobType (default incremental), Schedule
// (default "@every 24h"), OnError}.
type vjJob struct {
	ID        string
	Title     string // default = ID
	Source    map[string]any
	Sink      map[string]any
	Transform map[string]any
	BatchSize int
	JobType   string
	Schedule  string
	OnError   []map[string]any // e.g. {"errorHandler":"log","maxItems":3}
	Triggers  []map[string]any // overrides JobType/Schedule/OnError when set
	Paused    bool
}

func vjJobJSON(j vjJob) string {
	if j.Title == "" {
		j.Title = j.ID
	}
	trig := j.Triggers
	if trig == nil {
		jt := j.JobType
		if jt == "" {
			jt = JobTypeIncremental
		}
		sch := j.Schedule
		if sch == "" {
			sch = "@every 24h"
		}
		t := map[string]any{"triggerType": TriggerTypeCron, "jobType": jt, "schedule": sch}
		if len(j.OnError) > 0 {
			t["onError"] = j.OnError
		}
		trig = []map[string]any{t}
	}
	m := map[string]any{"id": j.ID, "title": j.Title, "source": j.Source, "sink": j.Sink, "triggers": trig}
	if j.Transform != nil {
		m["transform"] = j.Transform
	}
	if j.BatchSize > 0 {
		m["batchSize"] = j.BatchSize
	}
	if j.Paused {
		m["paused"] = true
	}
	b, err := json.Marshal(m)
	if err != nil {
		panic(err)
	}
	return string(b)
}

// vjDatasetSource / vjDatasetSink / vjJSTransform build the common config maps.
func vjDatasetSource(name string, latestOnly bool) map[string]any {
	m := map[string]any{"Type": "DatasetSource", "Name": name}
	if latestOnly {
		m["LatestOnly"] = true
	}
	return m
}

func vjDatasetSink(name string) map[string]any {
	return map[string]any{"Type": "DatasetSink", "Name": name}
}

func vjJSTransform(code string, parallelism int) map[string]any {
	m := map[string]any{"Type": "JavascriptTransform", "Code": vjJS(code)}
	if parallelism > 0 {
		m["Parallelism"] = parallelism
	}
	return m
}
