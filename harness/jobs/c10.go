package jobs

// C10: every source entity reaches the transform exactly once per run, every
// entity the transform returns reaches the sink in source order, an identity
// transform makes the job a plain copy, and running it again adds no change to
// the sink -- for every (entity count, batch size, parallelism).
//
// Each case builds a source dataset of distinct entities (each written once,
// so "source order" is the source's change feed), a JavascriptTransform job
// (incremental or fullsync) registered through Scheduler.AddJob and runs it
// synchronously. All transforms are per-entity maps, so the expected sink
// sequence is the flat map of the source feed, whatever the chunking.
// Observation points:
//   - the transform logs every input id through the documented Log() helper;
//     the hub's logger captures these lines (multiset of inputs per run);
//   - a recording Sink wrapper around the job's real sink records the exact
//     sequence of entities handed to the sink;
//   - the sink dataset's change feed and latest view.
//
// TestVerif_C10         exhaustive box m in 1..48 x p in 1..16 (x transforms), sharded
// TestVerif_C10_sampled rapid-sampled larger cases (n<=300, batch size, p<=32, second wave)
// TestVerifProbe_F08    minimal deterministic cases of finding F08

import (
	"context"
	"encoding/json"
	"fmt"
	"math"
	"os"
	"sort"
	"strings"
	"testing"

	"pgregory.net/rapid"

	"github.com/mimiro-io/datahub/internal/server"
	kit "github.com/mimiro-io/datahub/internal/verifkit"
)

const c10LogPrefix = "c10seen|"

var c10Kinds = []string{"identity", "stamp", "dropodd", "dup", "create", "push"}

// c10Case is one generated case (JSON-serialisable: journal / replay).
type c10Case struct {
	N          int    `json:"n"`          // source entities present before run 1
	K          int    `json:"k"`          // entities added before run 2 (0 = none)
	Batch      int    `json:"batch"`      // job batchSize (0 = default 10000)
	P          int    `json:"p"`          // transform Parallelism
	Full       bool   `json:"full"`       // fullsync job type (else incremental)
	LatestOnly bool   `json:"latestOnly"` // DatasetSource LatestOnly
	Kind       string `json:"kind"`       // transform kind
	WriteChunk int    `json:"writeChunk"` // source written in calls of this many entities (0 = one call)
}

// c10Code renders the JS of a transform kind. p is the store prefix used for
// ids and property names. Every kind logs each input id first.
func c10Code(kind, p string) string {
	head := `function local(id) { return id.substring(id.indexOf(":") + 1); }
function transform_entities(entities) {
  var out = [];
  for (var i = 0; i < entities.length; i++) {
    var e = entities[i];
    Log("` + c10LogPrefix + `" + GetId(e), "info");
`
	tail := `  }
  return out;
}`
	switch kind {
	case "identity":
		// returns the very slice it was given
		return `function transform_entities(entities) {
  for (var i = 0; i < entities.length; i++) { Log("` + c10LogPrefix + `" + GetId(entities[i]), "info"); }
  return entities;
}`
	case "stamp":
		return head + `    var s = NewEntityFrom(e, false, true, true);
    SetId(s, "` + p + `:s-" + local(GetId(e)));
    SetProperty(s, "` + p + `", "src", GetId(e));
    SetProperty(s, "` + p + `", "stamp", 1);
    out.push(s);
` + tail
	case "dropodd":
		return head + `    if (GetProperty(e, "` + p + `", "i", 0) % 2 == 0) { out.push(e); }
` + tail
	case "dup":
		return head + `    out.push(e);
    var d = NewEntityFrom(e, false, true, true);
    SetId(d, GetId(e) + "-dup");
    out.push(d);
` + tail
	case "create":
		return head + `    var c = NewEntity();
    SetId(c, "` + p + `:c-" + local(GetId(e)));
    SetProperty(c, "` + p + `", "k", 7);
    SetProperty(c, "` + p + `", "f", 2.5);
    SetProperty(c, "` + p + `", "big", 12345678901);
    SetProperty(c, "` + p + `", "arr", [1, 2, 3]);
    SetProperty(c, "` + p + `", "lol", [[1, 2], [3]]);
    SetProperty(c, "` + p + `", "mixed", [1, [2, [3, "x"]], "y"]);
    SetProperty(c, "` + p + `", "name", "n-" + local(GetId(e)));
    AddReference(c, "` + p + `", "from", GetId(e));
    out.push(c);
` + tail
	case "push":
		// grows the array it was given and returns it: per chunk the output is the inputs followed
		// by one created entity per input (order across the kinds of element depends on the chunking,
		// so this kind is compared as a multiset)
		return `function local(id) { return id.substring(id.indexOf(":") + 1); }
function transform_entities(entities) {
  var n = entities.length;
  for (var i = 0; i < n; i++) {
    var e = entities[i];
    Log("` + c10LogPrefix + `" + GetId(e), "info");
    var c = NewEntity();
    SetId(c, "` + p + `:c-" + local(GetId(e)));
    SetProperty(c, "` + p + `", "k", 7);
    entities.push(c);
  }
  return entities;
}`
	}
	panic("unknown kind " + kind)
}

// c10Model is the per-entity function of a kind, on observable content.
func c10Model(kind, p string, e *kit.Ent) []*kit.Ent {
	local := e.ID[strings.Index(e.ID, ":")+1:]
	switch kind {
	case "identity":
		return []*kit.Ent{e.Clone()}
	case "stamp":
		s := e.Clone()
		s.ID = p + ":s-" + local
		s.Props[p+":src"] = e.ID
		s.Props[p+":stamp"] = float64(1)
		return []*kit.Ent{s}
	case "dropodd":
		if i, _ := e.Props[p+":i"].(float64); int(i)%2 == 0 {
			return []*kit.Ent{e.Clone()}
		}
		return nil
	case "dup":
		d := e.Clone()
		d.ID = e.ID + "-dup"
		return []*kit.Ent{e.Clone(), d}
	case "push":
		return []*kit.Ent{e.Clone(), {ID: p + ":c-" + local, Props: map[string]any{p + ":k": float64(7)}, Refs: map[string]any{}}}
	case "create":
		return []*kit.Ent{{
			ID: p + ":c-" + local,
			Props: map[string]any{p + ":k": float64(7), p + ":f": 2.5, p + ":big": float64(12345678901),
				p + ":arr": []any{float64(1), float64(2), float64(3)}, p + ":name": "n-" + local,
				p + ":lol":   []any{[]any{float64(1), float64(2)}, []any{float64(3)}},
				p + ":mixed": []any{float64(1), []any{float64(2), []any{float64(3), "x"}}, "y"}},
			Refs: map[string]any{p + ":from": e.ID},
		}}
	}
	panic("unknown kind " + kind)
}

// c10Source builds source entities number from..to-1.
func c10Source(p string, from, to int) []*kit.Ent {
	var out []*kit.Ent
	for i := from; i < to; i++ {
		e := &kit.Ent{
			ID:    fmt.Sprintf("%s:e%d", p, i),
			Props: map[string]any{p + ":i": i, p + ":h": float64(i) + 0.5, p + ":s": fmt.Sprintf("v%d", i)},
			Refs:  map[string]any{},
		}
		if i%3 == 0 {
			e.Refs[p+":next"] = fmt.Sprintf("%s:e%d", p, i+1)
		}
		if i%5 == 0 {
			e.Props[p+":l"] = []any{i, "x", 1.25}
		}
		out = append(out, e)
	}
	return out
}

// c10RecSink records what reaches the sink and forwards to the job's sink.
type c10RecSink struct {
	inner Sink
	seq   []*kit.Ent
	calls int
}

func (s *c10RecSink) GetConfig() map[string]interface{} { return s.inner.GetConfig() }
func (s *c10RecSink) processEntities(runner *Runner, entities []*server.Entity) error {
	s.calls++
	s.seq = append(s.seq, kit.FromEntities(entities)...)
	return s.inner.processEntities(runner, entities)
}
func (s *c10RecSink) startFullSync(runner *Runner) error { return s.inner.startFullSync(runner) }
func (s *c10RecSink) endFullSync(ctx context.Context, runner *Runner) error {
	return s.inner.endFullSync(ctx, runner)
}

// c10F08Shape: input shape of finding F08 for one batch of m entities handed
// to an incremental pipeline whose transform has parallelism p: the rounded
// chunk size leaves a tail uncovered or puts a worker's start beyond the batch.
func c10F08Shape(m, p int) bool {
	if m <= 0 {
		return false
	}
	if m < p {
		p = 1
	}
	psize := int(math.Round(float64(m) / float64(p)))
	return psize*p < m || (p-1)*psize > m
}

// c10BatchSizes lists the sizes of the non-empty batches a run over cnt new
// source entities produces.
func c10BatchSizes(cnt, batch int) []int {
	if batch <= 0 {
		batch = defaultBatchSize
	}
	var out []int
	for cnt > 0 {
		b := batch
		if cnt < b {
			b = cnt
		}
		out = append(out, b)
		cnt -= b
	}
	return out
}

// c10Shape reports whether some batch of the case trips F08's input shape, and
// whether the case is non-trivial (an incremental batch with p>=2 and m>=p).
func c10Shape(c c10Case) (f08, nontrivial bool) {
	if c.Full {
		return false, false // the fullsync pipeline hands whole batches to the transform
	}
	var sizes []int
	sizes = append(sizes, c10BatchSizes(c.N, c.Batch)...)
	sizes = append(sizes, c10BatchSizes(c.K, c.Batch)...)
	sizes = append(sizes, c10BatchSizes(c.N+c.K, c.Batch)...) // run after token reset
	for _, m := range sizes {
		if c10F08Shape(m, c.P) {
			f08 = true
		}
		if c.P >= 2 && m >= c.P {
			nontrivial = true
		}
	}
	return
}

type c10Env struct {
	h   *vjHub
	seq int
}

func newC10Env() *c10Env { return &c10Env{h: newVJHub(vjOpts{CaptureLog: c10LogPrefix})} }

func c10Keys(es []*kit.Ent) []string {
	out := make([]string, len(es))
	for i, e := range es {
		out[i] = e.Key()
	}
	return out
}

func c10Diff(what string, got, want []string) string {
	if len(got) != len(want) {
		gi, wi := c10IDs(got), c10IDs(want)
		return fmt.Sprintf("%s: %d entities, expected %d\n got ids:  %v\n want ids: %v", what, len(got), len(want), gi, wi)
	}
	for i := range got {
		if got[i] != want[i] {
			return fmt.Sprintf("%s: position %d differs\n got:  %s\n want: %s", what, i, got[i], want[i])
		}
	}
	return ""
}

func c10IDs(keys []string) []string {
	out := make([]string, len(keys))
	for i, k := range keys {
		var a []any
		_ = json.Unmarshal([]byte(k), &a)
		if len(a) > 0 {
			out[i] = fmt.Sprint(a[0])
		}
	}
	return out
}

// run executes the case; returns "" or the description of the violation.
// infra != "" reports a harness problem (not a violation).
func (env *c10Env) run(c c10Case) (problem, infra string) {
	h := env.h
	env.seq++
	p := h.P[0]
	src, sink, id := fmt.Sprintf("c10src%d", env.seq), fmt.Sprintf("c10sink%d", env.seq), fmt.Sprintf("c10job%d", env.seq)
	h.createDataset(src)
	h.createDataset(sink)
	write := func(es []*kit.Ent) string {
		ch := c.WriteChunk
		if ch <= 0 {
			ch = len(es)
		}
		for i := 0; i < len(es); i += ch {
			j := i + ch
			if j > len(es) {
				j = len(es)
			}
			if err := h.write(src, es[i:j]); err != nil {
				return fmt.Sprintf("source write failed: %v", err)
			}
		}
		return ""
	}
	if s := write(c10Source(p, 0, c.N)); s != "" {
		return "", s
	}
	jt := JobTypeIncremental
	if c.Full {
		jt = JobTypeFull
	}
	jobs, err := h.addJob(vjJobJSON(vjJob{ID: id, Source: vjDatasetSource(src, c.LatestOnly), Sink: vjDatasetSink(sink),
		Transform: vjJSTransform(c10Code(c.Kind, p), c.P), BatchSize: c.Batch, JobType: jt}))
	if err != nil || len(jobs) != 1 {
		return "", fmt.Sprintf("scheduler rejected the job: %v", err)
	}
	defer func() { _ = h.Sched.DeleteJob(id) }()
	j := jobs[0]
	rec := &c10RecSink{inner: j.pipeline.spec().sink}
	j.pipeline.spec().sink = rec

	// one run: inputs = the source entities this run has to process (in
	// source order); sinkBefore = sink feed before the run.
	runNo := 0
	oneRun := func(inputs []*kit.Ent, wantNewSink []*kit.Ent) string {
		runNo++
		tag := fmt.Sprintf("run %d", runNo)
		h.takeLogs()
		rec.seq, rec.calls = nil, 0
		before, _ := h.changes(sink, 0)
		res, pan := h.runJob(j)
		if pan != nil {
			return fmt.Sprintf("%s: job run panicked (the job runner re-panics: the hub process dies): %v", tag, pan)
		}
		if res == nil {
			return tag + ": no job result stored"
		}
		if res.LastError != "" {
			return fmt.Sprintf("%s: job failed: %s", tag, res.LastError)
		}
		if len(h.Runner.raffle.runningJobs) != 0 {
			return tag + ": run slot not released"
		}
		// (1) every input passed to the transform exactly once
		seen := map[string]int{}
		for _, l := range h.takeLogs() {
			seen[strings.TrimPrefix(l, c10LogPrefix)]++
		}
		var bad []string
		for _, e := range inputs {
			if seen[e.ID] != 1 {
				bad = append(bad, fmt.Sprintf("%s x%d", e.ID, seen[e.ID]))
			}
			delete(seen, e.ID)
		}
		for k, v := range seen {
			bad = append(bad, fmt.Sprintf("%s x%d (not an input of this run)", k, v))
		}
		if len(bad) > 0 {
			sort.Strings(bad)
			return fmt.Sprintf("%s: transform did not see each of the %d source entities exactly once: %v", tag, len(inputs), bad)
		}
		// (2) everything the transform returns reaches the sink in source order
		var want []*kit.Ent
		for _, e := range inputs {
			want = append(want, c10Model(c.Kind, p, e)...)
		}
		ord := func(ks []string) []string {
			if c.Kind == "push" {
				ks = append([]string(nil), ks...)
				sort.Strings(ks)
			}
			return ks
		}
		if d := c10Diff(tag+": sequence handed to the sink", ord(c10Keys(rec.seq)), ord(c10Keys(want))); d != "" {
			return d
		}
		// (3) sink dataset: change feed grows by exactly the expected new versions, in order
		after, _ := h.changes(sink, 0)
		if len(after) < len(before) {
			return fmt.Sprintf("%s: sink feed shrank from %d to %d", tag, len(before), len(after))
		}
		if d := c10Diff(tag+": sink change feed (old part)", c10Keys(after[:len(before)]), c10Keys(before)); d != "" {
			return d
		}
		if d := c10Diff(tag+": new sink changes", ord(c10Keys(after[len(before):])), ord(c10Keys(wantNewSink))); d != "" {
			return d
		}
		return ""
	}
	flat := func(inputs []*kit.Ent) []*kit.Ent {
		var out []*kit.Ent
		for _, e := range inputs {
			out = append(out, c10Model(c.Kind, p, e)...)
		}
		return out
	}
	copyCheck := func(tag string) string {
		if c.Kind != "identity" {
			return ""
		}
		a, b := c10Keys(h.latest(src)), c10Keys(h.latest(sink))
		sort.Strings(a)
		sort.Strings(b)
		return c10Diff(tag+": identity transform, sink latest view vs source latest view", b, a)
	}

	feed1, _ := h.changes(src, 0)
	if len(feed1) != c.N {
		return "", fmt.Sprintf("source feed has %d entries, wrote %d", len(feed1), c.N)
	}
	// run 1: everything
	if s := oneRun(feed1, flat(feed1)); s != "" {
		return s, ""
	}
	if s := copyCheck("after run 1"); s != "" {
		return s, ""
	}
	all := feed1
	if c.K > 0 {
		if s := write(c10Source(p, c.N, c.N+c.K)); s != "" {
			return "", s
		}
		all, _ = h.changes(src, 0)
		if len(all) != c.N+c.K {
			return "", fmt.Sprintf("source feed has %d entries, wrote %d", len(all), c.N+c.K)
		}
		inputs := all[c.N:]
		if c.Full {
			inputs = all
		}
		if s := oneRun(inputs, flat(all[c.N:])); s != "" {
			return s, ""
		}
		if s := copyCheck("after run 2"); s != "" {
			return s, ""
		}
	}
	// run again with nothing new: no new change in the sink
	var inputs []*kit.Ent
	if c.Full {
		inputs = all
	}
	if s := oneRun(inputs, nil); s != "" {
		return s, ""
	}
	if !c.Full {
		// reprocess from the start (Scheduler.ResetJob): same outputs, no new change
		if err := h.Sched.ResetJob(id, ""); err != nil {
			return "", fmt.Sprintf("ResetJob: %v", err)
		}
		if s := oneRun(all, nil); s != "" {
			return s, ""
		}
	}
	if s := copyCheck("at the end"); s != "" {
		return s, ""
	}
	return "", ""
}

// exec journals, runs and records one case. fail is t.Fatalf of the caller.
func (env *c10Env) exec(c c10Case, fail func(format string, args ...any)) {
	f08, nt := c10Shape(c)
	if f08 && kit.Known("F08") {
		kit.S().Exclude("F08: incremental batch of m entities with parallelism p where round(m/p)*p < m or (p-1)*round(m/p) > m")
		return
	}
	kit.Journal(c)
	problem, infra := env.run(c)
	if infra != "" {
		fail("VERIF-INFRA %s\ncase %s", infra, c17JSON(c))
	}
	if problem != "" {
		fail("C10 violated: %s\nVERIF-CASE-BEGIN\n%s\nVERIF-CASE-END", problem, c17JSON(c))
	}
	kit.JournalDone()
	jt := "incremental"
	if c.Full {
		jt = "fullsync"
	}
	cls := []string{"kind:" + c.Kind, "type:" + jt}
	if c.K > 0 {
		cls = append(cls, "second-wave")
	}
	if c.Batch > 0 && c.Batch < c.N {
		cls = append(cls, "multi-batch")
	}
	if !c.Full && c.P > 1 && c.N%c.P != 0 {
		cls = append(cls, "count-not-multiple-of-p")
	}
	kit.S().Case(c, nt, cls...)
}

func c10JSON(c c10Case) string {
	b, _ := json.Marshal(c)
	return string(b)
}

func c10Replay(t *testing.T) *c10Case {
	p := os.Getenv("VERIF_REPLAY_CASE")
	if p == "" {
		return nil
	}
	b, err := os.ReadFile(p)
	if err != nil {
		t.Fatalf("VERIF-INFRA cannot read replay case: %v", err)
	}
	c := &c10Case{}
	if err := json.Unmarshal(b, c); err != nil || c.Kind == "" {
		t.Fatalf("VERIF-INFRA cannot parse replay case: %v", err)
	}
	return c
}

// TestVerif_C10: the exhaustive box. Every (m, p) with m in 1..48 entities in
// one batch and parallelism p in 1..16, for every transform kind on the
// incremental pipeline (where the batch is split), plus the fullsync pipeline
// with a kind chosen by (m+p). Split over VERIF_SHARD/VERIF_SHARDS.
func TestVerif_C10(t *testing.T) {
	defer kit.S().Flush()
	defer kit.CleanupScratch()
	env := newC10Env()
	defer env.h.close()
	if c := c10Replay(t); c != nil {
		env.exec(*c, t.Fatalf)
		return
	}
	shard, shards := kit.EnvInt("VERIF_SHARD", 0), kit.EnvInt("VERIF_SHARDS", 1)
	maxM, maxP := kit.EnvInt("VERIF_C10_MAXM", 48), kit.EnvInt("VERIF_C10_MAXP", 16)
	idx := 0
	for m := 1; m <= maxM; m++ {
		for p := 1; p <= maxP; p++ {
			idx++
			if idx%shards != shard {
				continue
			}
			for _, kind := range c10Kinds {
				env.exec(c10Case{N: m, P: p, Kind: kind}, t.Fatalf)
			}
			// two batches of m: the arithmetic depends on (m, p) only
			env.exec(c10Case{N: 2 * m, Batch: m, P: p, Kind: "stamp"}, t.Fatalf)
			env.exec(c10Case{N: m, P: p, Full: true, Kind: c10Kinds[(m+p)%len(c10Kinds)], LatestOnly: (m+p)%2 == 0}, t.Fatalf)
		}
	}
}

// TestVerif_C10_sampled: larger sampled cases.
func TestVerif_C10_sampled(t *testing.T) {
	defer kit.S().Flush()
	defer kit.CleanupScratch()
	if os.Getenv("VERIF_REPLAY_CASE") != "" {
		return // replayed by TestVerif_C10
	}
	env := newC10Env()
	defer env.h.close()
	rapid.Check(t, func(t *rapid.T) {
		c := c10Case{
			N:    rapid.IntRange(1, 300).Draw(t, "n"),
			P:    rapid.IntRange(1, 32).Draw(t, "p"),
			Kind: rapid.SampledFrom(c10Kinds).Draw(t, "kind"),
			Full: rapid.IntRange(0, 3).Draw(t, "full") == 0,
		}
		switch rapid.IntRange(0, 3).Draw(t, "batchMode") {
		case 0: // default batch size
		case 1:
			c.Batch = rapid.IntRange(1, c.N+5).Draw(t, "batch")
		default: // batches around the parallelism: many chunked batches per run
			c.Batch = rapid.IntRange(c.P, 3*c.P+3).Draw(t, "batch")
			if c.N/c.Batch > 40 {
				c.Batch = c.N/40 + 1
			}
		}
		c.LatestOnly = rapid.Bool().Draw(t, "latestOnly")
		if rapid.Bool().Draw(t, "wave2") {
			c.K = rapid.IntRange(1, 40).Draw(t, "k")
		}
		if rapid.Bool().Draw(t, "chunkedWrite") {
			c.WriteChunk = rapid.IntRange(1, 50).Draw(t, "writeChunk")
		}
		env.exec(c, t.Fatalf)
	})
}

// TestVerifProbe_F08: minimal cases of finding F08 (rounded chunk size): 4
// entities with parallelism 3 lose the last entity; 15 entities with
// parallelism 10 panic with a negative slice length.
func TestVerifProbe_F08(t *testing.T) {
	defer kit.CleanupScratch()
	env := newC10Env()
	defer env.h.close()
	for _, c := range []c10Case{
		{N: 4, P: 3, Kind: "stamp"},
		{N: 7, P: 3, Kind: "identity"},
		{N: 15, P: 10, Kind: "stamp"},
		{N: 10, P: 7, Kind: "dup"},
	} {
		problem, infra := env.run(c)
		if infra != "" {
			t.Fatalf("VERIF-INFRA %s", infra)
		}
		if problem != "" {
			t.Fatalf("F08 present: case %s: %s", c10JSON(c), problem)
		}
	}
}

// ---- a transform that fails for one entity, then is repaired --------------------
//
// "Every entity the transform returns reaches the sink" also has a failure side:
// when the transform throws for an entity, the batch that holds it is not
// delivered at all (no part of it, whatever worker had it), the run is recorded
// as failed and the token stays before that batch; after the transform is
// repaired (the job definition is updated), the next run delivers every source
// entity exactly once, in source order.

type c10ThrowCase struct {
	N     int `json:"n"`
	Batch int `json:"batch"` // 0 = one batch
	P     int `json:"p"`
	K     int `json:"throwAt"` // index of the entity the transform throws for
}

func c10ThrowCode(p string, k int) string {
	return fmt.Sprintf(`function transform_entities(entities) {
  for (var i = 0; i < entities.length; i++) {
    if (GetProperty(entities[i], %q, "i", -1) == %d) { throw new Error("scripted transform failure"); }
  }
  return entities;
}`, p, k)
}

func (env *c10Env) runThrow(c c10ThrowCase) (problem, infra string) {
	h := env.h
	env.seq++
	p := h.P[0]
	src, sink, id := fmt.Sprintf("c10tsrc%d", env.seq), fmt.Sprintf("c10tsink%d", env.seq), fmt.Sprintf("c10tjob%d", env.seq)
	h.createDataset(src)
	h.createDataset(sink)
	if err := h.write(src, c10Source(p, 0, c.N)); err != nil {
		return "", fmt.Sprintf("source write failed: %v", err)
	}
	add := func(code string) (*job, string) {
		jobs, err := h.addJob(vjJobJSON(vjJob{ID: id, Source: vjDatasetSource(src, false), Sink: vjDatasetSink(sink),
			Transform: vjJSTransform(code, c.P), BatchSize: c.Batch, JobType: JobTypeIncremental}))
		if err != nil || len(jobs) != 1 {
			return nil, fmt.Sprintf("scheduler rejected the job: %v", err)
		}
		return jobs[0], ""
	}
	defer func() { _ = h.Sched.DeleteJob(id) }()
	j, s := add(c10ThrowCode(p, c.K))
	if s != "" {
		return "", s
	}
	res, pan := h.runJob(j)
	if pan != nil {
		return fmt.Sprintf("run 1: job run panicked: %v", pan), ""
	}
	if res == nil {
		return "run 1: no job result stored", ""
	}
	feed, _ := h.changes(src, 0)
	b := c.Batch
	if b <= 0 {
		b = c.N
	}
	okPrefix := (c.K / b) * b // entities of the complete batches before the failing one
	got, _ := h.changes(sink, 0)
	if res.LastError == "" {
		return fmt.Sprintf("run 1: the transform threw for entity %d but the run is recorded as successful (sink has %d of %d entities)", c.K, len(got), c.N), ""
	}
	if d := c10Diff("run 1 (transform throws for entity "+fmt.Sprint(c.K)+"): sink change feed vs the batches before the failing one", c10Keys(got), c10Keys(feed[:okPrefix])); d != "" {
		return d, ""
	}
	// the transform is repaired
	j, s = add("function transform_entities(entities) { return entities; }")
	if s != "" {
		return "", s
	}
	res, pan = h.runJob(j)
	if pan != nil {
		return fmt.Sprintf("run 2: job run panicked: %v", pan), ""
	}
	if res == nil || res.LastError != "" {
		return fmt.Sprintf("run 2 (transform repaired): %+v", res), ""
	}
	got, _ = h.changes(sink, 0)
	if d := c10Diff("run 2 (transform repaired): sink change feed vs source change feed", c10Keys(got), c10Keys(feed)); d != "" {
		return d, ""
	}
	if len(h.Runner.raffle.runningJobs) != 0 {
		return "run slot not released", ""
	}
	return "", ""
}

func TestVerif_C10_throw(t *testing.T) {
	defer kit.S().Flush()
	defer kit.CleanupScratch()
	if os.Getenv("VERIF_REPLAY_CASE") != "" {
		return
	}
	env := newC10Env()
	defer env.h.close()
	rapid.Check(t, func(t *rapid.T) {
		n := rapid.IntRange(1, 60).Draw(t, "n")
		c := c10ThrowCase{N: n, P: rapid.IntRange(1, 12).Draw(t, "p"), K: rapid.IntRange(0, n-1).Draw(t, "throwAt")}
		if rapid.Bool().Draw(t, "batched") {
			c.Batch = rapid.IntRange(1, n+1).Draw(t, "batch")
		}
		kit.Journal(c)
		problem, infra := env.runThrow(c)
		if infra != "" {
			t.Fatalf("VERIF-INFRA %s\ncase %s", infra, c17JSON(c))
		}
		if problem != "" {
			t.Fatalf("C10 violated: %s\nVERIF-CASE-BEGIN\n%s\nVERIF-CASE-END", problem, c17JSON(c))
		}
		kit.JournalDone()
		b := c.Batch
		if b <= 0 {
			b = n
		}
		inBatch := n - (c.K/b)*b
		if inBatch > b {
			inBatch = b
		}
		// non-trivial: the failing batch is split over >=2 workers and the failing entity is not in the last chunk
		nt := c.P >= 2 && inBatch >= c.P && (c.K%b) < inBatch*(c.P-1)/c.P
		kit.S().Case(c, nt, "kind:throw-then-repaired")
	})
}
