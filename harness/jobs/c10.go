package jobs

import "testing"

func TestVerif_C10(t *testing.T) {
	h := newVJHub(vjOpts{})
	defer h.close()
}
