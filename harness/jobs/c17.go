package jobs

// C17: per-entity error handling isolates failing entities.
//
// With a log error handler: for every set of entities the sink rejects, every
// other entity of the run is delivered, each rejected entity is reported to
// the handler exactly once, the run stops as failed as soon as maxItems
// rejections were seen, and the recorded outcome carries the error. With a
// reRun handler: at most maxRetries re-executions, each after the configured
// delay, none after success or a kill.
//
// A scripted Sink (permanent per-entity rejections, transient "first k calls
// fail", whole-batch-only "more than w entities fail") records every call; a
// recording wrapper around the LogFailingEntityHandler records every report
// in the same event list. Two drivers share one trace oracle:
//   direct: wrappedSink.processEntities over the run's batches (no store),
//   job:    a SampleSource job registered through Scheduler.AddJob with the
//           onError configuration, scripted sink swapped in (as the package's
//           own error_handler_test does), run synchronously; the stored
//           jobResult is checked as well.
//
// TestVerif_C17          exhaustive: n<=7 (thorough 10) x every failing subset x maxItems 0..n+1 x batch sizes, 3 failure modes; sharded
// TestVerif_C17_sampled  rapid: n<=64, failure patterns, modes, batch sizes, both drivers
// TestVerif_C17_rerun    rapid: reRun handler (ms delays), scripted outcomes fail/ok/kill per execution

import (
	"context"
	"encoding/json"
	"errors"
	"fmt"
	"os"
	"strconv"
	"strings"
	"sync"
	"testing"
	"time"

	"go.uber.org/zap"
	"pgregory.net/rapid"

	jobSource "github.com/mimiro-io/datahub/internal/jobs/source"
	"github.com/mimiro-io/datahub/internal/server"
	kit "github.com/mimiro-io/datahub/internal/verifkit"
)

type c17Case struct {
	Driver    string `json:"driver"`    // "direct" | "job"
	N         int    `json:"n"`         // entities of the run: e-0 .. e-(n-1)
	Fail      []int  `json:"fail"`      // indices the sink rejects permanently
	MaxItems  int    `json:"maxItems"`  // log handler maxItems (0 = unlimited)
	FailFirst int    `json:"failFirst"` // transient: the first k sink calls fail whatever they contain
	MaxOK     int    `json:"maxOK"`     // whole-batch-only: calls with more than this many entities fail (0 = no limit)
	Batch     int    `json:"batch"`     // batch size of the run (0 = one batch / job default)
	Full      bool   `json:"full"`      // job driver: fullsync job type
	Overlap   int    `json:"overlap"`   // job driver, incremental: at this sink call (1-based) another run request for the same job arrives (0 = none)
}

type c17Event struct {
	K string // "D" delivered, "R" reported
	I int
}

type c17Call struct {
	ids []int
	err string // "" = accepted
}

// c17Trace is shared by the scripted sink and the recording handler.
type c17Trace struct {
	events []c17Event
	calls  []c17Call
}

func c17Index(id string) int {
	i := strings.LastIndex(id, "e-")
	if i < 0 {
		return -1
	}
	n, err := strconv.Atoi(id[i+2:])
	if err != nil {
		return -1
	}
	return n
}

type c17Sink struct {
	tr        *c17Trace
	fail      map[int]bool
	failFirst int
	maxOK     int
	overlapAt int
	overlap   func() // a second run request for the same job id (refused: the job is running)
}

func (s *c17Sink) GetConfig() map[string]interface{} {
	return map[string]interface{}{"Type": "DevNullSink"}
}

func (s *c17Sink) processEntities(_ *Runner, entities []*server.Entity) error {
	if s.overlap != nil && len(s.tr.calls)+1 == s.overlapAt {
		s.overlap()
	}
	call := c17Call{}
	for _, e := range entities {
		call.ids = append(call.ids, c17Index(e.ID))
	}
	switch {
	case len(s.tr.calls) < s.failFirst:
		call.err = fmt.Sprintf("scripted sink: transient failure of call %d", len(s.tr.calls)+1)
	case s.maxOK > 0 && len(entities) > s.maxOK:
		call.err = fmt.Sprintf("scripted sink: payload of %d entities too large", len(entities))
	default:
		for _, i := range call.ids {
			if s.fail[i] {
				call.err = fmt.Sprintf("scripted sink: rejects e-%d", i)
				break
			}
		}
	}
	s.tr.calls = append(s.tr.calls, call)
	if call.err != "" {
		return errors.New(call.err)
	}
	for _, i := range call.ids {
		s.tr.events = append(s.tr.events, c17Event{"D", i})
	}
	return nil
}
func (s *c17Sink) startFullSync(*Runner) error                { return nil }
func (s *c17Sink) endFullSync(context.Context, *Runner) error { return nil }

type c17RecHandler struct {
	inner failingEntityHandler
	tr    *c17Trace
}

func (r *c17RecHandler) handleFailingEntity(runner *Runner, entity *server.Entity, jobID string) error {
	r.tr.events = append(r.tr.events, c17Event{"R", c17Index(entity.ID)})
	return r.inner.handleFailingEntity(runner, entity, jobID)
}
func (r *c17RecHandler) reset() { r.inner.reset() }

// c17Outcome is what a driver observed besides the trace.
type c17Outcome struct {
	stopped   bool   // the run ended with MaxItemsExceededError (direct) / is known to have stopped (job: derived from the trace)
	otherErr  string // direct: an error that is neither nil nor MaxItemsExceededError
	hasResult bool   // job: a jobResult was stored
	lastError string // job: jobResult.LastError
	job       bool
}

// c17Oracle checks a trace against the statement. All rules are stated on
// what the scripted sink did (its calls and answers), so they hold for every
// failure mode; for purely permanent failures the input-derived expectations
// are checked in addition.
func c17Oracle(c c17Case, tr *c17Trace, o c17Outcome) string {
	rejectedSingle := map[int]bool{}
	sinkErrs := map[string]bool{}
	for _, cl := range tr.calls {
		if cl.err != "" {
			sinkErrs[cl.err] = true
			if len(cl.ids) == 1 {
				rejectedSingle[cl.ids[0]] = true
			}
		}
	}
	delivered, reported := map[int]int{}, map[int]int{}
	nReports, stopAt := 0, -1
	for k, ev := range tr.events {
		if ev.I < 0 || ev.I >= c.N {
			return fmt.Sprintf("event for unknown entity %d", ev.I)
		}
		if stopAt >= 0 {
			return fmt.Sprintf("%s of e-%d after the run had to stop (maxItems=%d reached with event %d)", map[string]string{"D": "delivery", "R": "report"}[ev.K], ev.I, c.MaxItems, stopAt)
		}
		switch ev.K {
		case "D":
			delivered[ev.I]++
			if delivered[ev.I] > 1 {
				return fmt.Sprintf("e-%d delivered twice", ev.I)
			}
		case "R":
			reported[ev.I]++
			nReports++
			if reported[ev.I] > 1 {
				return fmt.Sprintf("e-%d reported twice", ev.I)
			}
			if !rejectedSingle[ev.I] {
				return fmt.Sprintf("e-%d reported but the sink never rejected it on its own", ev.I)
			}
			if c.MaxItems > 0 && nReports == c.MaxItems {
				stopAt = k
			}
		}
	}
	for i := range delivered {
		if reported[i] > 0 {
			return fmt.Sprintf("e-%d both delivered and reported", i)
		}
	}
	mustStop := stopAt >= 0
	if o.otherErr != "" {
		return "run returned an unexpected error: " + o.otherErr
	}
	if !o.job {
		if mustStop && !o.stopped {
			return fmt.Sprintf("maxItems=%d rejections were reported but the run did not stop with MaxItemsExceededError", c.MaxItems)
		}
		if !mustStop && o.stopped {
			return fmt.Sprintf("run stopped with MaxItemsExceededError after %d reports, maxItems=%d", nReports, c.MaxItems)
		}
	}
	if !mustStop {
		// the run went on to the end: nothing may be missing
		for i := 0; i < c.N; i++ {
			if delivered[i] == 0 && reported[i] == 0 {
				return fmt.Sprintf("e-%d neither delivered nor reported (delivered=%d reported=%d of %d)", i, len(delivered), len(reported), c.N)
			}
		}
	}
	if c.FailFirst == 0 {
		// permanent failures only: expectations derived from the input
		nf := len(c.Fail)
		wantStop := c.MaxItems > 0 && nf >= c.MaxItems
		if wantStop != mustStop {
			return fmt.Sprintf("%d failing entities, maxItems=%d: stop expected=%v, reports seen=%d", nf, c.MaxItems, wantStop, nReports)
		}
		if !wantStop && nReports != nf {
			return fmt.Sprintf("%d failing entities but %d reports", nf, nReports)
		}
		for _, f := range c.Fail {
			if delivered[f] > 0 {
				return fmt.Sprintf("failing e-%d delivered", f)
			}
		}
	}
	if o.job {
		if !o.hasResult {
			return "no job result stored"
		}
		if mustStop {
			if o.lastError == "" {
				return "run stopped at maxItems but the stored result has no error"
			}
			if !sinkErrs[o.lastError] {
				return fmt.Sprintf("stored result carries %q, which is none of the sink's errors of this run", o.lastError)
			}
		}
		if nReports > 0 && !mustStop {
			// entities were rejected and reported, the run went on to its end: the recorded outcome
			// carries the error (wherever in the run the rejected entities were, whatever the batch size)
			if o.lastError == "" {
				return fmt.Sprintf("%d entities were rejected and reported but the stored result has no error", nReports)
			}
			if !sinkErrs[o.lastError] {
				return fmt.Sprintf("stored result carries %q, which is none of the sink's errors of this run", o.lastError)
			}
		}
		if len(sinkErrs) == 0 && o.lastError != "" {
			return fmt.Sprintf("the sink accepted every call but the stored result has error %q", o.lastError)
		}
	}
	return ""
}

func c17Ents(p string, from, to int) []*server.Entity {
	var es []*kit.Ent
	for i := from; i < to; i++ {
		es = append(es, &kit.Ent{ID: fmt.Sprintf("%s:e-%d", p, i), Props: map[string]any{p + ":i": i}, Refs: map[string]any{}})
	}
	return kit.ToEntities(es)
}

func c17NewSink(c c17Case, tr *c17Trace) *c17Sink {
	s := &c17Sink{tr: tr, fail: map[int]bool{}, failFirst: c.FailFirst, maxOK: c.MaxOK}
	for _, f := range c.Fail {
		s.fail[f] = true
	}
	return s
}

var c17NopRunner = &Runner{logger: zap.NewNop().Sugar()}

// c17Direct drives wrappedSink over the batches of the run, as the pipeline
// does: stop at the first error.
func c17Direct(c c17Case) string {
	tr := &c17Trace{}
	h := &c17RecHandler{inner: &LogFailingEntityHandler{MaxItems: c.MaxItems}, tr: tr}
	w := &wrappedSink{s: c17NewSink(c, tr), failingEntityHandlers: []failingEntityHandler{h}, jobId: "j"}
	b := c.Batch
	if b <= 0 {
		b = c.N
	}
	o := c17Outcome{}
	for from := 0; from < c.N; from += b {
		to := from + b
		if to > c.N {
			to = c.N
		}
		err := w.processEntities(c17NopRunner, c17Ents("ns9", from, to))
		if errors.Is(err, MaxItemsExceededError) {
			o.stopped = true
			break
		}
		if err != nil {
			o.otherErr = err.Error()
			break
		}
	}
	if o.stopped && w.lastError == nil {
		return "run stopped at maxItems but wrappedSink.lastError (the error the recorded outcome is taken from) is not set"
	}
	return c17Oracle(c, tr, o)
}

type c17Env struct {
	h   *vjHub
	seq int
}

// c17Job drives a real job. infra != "" = harness problem.
func (env *c17Env) job(c c17Case) (problem, infra string) {
	h := env.h
	env.seq++
	id := fmt.Sprintf("c17job%d", env.seq)
	jt := JobTypeIncremental
	if c.Full {
		jt = JobTypeFull
	}
	jobs, err := h.addJob(vjJobJSON(vjJob{ID: id, Source: map[string]any{"Type": "SampleSource", "NumberOfEntities": c.N},
		Sink: map[string]any{"Type": "DevNullSink"}, BatchSize: c.Batch, JobType: jt,
		OnError: []map[string]any{{"errorHandler": "log", "maxItems": c.MaxItems}}}))
	if err != nil || len(jobs) != 1 {
		return "", fmt.Sprintf("scheduler rejected the job: %v", err)
	}
	defer func() { _ = h.Sched.DeleteJob(id) }()
	j := jobs[0]
	if len(j.errorHandlers) != 1 || j.errorHandlers[0].failingEntityHandler == nil {
		return "", "log handler not initialised by the scheduler"
	}
	tr := &c17Trace{}
	j.errorHandlers[0].failingEntityHandler = &c17RecHandler{inner: j.errorHandlers[0].failingEntityHandler, tr: tr}
	sink := c17NewSink(c, tr)
	overlapped := false
	if c.Overlap > 0 && !c.Full {
		// an on-change event, a retry timer or a manual run request arriving while the job runs: the
		// request is refused (one run per job id) and must not disturb the run in progress
		sink.overlapAt = c.Overlap
		sink.overlap = func() {
			done := make(chan struct{})
			go func() { defer close(done); defer func() { _ = recover() }(); j.Run() }()
			select {
			case <-done:
				overlapped = true
			case <-time.After(10 * time.Second):
			}
		}
	}
	j.pipeline.spec().sink = sink
	res, pan := h.runJob(j)
	if overlapped {
		kit.S().Class("overlapping-run-request", 1)
	}
	if pan != nil {
		return fmt.Sprintf("job run panicked: %v", pan), ""
	}
	o := c17Outcome{job: true}
	if res != nil {
		o.hasResult = true
		o.lastError = res.LastError
		if res.End.Before(res.Start) {
			return "stored result ends before it starts", ""
		}
	}
	if len(h.Runner.raffle.runningJobs) != 0 {
		return "run slot not released", ""
	}
	return c17Oracle(c, tr, o), ""
}

func (env *c17Env) exec(c c17Case, fail func(format string, args ...any)) {
	kit.Journal(c)
	var problem, infra string
	if c.Driver == "job" {
		problem, infra = env.job(c)
	} else {
		problem = c17Direct(c)
	}
	if infra != "" {
		fail("VERIF-INFRA %s\ncase %s", infra, c17JSON(c))
	}
	if problem != "" {
		fail("C17 violated: %s\nVERIF-CASE-BEGIN\n%s\nVERIF-CASE-END", problem, c17JSON(c))
	}
	kit.JournalDone()
	// non-trivial: some batch of >= 2 entities holds both a failing and a
	// passing entity (bisection has to separate them)
	nt := false
	b := c.Batch
	if b <= 0 {
		b = c.N
	}
	failing := map[int]bool{}
	for _, f := range c.Fail {
		failing[f] = true
	}
	for from := 0; from < c.N && !nt; from += b {
		nf, sz := 0, 0
		for i := from; i < from+b && i < c.N; i++ {
			sz++
			if failing[i] {
				nf++
			}
		}
		nt = sz >= 2 && nf > 0 && nf < sz
	}
	mode := "permanent"
	if c.FailFirst > 0 {
		mode = "transient"
		nt = nt || c.FailFirst >= 2
	} else if c.MaxOK > 0 {
		mode = "whole-batch-only"
	}
	cls := []string{"driver:" + c.Driver, "mode:" + mode}
	if c.MaxItems > 0 && len(c.Fail) >= c.MaxItems && c.FailFirst == 0 {
		cls = append(cls, "stops-at-maxItems")
	}
	if c.Batch > 0 && c.Batch < c.N {
		cls = append(cls, "multi-batch")
	}
	kit.S().Case(c, nt, cls...)
}

func c17JSON(c any) string {
	b, _ := json.Marshal(c)
	return string(b)
}

func c17MaskToList(mask uint64, n int) []int {
	out := []int{}
	for i := 0; i < n; i++ {
		if mask&(1<<uint(i)) != 0 {
			out = append(out, i)
		}
	}
	return out
}

func c17ReplayFile(t *testing.T, v any) bool {
	p := os.Getenv("VERIF_REPLAY_CASE")
	if p == "" {
		return false
	}
	b, err := os.ReadFile(p)
	if err != nil {
		t.Fatalf("VERIF-INFRA cannot read replay case: %v", err)
	}
	if err := json.Unmarshal(b, v); err != nil {
		t.Fatalf("VERIF-INFRA cannot parse replay case: %v", err)
	}
	return true
}

// TestVerif_C17: exhaustive enumeration, sharded by case index.
func TestVerif_C17(t *testing.T) {
	defer kit.S().Flush()
	defer kit.CleanupScratch()
	env := &c17Env{h: newVJHub(vjOpts{})}
	defer env.h.close()
	var rc c17Case
	if c17ReplayFile(t, &rc) {
		if rc.Driver != "" {
			env.exec(rc, t.Fatalf)
		}
		return
	}
	shard, shards := kit.EnvInt("VERIF_SHARD", 0), kit.EnvInt("VERIF_SHARDS", 1)
	maxN := kit.EnvInt("VERIF_C17_MAXN", 7)
	jobMaxN := kit.EnvInt("VERIF_C17_JOBMAXN", 6)
	idx := 0
	mine := func() bool { idx++; return idx%shards == shard }
	for n := 1; n <= maxN; n++ {
		for mask := uint64(0); mask < 1<<uint(n); mask++ {
			fail := c17MaskToList(mask, n)
			for maxItems := 0; maxItems <= n+1; maxItems++ {
				if !mine() {
					continue
				}
				// permanent failures, every batch size
				for b := 1; b <= n; b++ {
					env.exec(c17Case{Driver: "direct", N: n, Fail: fail, MaxItems: maxItems, Batch: b}, t.Fatalf)
				}
				// whole-batch-only on top: calls above w entities fail
				for w := 1; w < n; w++ {
					env.exec(c17Case{Driver: "direct", N: n, Fail: fail, MaxItems: maxItems, MaxOK: w}, t.Fatalf)
				}
				// through a real job: one batch, batches of 1, 2 and n-1
				if n <= jobMaxN {
					for _, b := range []int{0, 1, 2, n - 1} {
						if b < 0 || b >= n && b != 0 {
							continue
						}
						if b == 2 && n-1 == 2 {
							continue
						}
						env.exec(c17Case{Driver: "job", N: n, Fail: fail, MaxItems: maxItems, Batch: b, Full: (n+maxItems)%3 == 0}, t.Fatalf)
					}
				}
			}
		}
		// transient: the first k calls fail, with and without permanent failures
		for k := 1; k <= 2*n+1; k++ {
			for maxItems := 0; maxItems <= n+1; maxItems++ {
				for b := 1; b <= n; b++ {
					if !mine() {
						continue
					}
					env.exec(c17Case{Driver: "direct", N: n, MaxItems: maxItems, FailFirst: k, Batch: b}, t.Fatalf)
					env.exec(c17Case{Driver: "direct", N: n, Fail: []int{n - 1}, MaxItems: maxItems, FailFirst: k, Batch: b}, t.Fatalf)
					if n <= jobMaxN {
						env.exec(c17Case{Driver: "job", N: n, Fail: []int{0}, MaxItems: maxItems, FailFirst: k, Batch: b}, t.Fatalf)
					}
				}
			}
		}
	}
}

// TestVerif_C17_sampled: larger batches, sampled.
func TestVerif_C17_sampled(t *testing.T) {
	defer kit.S().Flush()
	defer kit.CleanupScratch()
	if os.Getenv("VERIF_REPLAY_CASE") != "" {
		return
	}
	env := &c17Env{h: newVJHub(vjOpts{})}
	defer env.h.close()
	rapid.Check(t, func(t *rapid.T) {
		n := rapid.IntRange(2, 64).Draw(t, "n")
		c := c17Case{Driver: rapid.SampledFrom([]string{"direct", "job"}).Draw(t, "driver"), N: n}
		switch rapid.IntRange(0, 4).Draw(t, "pattern") {
		case 0: // a few
			k := rapid.IntRange(1, 3).Draw(t, "few")
			seen := map[int]bool{}
			for i := 0; i < k; i++ {
				seen[rapid.IntRange(0, n-1).Draw(t, "f")] = true
			}
			c.Fail = c17MaskToListSet(seen, n)
		case 1: // each with probability 1/2
			seen := map[int]bool{}
			for i := 0; i < n; i++ {
				if rapid.Bool().Draw(t, "f") {
					seen[i] = true
				}
			}
			c.Fail = c17MaskToListSet(seen, n)
		case 2: // a contiguous block
			a := rapid.IntRange(0, n-1).Draw(t, "from")
			b := rapid.IntRange(a, n-1).Draw(t, "to")
			seen := map[int]bool{}
			for i := a; i <= b; i++ {
				seen[i] = true
			}
			c.Fail = c17MaskToListSet(seen, n)
		case 3: // all but a few
			seen := map[int]bool{}
			for i := 0; i < n; i++ {
				seen[i] = true
			}
			for i := rapid.IntRange(0, 3).Draw(t, "spared"); i > 0; i-- {
				delete(seen, rapid.IntRange(0, n-1).Draw(t, "s"))
			}
			c.Fail = c17MaskToListSet(seen, n)
		default:
			c.Fail = []int{}
		}
		switch rapid.IntRange(0, 3).Draw(t, "maxItemsMode") {
		case 0:
			c.MaxItems = 0
		case 1:
			c.MaxItems = rapid.IntRange(1, len(c.Fail)+1).Draw(t, "maxItems")
		default:
			c.MaxItems = rapid.IntRange(1, n+1).Draw(t, "maxItems")
		}
		switch rapid.IntRange(0, 3).Draw(t, "mode") {
		case 0:
			c.FailFirst = rapid.IntRange(1, 2*n).Draw(t, "failFirst")
		case 1:
			c.MaxOK = rapid.IntRange(1, n).Draw(t, "maxOK")
		}
		if rapid.Bool().Draw(t, "batched") {
			c.Batch = rapid.IntRange(1, n+2).Draw(t, "batch")
		}
		if c.Driver == "job" {
			c.Full = rapid.IntRange(0, 3).Draw(t, "full") == 0
			if !c.Full && rapid.IntRange(0, 2).Draw(t, "overlapping") == 0 {
				c.Overlap = rapid.IntRange(1, 2*n).Draw(t, "overlapAt")
			}
		}
		env.exec(c, t.Fatalf)
	})
}

func c17MaskToListSet(seen map[int]bool, n int) []int {
	out := []int{}
	for i := 0; i < n; i++ {
		if seen[i] {
			out = append(out, i)
		}
	}
	return out
}

// ---- reRun -----------------------------------------------------------------

type c17RerunCase struct {
	Rerun      bool     `json:"rerun"`      // marks the case type in journals
	MaxRetries int      `json:"maxRetries"` // configured value; 0 = not set (default 1)
	DelayMs    int      `json:"delayMs"`
	Script     []string `json:"script"` // outcome of execution i: fail | ok | kill; beyond the script: fail
	WithLog    bool     `json:"withLog"`
	AtSink     bool     `json:"atSink"` // "fail" is a sink rejection instead of a source error
	// ExtraTrigger: a second scheduled run of the job arrives right after the first one ended, i.e.
	// while the retry of the first one is still waiting for its delay. The retry budget is one for
	// the job: all in all at most 2 + maxRetries executions.
	ExtraTrigger bool `json:"extraTrigger,omitempty"`
	// Full: the job is a fullsync job (FullSyncPipeline has its own interrupt and error returns)
	Full bool `json:"full,omitempty"`
}

type c17Exec struct {
	start, end time.Time
	outcome    string
}

// c17Source is a scripted source.Source: one ReadEntities call per execution.
type c17Source struct {
	mu     sync.Mutex
	execs  []c17Exec
	script []string
	atSink bool
	kill   func()
	p      string
}

func (s *c17Source) GetConfig() map[string]interface{} {
	return map[string]interface{}{"Type": "ScriptedSource"}
}
func (s *c17Source) StartFullSync() {}
func (s *c17Source) EndFullSync()   {}
func (s *c17Source) outcomeOf(i int) string {
	if i < len(s.script) {
		return s.script[i]
	}
	return "fail"
}

func (s *c17Source) ReadEntities(ctx context.Context, since jobSource.DatasetContinuation, batchSize int,
	process func([]*server.Entity, jobSource.DatasetContinuation) error) error {
	s.mu.Lock()
	idx := len(s.execs)
	oc := s.outcomeOf(idx)
	s.execs = append(s.execs, c17Exec{start: time.Now(), outcome: oc})
	s.mu.Unlock()
	var err error
	switch {
	case oc == "kill":
		s.kill()
		err = process(c17Ents(s.p, 0, 1), &jobSource.StringDatasetContinuation{})
	case oc == "fail" && !s.atSink:
		err = errors.New("scripted source failure")
	default: // ok, or a failure the sink produces
		err = process(c17Ents(s.p, 0, 1), &jobSource.StringDatasetContinuation{})
	}
	s.mu.Lock()
	s.execs[idx].end = time.Now()
	s.mu.Unlock()
	return err
}

// c17RerunSink fails while the current execution's outcome is "fail".
type c17RerunSink struct{ src *c17Source }

func (s *c17RerunSink) GetConfig() map[string]interface{} {
	return map[string]interface{}{"Type": "DevNullSink"}
}
func (s *c17RerunSink) processEntities(*Runner, []*server.Entity) error {
	s.src.mu.Lock()
	oc := s.src.execs[len(s.src.execs)-1].outcome
	s.src.mu.Unlock()
	if oc == "fail" && s.src.atSink {
		return errors.New("scripted sink failure")
	}
	return nil
}
func (s *c17RerunSink) startFullSync(*Runner) error                { return nil }
func (s *c17RerunSink) endFullSync(context.Context, *Runner) error { return nil }

func (env *c17Env) rerun(c c17RerunCase) (problem, infra string, inconclusive bool) {
	h := env.h
	env.seq++
	id := fmt.Sprintf("c17rr%d", env.seq)
	onErr := []map[string]any{}
	if c.WithLog {
		onErr = append(onErr, map[string]any{"errorHandler": "log"})
	}
	rr := map[string]any{"errorHandler": "reRun", "retryDelay": 1}
	if c.MaxRetries > 0 {
		rr["maxRetries"] = c.MaxRetries
	}
	onErr = append(onErr, rr)
	jobType := ""
	if c.Full {
		jobType = "fullsync"
	}
	jobs, err := h.addJob(vjJobJSON(vjJob{ID: id, Source: map[string]any{"Type": "SampleSource", "NumberOfEntities": 1},
		Sink: map[string]any{"Type": "DevNullSink"}, OnError: onErr, JobType: jobType}))
	if err != nil || len(jobs) != 1 {
		return "", fmt.Sprintf("scheduler rejected the job: %v", err), false
	}
	defer func() { _ = h.Sched.DeleteJob(id) }()
	j := jobs[0]
	effRetries := c.MaxRetries
	if effRetries == 0 {
		effRetries = 1 // documented in verifyErrorHandlers: default 1
	}
	delay := time.Duration(c.DelayMs) * time.Millisecond
	found := false
	for _, eh := range j.errorHandlers {
		if eh.Type == ErrorHandlerReRun {
			if eh.MaxRetries != effRetries {
				return "", fmt.Sprintf("scheduler set MaxRetries=%d for configured %d", eh.MaxRetries, c.MaxRetries), false
			}
			eh.RetryDelay = int64(delay) // configured in seconds; the harness shortens it to milliseconds
			found = true
		}
	}
	if !found {
		return "", "reRun handler missing on the job", false
	}
	src := &c17Source{script: c.Script, atSink: c.AtSink, p: "ns9", kill: func() { h.Sched.KillJob(id) }}
	j.pipeline.spec().source = src
	j.pipeline.spec().sink = &c17RerunSink{src: src}

	// expected executions: re-executed while the previous one failed and retries remain
	want, left := 1, effRetries
	for i := 0; src.outcomeOf(i) == "fail" && left > 0; i++ {
		want++
		left--
	}
	var pan any
	func() {
		defer func() { pan = recover() }()
		j.Run()
	}()
	if pan != nil {
		return fmt.Sprintf("job run panicked: %v", pan), "", false
	}
	triggers := 1
	if c.ExtraTrigger {
		triggers = 2
		func() {
			defer func() { pan = recover() }()
			j.Run()
		}()
		if pan != nil {
			return fmt.Sprintf("job run panicked: %v", pan), "", false
		}
	}
	count := func() int { src.mu.Lock(); defer src.mu.Unlock(); return len(src.execs) }
	if c.ExtraTrigger {
		want = triggers // both scheduled runs have happened; retries, if any, follow within the wait below
	}
	deadline := time.Now().Add(3 * time.Second)
	for count() < want && time.Now().Before(deadline) {
		time.Sleep(time.Millisecond)
	}
	reached := count() >= want
	// let a surplus execution show up
	time.Sleep(time.Duration(effRetries+3)*delay + 40*time.Millisecond)
	for k := 0; k < 200 && len(h.Runner.raffle.runningJobs) > 0; k++ {
		time.Sleep(time.Millisecond)
	}
	src.mu.Lock()
	execs := append([]c17Exec(nil), src.execs...)
	src.mu.Unlock()
	if len(execs) > triggers+effRetries {
		return fmt.Sprintf("%d executions after %d scheduled run(s), maxRetries=%d allows %d", len(execs), triggers, effRetries, triggers+effRetries), "", false
	}
	if c.ExtraTrigger {
		// which execution is a retry of which cannot be told apart here: the count is the check
		return "", "", false
	}
	for i := 1; i < len(execs); i++ {
		prev := execs[i-1]
		if prev.outcome != "fail" {
			return fmt.Sprintf("execution %d happened after execution %d ended as %q", i+1, i, prev.outcome), "", false
		}
		if !prev.end.IsZero() {
			if gap := execs[i].start.Sub(prev.end); gap < delay {
				return fmt.Sprintf("execution %d started %v after the failed execution %d, configured delay %v", i+1, gap, i, delay), "", false
			}
		}
	}
	if !reached {
		return "", "", true // slow machine or missing retry: never a violation by itself
	}
	return "", "", false
}

// TestVerif_C17_rerun: reRun handler.
func TestVerif_C17_rerun(t *testing.T) {
	defer kit.S().Flush()
	defer kit.CleanupScratch()
	env := &c17Env{h: newVJHub(vjOpts{})}
	defer func() { time.Sleep(400 * time.Millisecond); env.h.close() }()
	run := func(c c17RerunCase, fail func(format string, args ...any)) {
		kit.Journal(c)
		problem, infra, inconcl := env.rerun(c)
		if infra != "" {
			fail("VERIF-INFRA %s\ncase %s", infra, c17JSON(c))
		}
		if problem != "" {
			fail("C17 violated (reRun): %s\nVERIF-CASE-BEGIN\n%s\nVERIF-CASE-END", problem, c17JSON(c))
		}
		kit.JournalDone()
		if inconcl {
			kit.S().Inconcl()
			return
		}
		nt := len(c.Script) > 0 && c.Script[0] == "fail"
		cls := []string{"driver:rerun"}
		for _, s := range c.Script {
			if s == "kill" {
				cls = append(cls, "rerun-with-kill")
				break
			}
		}
		if c.Full {
			cls = append(cls, "rerun-fullsync-job")
		}
		kit.S().Case(c, nt, cls...)
	}
	var rc c17RerunCase
	if c17ReplayFile(t, &rc) {
		if rc.Rerun {
			run(rc, t.Fatalf)
		}
		return
	}
	rapid.Check(t, func(t *rapid.T) {
		c := c17RerunCase{Rerun: true,
			MaxRetries: rapid.IntRange(0, 3).Draw(t, "maxRetries"),
			DelayMs:    rapid.IntRange(1, 6).Draw(t, "delayMs"),
			WithLog:    rapid.Bool().Draw(t, "withLog"),
			AtSink:     rapid.Bool().Draw(t, "atSink"),
			Full:       rapid.IntRange(0, 2).Draw(t, "fullsync") == 0,
		}
		n := rapid.IntRange(0, 5).Draw(t, "scriptLen")
		for i := 0; i < n; i++ {
			c.Script = append(c.Script, rapid.SampledFrom([]string{"fail", "fail", "ok", "kill"}).Draw(t, "outcome"))
		}
		if rapid.IntRange(0, 3).Draw(t, "extraTrigger") == 0 {
			c.ExtraTrigger = true
			c.DelayMs = rapid.IntRange(30, 60).Draw(t, "longDelayMs")
			c.MaxRetries = rapid.IntRange(0, 2).Draw(t, "fewRetries")
		}
		run(c, t.Fatalf)
	})
}

// F32 (fixed): with a log handler and batch size 1 a rejected entity is a batch
// that is not split; wrappedSink took "no batch was split so far" for "nothing
// failed so far" and unset the error at the next accepted batch: the run was
// recorded as successful (and a reRun handler never fired) although entities
// had been rejected. Batch sizes >= 2 recorded the error.
func TestVerifProbe_F32(t *testing.T) {
	defer kit.CleanupScratch()
	env := &c17Env{h: newVJHub(vjOpts{})}
	defer env.h.close()
	for _, b := range []int{1, 2} {
		if p, infra := env.job(c17Case{Driver: "job", N: 4, Fail: []int{0}, Batch: b}); infra != "" {
			t.Fatalf("VERIF-INFRA %s", infra)
		} else if p != "" {
			t.Fatalf("F32 present (batch size %d, entity 0 of 4 rejected): %s", b, p)
		}
	}
}
