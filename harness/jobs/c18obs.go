package jobs

import (
	"fmt"
	"os"
	"testing"

	kit "github.com/mimiro-io/datahub/internal/verifkit"
)

// TestVerifObs_C18_shutdown is not a check and not registered: it demonstrates the observation recorded in
// DESIGN.md 12 (the query goroutine of a MultiSource run that ended with an error goes on reading the store;
// closing the store under it makes ProcessChangesRaw dereference a nil item). Run by hand with
// VERIF_OBS=1; with VERIF_OBS=quiesce the store is closed the way the harness does it and nothing happens.
func TestVerifObs_C18_shutdown(t *testing.T) {
	mode := os.Getenv("VERIF_OBS")
	if mode == "" {
		t.Skip("observation, run by hand")
	}
	defer kit.CleanupScratch()
	for round := 0; round < 20; round++ {
		h := newVJHub(vjOpts{})
		p := h.P[0]
		j0 := p + ":j0"
		cfg := c18Cfg{Hops: []c18Hop{{DS: "main", Pred: j0, Inverse: false}}, Via: "json", Batch: 1}
		c := newC18M(t, h, cfg)
		none := map[string]any{}
		c.write(c18Op{K: "write", DS: "main", Ents: []*kit.Ent{{ID: p + ":m0", Props: none, Refs: none}}})
		c.write(c18Op{K: "write", DS: "dep", Ents: []*kit.Ent{{ID: p + ":d0", Props: none, Refs: map[string]any{j0: p + ":m0"}}}})
		c.sync(0)
		// d0 changes (its main entity is emitted, the sink refuses it); 400 more changed entities link to nothing
		ents := []*kit.Ent{{ID: p + ":d0", Props: map[string]any{p + ":x": "1"}, Refs: map[string]any{j0: p + ":m0"}}}
		for i := 1; i <= 400; i++ {
			ents = append(ents, &kit.Ent{ID: fmt.Sprintf("%s:d%d", p, i), Props: none, Refs: map[string]any{j0: fmt.Sprintf("%s:nobody%d", p, i)}})
		}
		c.write(c18Op{K: "write", DS: "dep", Ents: ents})
		c.rec.got, c.rec.calls, c.rec.failAt, c.rec.fired = nil, 0, 1, false
		res, pn := h.runJob(c.j)
		if pn != nil || res == nil || res.LastError == "" {
			t.Fatalf("round %d: expected a failed run, got %+v %v", round, res, pn)
		}
		if mode == "quiesce" {
			h.stray = true
		} else {
			h.stray = false
		}
		h.close()
	}
}
