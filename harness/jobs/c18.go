package jobs

// C18: MultiSource dependency tracking re-emits every affected main entity.
//
// Real pipeline (Scheduler.AddJob -> toTriggeredJobs -> synchronous job.Run()),
// real MultiSource, recording sink. A case draws a join path
// dep -> [link ->] [link2 ->] main of 1-3 hops with a direction per hop,
// declares it as JSON "Dependencies" or through the transform's
// track_queries(), and a history of writes to main / link / link2 / dep
// (disjoint id pools; rewiring and deleting links). After each write phase the
// job is run until its continuation token stops changing.
//
// Oracle per phase (model = kit.Model of the four datasets):
//
//	expected = main entities that got a new change in the phase
//	  ∪ for every dependency D (the declared one and, per the documentation,
//	    every intermediate join dataset with the remaining joins) and every
//	    entity x of D's dataset that got a new change in the phase:
//	      the live main entities reached from x along D's joins in the model
//	      graph as it stands when the job runs, where the FIRST join, if it is
//	      an outgoing one, is also followed in the model graph of the previous
//	      phase (removed first-hop link)
//	emitted ⊇ expected   (a superset is fine: the statement is a completeness claim);
//	  emitted = what the sink accepted; a sync may inject one sink failure, the
//	  failed run's refused batch does not count and the following runs must
//	  deliver it (tokens only advance past changes that were processed)
//	every emitted entity is a version of an entity of the main dataset
//	main token and every dependency token: readable, never beyond the end of
//	that dataset's change feed, never moving backwards
//
// Finding F24 (removed-link lookup inside a write batch): input shape "the job
// page holding an entity's first change of the phase starts inside the write
// batch of that change"; when listed as known the previous-phase targets of
// that entity are not expected (current-graph targets still are).
//
// Known finding F19 (GetChangesWatermark on an empty dataset): input shape
// "some dependency/join dataset has no change at the job's first run"; when
// listed as known the harness writes one unconnected seed entity into such a
// dataset before the first run and counts the exclusion.

import (
	"context"
	"encoding/json"
	"fmt"
	"sort"
	"strconv"
	"strings"
	"testing"

	"pgregory.net/rapid"

	"github.com/mimiro-io/datahub/internal/server"
	kit "github.com/mimiro-io/datahub/internal/verifkit"
)

const c18JobID = "c18job"

// ---- configuration -----------------------------------------------------------

type c18Hop struct {
	DS      string `json:"ds"` // dataset the join leads into
	Pred    string `json:"pred"`
	Inverse bool   `json:"inverse"`
}

type c18Cfg struct {
	Hops    []c18Hop `json:"hops"` // dep -> ... -> main
	Via     string   `json:"via"`  // "json" | "track_queries"
	URIPred bool     `json:"uriPred,omitempty"`
	Batch   int      `json:"batch"`
	// Mirror (one-hop paths, JSON declaration): a second declared dependency on the same dataset with the
	// same predicate followed in the other direction (dep entities point at main entities AND main
	// entities point at dep entities through one predicate)
	Mirror bool `json:"mirror,omitempty"`
	// LatestOnly: the source's LatestOnly option (main and dependency changes are read latest-only)
	LatestOnly bool `json:"latestOnly,omitempty"`
}

// hops the entity generator has to provide references for
func (c c18Cfg) allHops() []c18Hop {
	out := append([]c18Hop{}, c.Hops...)
	if c.Mirror {
		m := c.Hops[0]
		m.Inverse = !m.Inverse
		out = append(out, m)
	}
	return out
}

type c18Dep struct {
	DS    string
	Joins []c18Hop
}

// datasets on the path, starting with "dep", ending with "main"
func (c c18Cfg) path() []string {
	p := []string{"dep"}
	for _, h := range c.Hops {
		p = append(p, h.DS)
	}
	return p
}

// deps: the declared dependency plus the implicit ones the documentation and
// DedupAndTrackImplicitDependencies describe: every intermediate join dataset
// with the remaining joins.
func (c c18Cfg) deps() []c18Dep {
	out := []c18Dep{{DS: "dep", Joins: c.Hops}}
	if c.Mirror {
		out = append(out, c18Dep{DS: "dep", Joins: c.allHops()[1:]})
	}
	for i, h := range c.Hops {
		if h.DS != "main" {
			out = append(out, c18Dep{DS: h.DS, Joins: c.Hops[i+1:]})
		}
	}
	return out
}

func c18GenCfg(t *rapid.T, p []string) c18Cfg {
	n := rapid.IntRange(1, 3).Draw(t, "hops")
	names := [][]string{{"main"}, {"link", "main"}, {"link", "link2", "main"}}[n-1]
	through := n == 3 && rapid.IntRange(0, 3).Draw(t, "throughMain") == 0
	if through {
		// the path passes through the main dataset before its last hop: dep -> main -> link -> main
		names = []string{"main", "link", "main"}
	}
	c := c18Cfg{Batch: rapid.IntRange(1, 5).Draw(t, "batch")}
	for i, ds := range names {
		c.Hops = append(c.Hops, c18Hop{DS: ds, Pred: fmt.Sprintf("%s:j%d", p[i%2], i), Inverse: rapid.Bool().Draw(t, "inverse")})
	}
	c.Via = rapid.SampledFrom([]string{"json", "json", "track_queries"}).Draw(t, "via")
	if through {
		c.Via = "json"
	}
	c.URIPred = rapid.IntRange(0, 3).Draw(t, "uriPred") == 0
	c.LatestOnly = rapid.IntRange(0, 3).Draw(t, "latestOnly") == 0
	if n == 1 && c.Via == "json" && rapid.IntRange(0, 2).Draw(t, "mirror") == 0 {
		c.Mirror = true
	}
	return c
}

func (c c18Cfg) predName(p []string, curie string) string {
	if !c.URIPred {
		return curie
	}
	for i, pre := range p {
		if strings.HasPrefix(curie, pre+":") {
			return kit.PoolNS[i] + strings.TrimPrefix(curie, pre+":")
		}
	}
	return curie
}

func (c c18Cfg) jobJSON(p []string) string {
	src := map[string]any{"Type": "MultiSource", "Name": "main"}
	if c.LatestOnly {
		src["LatestOnly"] = true
	}
	var tr map[string]any
	if c.Via == "json" {
		var joins []any
		for _, h := range c.Hops {
			joins = append(joins, map[string]any{"dataset": h.DS, "predicate": c.predName(p, h.Pred), "inverse": h.Inverse})
		}
		deps := []any{map[string]any{"dataset": "dep", "joins": joins}}
		if c.Mirror {
			h := c.allHops()[1]
			deps = append(deps, map[string]any{"dataset": "dep", "joins": []any{map[string]any{"dataset": h.DS, "predicate": c.predName(p, h.Pred), "inverse": h.Inverse}}})
		}
		src["Dependencies"] = deps
	} else {
		// track_queries registers the path from the main dataset outwards, in
		// query direction: the reverse of the join list, each direction flipped.
		path := c.path()
		chain := "start"
		for i := len(c.Hops) - 1; i >= 0; i-- {
			fn := "iHop"
			if c.Hops[i].Inverse {
				fn = "hop"
			}
			chain += fmt.Sprintf(".%s(%q, %q)", fn, path[i], c.predName(p, c.Hops[i].Pred))
		}
		tr = vjJSTransform("function transform_entities(entities) { return entities; }\nfunction track_queries(start) { "+chain+"; }", 0)
	}
	return vjJobJSON(vjJob{ID: c18JobID, Source: src, Sink: map[string]any{"Type": "DevNullSink"}, Transform: tr, BatchSize: c.Batch})
}

// c18IDs: disjoint id pools per dataset.
func c18IDs(p []string, ds string) []string {
	letter := map[string]string{"main": "m", "dep": "d", "link": "l", "link2": "k"}[ds]
	ids := []string{p[0] + ":" + letter + "0", p[0] + ":" + letter + "1", p[1] + ":" + letter + "2"}
	if ds == "main" {
		ids = append(ids, p[0]+":m3")
	}
	return ids
}

// c18GenEnt draws an entity of dataset ds: a version counter property and,
// for every hop whose references this dataset's entities hold, 0-4 targets.
func c18GenEnt(t *rapid.T, p []string, cfg c18Cfg, ds string) *kit.Ent {
	e := &kit.Ent{ID: rapid.SampledFrom(c18IDs(p, ds)).Draw(t, "id"), Props: map[string]any{p[0] + ":v": rapid.IntRange(0, 2).Draw(t, "v")}, Refs: map[string]any{}}
	path := cfg.path()
	for i, h := range cfg.allHops() {
		if i >= len(cfg.Hops) {
			i = 0 // the mirrored hop leaves the dependency dataset, like the first
		}
		holder, target := path[i], h.DS
		if h.Inverse {
			holder, target = h.DS, path[i]
		}
		if holder != ds {
			continue
		}
		pool := c18IDs(p, target)
		switch rapid.IntRange(0, 5).Draw(t, "refKind") {
		case 0: // no link
		case 1, 2:
			// up to 4 targets: more links than the job's batch size, so that relation queries are paged
			n := rapid.IntRange(0, 4).Draw(t, "nref")
			arr := make([]any, n)
			for k := range arr {
				arr[k] = rapid.SampledFrom(pool).Draw(t, "tgt")
			}
			e.Refs[h.Pred] = arr
		default:
			e.Refs[h.Pred] = rapid.SampledFrom(pool).Draw(t, "tgt")
		}
	}
	e.Deleted = rapid.IntRange(0, 6).Draw(t, "del") == 0
	return e
}

// ---- recording sink ------------------------------------------------------------

// c18RecSink records what the pipeline delivers. failAt > 0: the failAt-th
// delivery since the last reset is refused once with an error (nothing of
// that batch counts as emitted).
type c18RecSink struct {
	got    []*kit.Ent
	calls  int
	failAt int
	fired  bool
	onCall func(call int) // runs at the start of every delivery (a write that lands while the job runs)
	// midFired: onCall made its write during the current phase; afterMid: index into got from which
	// on deliveries were read after that write (-1 = not yet known)
	midFired bool
	afterMid int
}

func (r *c18RecSink) GetConfig() map[string]interface{} {
	return map[string]interface{}{"Type": "DevNullSink"}
}

func (r *c18RecSink) processEntities(runner *Runner, entities []*server.Entity) error {
	r.calls++
	if r.onCall != nil {
		r.onCall(r.calls)
	}
	// afterMid: what is delivered from the next call on was read after the write onCall made
	defer func() {
		if r.midFired && r.afterMid < 0 {
			r.afterMid = len(r.got)
		}
	}()
	if r.failAt > 0 && r.calls == r.failAt {
		r.fired = true
		return fmt.Errorf("verif: injected sink failure at delivery %d", r.failAt)
	}
	for _, e := range entities {
		r.got = append(r.got, kit.FromEntity(e))
	}
	return nil
}
func (r *c18RecSink) startFullSync(runner *Runner) error                    { return nil }
func (r *c18RecSink) endFullSync(ctx context.Context, runner *Runner) error { return nil }

// ---- machine --------------------------------------------------------------------

type c18Op struct {
	K       string     `json:"k"` // "write" | "sync"
	DS      string     `json:"ds,omitempty"`
	Ents    []*kit.Ent `json:"ents,omitempty"`
	Seed    bool       `json:"seed,omitempty"`   // F19 exclusion: seed entity written by the harness
	FailAt  int        `json:"failAt,omitempty"` // sync: the n-th delivery to the sink in this phase fails once
	Mid     bool       `json:"mid,omitempty"`    // write: committed while a run of the job was in progress (at the first delivery of the phase)
	Runs    int        `json:"runs,omitempty"`
	Emitted []string   `json:"emitted,omitempty"`
	Tokens  []string   `json:"tokens,omitempty"`
}

type c18Case struct {
	Cfg  c18Cfg  `json:"cfg"`
	Hist []c18Op `json:"hist"`
}

type c18M struct {
	f       c08Fataler
	h       *vjHub
	cfg     c18Cfg
	j       *job
	rec     *c18RecSink
	m       *kit.Model
	cs      *c18Case
	prev    map[string]map[string]*kit.Ent // model graph of the previous phase
	mark    map[string]int                 // model feed length per dataset at the start of the phase
	spans   map[string][][2]int            // per dataset: model feed index range [from,to) each write batch appended
	lastTok map[string]uint64
	// datasets deleted and created again under their name during the case: the token the job keeps
	// for them belongs to the old dataset's change feed; nothing is asserted about it any more, nor
	// about emissions their own later changes cause (the property does not speak about that)
	recreated map[string]bool
	firstDone,
	inconclusive bool
	nt     bool
	phases int
	cls    map[string]bool
}

func newC18M(f c08Fataler, h *vjHub, cfg c18Cfg) *c18M {
	c := &c18M{f: f, h: h, cfg: cfg, m: kit.NewModel(), cs: &c18Case{Cfg: cfg}, prev: map[string]map[string]*kit.Ent{},
		mark: map[string]int{}, spans: map[string][][2]int{}, lastTok: map[string]uint64{}, cls: map[string]bool{}}
	for _, ds := range cfg.path() {
		h.createDataset(ds)
		c.m.Create(ds)
		c.prev[ds] = map[string]*kit.Ent{}
	}
	jobs, err := h.addJob(cfg.jobJSON(h.P))
	if err != nil || len(jobs) != 1 {
		f.Fatalf("VERIF-INFRA job setup: %v (%d jobs)\n%s", err, len(jobs), cfg.jobJSON(h.P))
	}
	c.j = jobs[0]
	c.rec = &c18RecSink{}
	c.j.pipeline.spec().sink = c.rec
	return c
}

func (c *c18M) fail(format string, a ...any) {
	c.f.Fatalf("%s\nVERIF-CASE-BEGIN\n%s\nVERIF-CASE-END", fmt.Sprintf(format, a...), c08CaseText(c.cs))
}

func (c *c18M) write(op c18Op) {
	c.cs.Hist = append(c.cs.Hist, op)
	kit.Journal(c.cs)
	if err := c.h.write(op.DS, op.Ents); err != nil {
		c.fail("VERIF-INFRA write to %s failed: %v", op.DS, err)
	}
	from := len(c.m.DS[op.DS].Feed)
	c.m.Write(op.DS, op.Ents)
	if to := len(c.m.DS[op.DS].Feed); to > from {
		c.spans[op.DS] = append(c.spans[op.DS], [2]int{from, to})
	}
}

// recreate: an intermediate join dataset is deleted and created again under its name (empty).
func (c *c18M) recreate(ds string) {
	c.cs.Hist = append(c.cs.Hist, c18Op{K: "recreate", DS: ds})
	kit.Journal(c.cs)
	if err := c.h.Dsm.DeleteDataset(ds); err != nil {
		c.fail("VERIF-INFRA delete %s: %v", ds, err)
	}
	c.h.createDataset(ds)
	c.m.Delete(ds)
	c.m.Create(ds)
	c.mark[ds] = 0
	c.spans[ds] = nil
	c.prev[ds] = map[string]*kit.Ent{}
	if c.recreated == nil {
		c.recreated = map[string]bool{}
	}
	c.recreated[ds] = true
	c.cls["join-dataset-recreated"] = true
}

// f24Shape: known finding F24. The job reads a dependency's changes in pages of
// batchSize entries starting where the previous phase ended; the removed-link
// lookup of a page uses the recorded time of the change just before the page.
// Input shape: the first change of x in this phase lies in a page that starts
// inside the write batch that change belongs to (a batch has one recorded time).
func (c *c18M) f24Shape(ds, x string) bool {
	feed, mark := c.m.DS[ds].Feed, c.mark[ds]
	q := -1
	for i := mark; i < len(feed); i++ {
		if feed[i].ID == x {
			q = i
			break
		}
	}
	if q < 0 {
		return false
	}
	pageStart := mark + (q-mark)/c.cfg.Batch*c.cfg.Batch
	for _, sp := range c.spans[ds] {
		if sp[0] <= q && q < sp[1] {
			return pageStart-1 >= sp[0]
		}
	}
	return false
}

func c18Targets(e *kit.Ent, pred string) []string {
	if e == nil || e.Deleted {
		return nil
	}
	return kit.RefTargets(kit.Canon(e.Refs[pred]))
}

// c18Step follows one join from the ids `from` (entities of dataset prevDS) in graph g.
func c18Step(g map[string]map[string]*kit.Ent, from map[string]bool, prevDS string, hop c18Hop) map[string]bool {
	out := map[string]bool{}
	if !hop.Inverse {
		for id := range from {
			for _, t := range c18Targets(g[prevDS][id], hop.Pred) {
				out[t] = true
			}
		}
		return out
	}
	for _, e := range g[hop.DS] {
		for _, t := range c18Targets(e, hop.Pred) {
			if from[t] {
				out[e.ID] = true
			}
		}
	}
	return out
}

func (c *c18M) graph() map[string]map[string]*kit.Ent {
	g := map[string]map[string]*kit.Ent{}
	for _, ds := range c.cfg.path() {
		g[ds] = map[string]*kit.Ent{}
		for id, e := range c.m.DS[ds].Latest {
			g[ds][id] = e
		}
	}
	return g
}

// expected computes the phase's expected emissions (id -> reason) and whether
// the phase is non-trivial by the property's rule.
func (c *c18M) expected() (map[string]string, bool) {
	cur := c.graph()
	exp := map[string]string{}
	nt := false
	for _, d := range c.cfg.deps() {
		if c.recreated[d.DS] {
			continue
		}
		changed := map[string]bool{}
		for _, e := range c.m.DS[d.DS].Feed[c.mark[d.DS]:] {
			changed[e.ID] = true
		}
		for _, x := range kit.SortedKeys(changed) {
			start := map[string]bool{x: true}
			s := c18Step(cur, start, d.DS, d.Joins[0])
			rewired := false
			if !d.Joins[0].Inverse {
				was := c18Step(c.prev, start, d.DS, d.Joins[0])
				if len(was) > 0 && c.f24Shape(d.DS, x) {
					c.cls["f24-shape"] = true
					if kit.Known("F24") {
						kit.S().Exclude("F24")
						was = nil
					}
				}
				for id := range was {
					if !s[id] {
						rewired = true
					}
					s[id] = true
				}
			}
			prevDS := d.Joins[0].DS
			for _, j := range d.Joins[1:] {
				s = c18Step(cur, s, prevDS, j)
				prevDS = j.DS
			}
			n := 0
			for _, id := range kit.SortedKeys(s) {
				if me := cur["main"][id]; me != nil && !me.Deleted {
					n++
					if _, ok := exp[id]; !ok {
						exp[id] = fmt.Sprintf("connected to changed %s entity %s", d.DS, x)
					}
				}
			}
			if n > 0 && (len(c.cfg.Hops) >= 2 || rewired) {
				nt = true
			}
			if n > 0 {
				c.cls["dep-change-with-connected-main"] = true
			}
			if rewired {
				c.cls["first-hop-link-removed"] = true
			}
		}
	}
	for _, e := range c.m.DS["main"].Feed[c.mark["main"]:] {
		exp[e.ID] = "changed itself"
	}
	return exp, nt
}

// expectedNow: main entities connected, in the graph as it stands now, to dependency entities
// changed since c.mark (no previous-phase links, no main changes): a subset of expected().
func (c *c18M) expectedNow() (map[string]string, bool) {
	cur := c.graph()
	exp := map[string]string{}
	for _, d := range c.cfg.deps() {
		if c.recreated[d.DS] {
			continue
		}
		changed := map[string]bool{}
		for _, e := range c.m.DS[d.DS].Feed[c.mark[d.DS]:] {
			changed[e.ID] = true
		}
		for _, x := range kit.SortedKeys(changed) {
			s := c18Step(cur, map[string]bool{x: true}, d.DS, d.Joins[0])
			prevDS := d.Joins[0].DS
			for _, j := range d.Joins[1:] {
				s = c18Step(cur, s, prevDS, j)
				prevDS = j.DS
			}
			for _, id := range kit.SortedKeys(s) {
				if me := cur["main"][id]; me != nil && !me.Deleted {
					if _, ok := exp[id]; !ok {
						exp[id] = fmt.Sprintf("connected to %s entity %s, which changed during the run", d.DS, x)
					}
				}
			}
		}
	}
	return exp, false
}

func c18JSONOp(op c18Op) string {
	b, _ := json.Marshal(op)
	return string(b)
}

type c18Token struct {
	MainToken        string
	DependencyTokens map[string]*struct{ Token string }
}

// checkTokens: readable, within the feeds, monotone.
func (c *c18M) checkTokens(token string) {
	if token == "" {
		c.fail("no continuation token persisted after a successful run")
	}
	var tk c18Token
	if err := json.Unmarshal([]byte(token), &tk); err != nil {
		c.fail("persisted token %q unreadable: %v", token, err)
	}
	num := func(what, s string) uint64 {
		if s == "" {
			return 0
		}
		n, err := strconv.ParseUint(s, 10, 64)
		if err != nil {
			c.fail("token of %s in %q is not a change position: %v", what, token, err)
		}
		return n
	}
	check := func(ds string, pos uint64) {
		if c.recreated[ds] {
			return
		}
		_, end := c.h.changes(ds, 0)
		if pos > end {
			c.fail("token of %s is %d, beyond the end of its change feed (%d): changes up to there were never processed", ds, pos, end)
		}
		if last, ok := c.lastTok[ds]; ok && pos < last {
			c.fail("token of %s moved backwards from %d to %d", ds, last, pos)
		}
		c.lastTok[ds] = pos
	}
	check("main", num("main", tk.MainToken))
	for _, ds := range kit.SortedKeys(tk.DependencyTokens) {
		if c.m.DS[ds] == nil {
			c.fail("token %q names a dataset that is not part of the job", token)
		}
		s := ""
		if tk.DependencyTokens[ds] != nil {
			s = tk.DependencyTokens[ds].Token
		}
		check(ds, num(ds, s))
	}
}

// sync runs the job until a successful run leaves its token unchanged and
// checks the phase. failAt > 0 injects one sink failure.
func (c *c18M) sync(failAt int, mid ...c18Op) {
	if c.inconclusive {
		return
	}
	if !c.firstDone && kit.Known("F19") {
		for _, d := range c.cfg.deps() {
			if len(c.m.DS[d.DS].Feed) == 0 {
				kit.S().Exclude("F19")
				c.write(c18Op{K: "write", DS: d.DS, Seed: true, Ents: []*kit.Ent{{ID: c.h.P[0] + ":seed-" + d.DS, Props: map[string]any{}, Refs: map[string]any{}}}})
			}
		}
	}
	op := c18Op{K: "sync", FailAt: failAt}
	c.cs.Hist = append(c.cs.Hist, op)
	idx := len(c.cs.Hist) - 1
	kit.Journal(c.cs)
	exp, nt := c.expected()
	c.rec.got, c.rec.calls, c.rec.failAt, c.rec.fired = nil, 0, failAt, false
	midDone := false
	c.rec.onCall = nil
	c.rec.midFired, c.rec.afterMid = false, -1
	var midMarks map[string]int
	if len(mid) > 0 {
		// a write to a dependency / join dataset that commits while a run is in progress
		c.rec.onCall = func(call int) {
			if !midDone {
				midDone = true
				midMarks = map[string]int{}
				for _, ds := range c.cfg.path() {
					midMarks[ds] = len(c.m.DS[ds].Feed)
				}
				c.rec.midFired = true
				w := mid[0]
				w.Mid = true
				c.write(w)
				c.cls["write-while-the-job-runs"] = true
			}
		}
	}
	caught := false
	for op.Runs < 30 {
		before := c.h.syncState(c18JobID).ContinuationToken
		prevRes := c.h.result(c18JobID)
		res, p := c.h.runJob(c.j)
		op.Runs++
		if p != nil {
			c.cs.Hist[idx] = op
			c.fail("job run panicked: %v", p)
		}
		if res == nil || (prevRes != nil && res.Start.Equal(prevRes.Start)) {
			c.fail("VERIF-INFRA job did not run (no new job result)")
		}
		after := c.h.syncState(c18JobID).ContinuationToken
		op.Tokens = append(op.Tokens, after)
		c.cs.Hist[idx] = op
		if res.LastError != "" {
			c.h.stray = true
			if c.rec.fired && c.rec.failAt > 0 {
				// the injected failure: disarm, the following runs must make up for it
				c.rec.failAt = 0
				c.cls["sink-failure-hit"] = true
				kit.S().AddExtra("faultpoint sink delivery error hit", 1)
				if after != "" {
					c.checkTokens(after)
				}
				continue
			}
			c.fail("job run failed, the job cannot catch up: %s", res.LastError)
		}
		c.checkTokens(after)
		if after == before {
			caught = true
			break
		}
	}
	c.firstDone = true
	c.rec.onCall = nil
	if midDone {
		// the graph changed during the phase: what has to have been emitted by the time the job has
		// caught up is judged on the graph as it stands now (plus the previous phase's first-hop links)
		exp, nt = c.expected()
	}
	emitted := map[string]bool{}
	mainVersions := map[string]bool{}
	for _, e := range c.m.DS["main"].Feed {
		mainVersions[e.Key()] = true
	}
	for _, e := range c.rec.got {
		if !emitted[e.ID] {
			op.Emitted = append(op.Emitted, e.ID)
		}
		emitted[e.ID] = true
	}
	sort.Strings(op.Emitted)
	c.cs.Hist[idx] = op
	for _, e := range c.rec.got {
		if !c.m.DS["main"].Ever[e.ID] {
			c.fail("emitted entity %s does not exist in the main dataset", e.ID)
		}
		if !mainVersions[e.Key()] {
			c.fail("emitted entity %s is not a version stored in the main dataset", e.Key())
		}
	}
	if !caught {
		// cap reached: a budget precondition, never a violation
		kit.S().Inconcl()
		c.inconclusive = true
		return
	}
	var missing []string
	for _, id := range kit.SortedKeys(exp) {
		if !emitted[id] {
			missing = append(missing, id+" ("+exp[id]+")")
		}
	}
	if len(missing) > 0 {
		c.fail("after %d runs the job has caught up (token unchanged) but did not emit: %s", op.Runs, strings.Join(missing, "; "))
	}
	if midDone && c.rec.afterMid >= 0 {
		// the change made while the job was running: every main entity connected to an entity it
		// changed (graph as it stands now) is emitted AFTER that change - an emission from before it
		// carries the old state of the dependency
		saved := c.mark
		c.mark = midMarks
		expMid, _ := c.expectedNow()
		c.mark = saved
		after := map[string]bool{}
		for _, e := range c.rec.got[c.rec.afterMid:] {
			after[e.ID] = true
		}
		var late []string
		for _, id := range kit.SortedKeys(expMid) {
			if !after[id] {
				late = append(late, id+" ("+expMid[id]+")")
			}
		}
		if len(late) > 0 {
			c.fail("a dependency changed while the job was running (write %s); after %d runs the job has caught up but did not emit, after that change: %s", c18JSONOp(mid[0]), op.Runs, strings.Join(late, "; "))
		}
		kit.S().AddExtra("emissions after a write made during a run checked", len(expMid))
	}
	c.phases++
	if nt && c.phases > 1 {
		c.nt = true
	}
	kit.S().AddExtra("phases checked", 1)
	kit.S().AddExtra("job runs", op.Runs)
	kit.S().AddExtra("expected emissions checked", len(exp))
	c.prev = c.graph()
	for _, ds := range c.cfg.path() {
		c.mark[ds] = len(c.m.DS[ds].Feed)
	}
}

func (c *c18M) classes() []string {
	dirs := ""
	for _, h := range c.cfg.Hops {
		if h.Inverse {
			dirs += "i"
		} else {
			dirs += "o"
		}
	}
	c.cls[fmt.Sprintf("hops:%d", len(c.cfg.Hops))] = true
	c.cls["dirs:"+dirs] = true
	c.cls["via:"+c.cfg.Via] = true
	if c.cfg.LatestOnly {
		c.cls["source-latest-only"] = true
	}
	if len(c.cfg.Hops) == 3 && c.cfg.Hops[0].DS == "main" {
		c.cls["path-through-the-main-dataset"] = true
	}
	if c.cfg.Mirror {
		c.cls["mirrored-dependency"] = true
	}
	var out []string
	for k := range c.cls {
		out = append(out, k)
	}
	sort.Strings(out)
	return out
}

func TestVerif_C18(t *testing.T) {
	defer kit.S().Flush()
	defer kit.CleanupScratch()
	rapid.Check(t, func(t *rapid.T) {
		h := newVJHub(vjOpts{})
		defer h.close()
		cfg := c18GenCfg(t, h.P)
		c := newC18M(t, h, cfg)
		defer func() {
			kit.S().Case(c.cs, c.nt, c.classes()...)
			kit.JournalDone()
		}()
		acts := map[string]func(*rapid.T){
			"sync": func(t *rapid.T) {
				failAt := 0
				if rapid.IntRange(0, 2).Draw(t, "fault") == 0 {
					failAt = rapid.IntRange(1, 4).Draw(t, "failAt")
				}
				if failAt > 0 && cfg.Mirror && kit.Known("F30") {
					// known finding F30 (input shape: two declared dependencies on one dataset and a sink
					// failure in the phase): the dependencies share one token
					kit.S().Exclude("F30")
					failAt = 0
				}
				if rapid.IntRange(0, 3).Draw(t, "midWrite") == 0 {
					var cand []string
					for _, d := range cfg.path() {
						// never the main dataset; nor a dataset that was re-created (what its own changes
						// cause is not asserted any more, see recreated)
						if d != "main" && !c.recreated[d] {
							cand = append(cand, d)
						}
					}
					ds := rapid.SampledFrom(cand).Draw(t, "midDS")
					op := c18Op{K: "write", DS: ds}
					for i := rapid.IntRange(1, 2).Draw(t, "midN"); i > 0; i-- {
						op.Ents = append(op.Ents, c18GenEnt(t, h.P, cfg, ds))
					}
					c.sync(failAt, op)
					return
				}
				c.sync(failAt)
			},
		}
		for _, ds := range cfg.path() {
			ds := ds
			acts["write-"+ds] = func(t *rapid.T) {
				op := c18Op{K: "write", DS: ds}
				n := rapid.IntRange(1, 3).Draw(t, "n")
				for i := 0; i < n; i++ {
					op.Ents = append(op.Ents, c18GenEnt(t, h.P, cfg, ds))
				}
				c.write(op)
			}
		}
		// a second entry for the dependency side keeps link changes frequent
		acts["write-dep2"] = acts["write-dep"]
		for _, ds := range cfg.path() {
			ds := ds
			if ds == "dep" || ds == "main" {
				continue
			}
			acts["recreate-"+ds] = func(t *rapid.T) {
				if !c.firstDone || rapid.IntRange(0, 3).Draw(t, "rare") != 0 {
					t.Skip("before the first run / rare")
				}
				c.recreate(ds)
				// the new dataset gets links again
				op := c18Op{K: "write", DS: ds}
				for i := rapid.IntRange(1, 3).Draw(t, "n"); i > 0; i-- {
					op.Ents = append(op.Ents, c18GenEnt(t, h.P, cfg, ds))
				}
				c.write(op)
			}
		}
		t.Repeat(acts)
		c.sync(0)
	})
}

// ---- probe F19 -------------------------------------------------------------------

// F19: the dependency dataset is still empty at the job's first run;
// GetChangesWatermark took the position from a neighbouring key, so the
// dependency token started beyond changes that were never processed.
func TestVerifProbe_F19(t *testing.T) {
	defer kit.CleanupScratch()
	h := newVJHub(vjOpts{})
	defer h.close()
	cfg := c18Cfg{Hops: []c18Hop{{DS: "main", Pred: h.P[0] + ":j0", Inverse: false}}, Via: "json", Batch: 5}
	c := newC18M(t, h, cfg)
	m2, d1 := h.P[0]+":m2", h.P[0]+":d1"
	c.write(c18Op{K: "write", DS: "main", Ents: []*kit.Ent{{ID: m2, Props: map[string]any{h.P[0] + ":v": 1}, Refs: map[string]any{}}}})
	c.sync(0)
	c.write(c18Op{K: "write", DS: "dep", Ents: []*kit.Ent{{ID: d1, Props: map[string]any{}, Refs: map[string]any{h.P[0] + ":j0": m2}}}})
	c.sync(0)
}

// F24: a page boundary of the job inside one dependency write batch hides a
// removed first-hop link (all entities of a batch share one recorded time).
func TestVerifProbe_F24(t *testing.T) {
	defer kit.CleanupScratch()
	h := newVJHub(vjOpts{})
	defer h.close()
	j0 := h.P[0] + ":j0"
	cfg := c18Cfg{Hops: []c18Hop{{DS: "main", Pred: j0, Inverse: false}}, Via: "json", Batch: 1}
	c := newC18M(t, h, cfg)
	m0, d0, d1 := h.P[0]+":m0", h.P[0]+":d0", h.P[0]+":d1"
	none := map[string]any{}
	c.write(c18Op{K: "write", DS: "main", Ents: []*kit.Ent{{ID: m0, Props: none, Refs: none}}})
	c.write(c18Op{K: "write", DS: "dep", Ents: []*kit.Ent{{ID: d0, Props: none, Refs: map[string]any{j0: m0}}}})
	c.sync(0)
	c.write(c18Op{K: "write", DS: "dep", Ents: []*kit.Ent{{ID: d1, Props: none, Refs: none}, {ID: d0, Props: none, Refs: none}}})
	c.sync(0)
}

// F29 (fixed): with two declared dependencies on the same dataset the removed-link
// lookup of the second one used the dataset token the first one had already
// advanced, i.e. the time of the very change that removed the link.
func TestVerifProbe_F29(t *testing.T) {
	defer kit.CleanupScratch()
	h := newVJHub(vjOpts{})
	defer h.close()
	p := h.P[0]
	// first declared dependency: main entities point at dep entities (inverse); the mirrored second
	// one: dep entities point at main entities (first hop outgoing, removed-link lookup applies)
	cfg := c18Cfg{Hops: []c18Hop{{DS: "main", Pred: p + ":j0", Inverse: true}}, Via: "json", Batch: 3, Mirror: true}
	c := newC18M(t, h, cfg)
	e := func(id string, v int, refs map[string]any) *kit.Ent {
		if refs == nil {
			refs = map[string]any{}
		}
		return &kit.Ent{ID: p + ":" + id, Props: map[string]any{p + ":v": v}, Refs: refs}
	}
	c.write(c18Op{K: "write", DS: "main", Ents: []*kit.Ent{e("m0", 0, nil), e("m1", 0, nil)}})
	c.write(c18Op{K: "write", DS: "dep", Ents: []*kit.Ent{e("d2", 0, map[string]any{p + ":j0": p + ":m0"})}})
	c.sync(0)
	c.write(c18Op{K: "write", DS: "dep", Ents: []*kit.Ent{e("d2", 1, nil)}}) // the link d2 -> m0 is removed
	c.sync(0)                                                                // m0 (as linked at the previous run) must be emitted
}

// F30 (known): two declared dependencies on one dataset share that dataset's
// token. The token is persisted with the batch the first dependency delivers;
// when the batch of the second one is then refused by the sink, the following
// runs find no change left in the dataset and never emit what the second
// dependency had found.
func TestVerifProbe_F30(t *testing.T) {
	defer kit.CleanupScratch()
	h := newVJHub(vjOpts{})
	defer h.close()
	p := h.P[0]
	cfg := c18Cfg{Hops: []c18Hop{{DS: "main", Pred: p + ":j0", Inverse: false}}, Via: "json", Batch: 2, Mirror: true}
	c := newC18M(t, h, cfg)
	e := func(id string, v int, refs map[string]any) *kit.Ent {
		if refs == nil {
			refs = map[string]any{}
		}
		return &kit.Ent{ID: p + ":" + id, Props: map[string]any{p + ":v": v}, Refs: refs}
	}
	c.write(c18Op{K: "write", DS: "main", Ents: []*kit.Ent{e("m0", 0, map[string]any{p + ":j0": []any{p + ":d2"}}), e("m1", 0, nil)}})
	c.write(c18Op{K: "write", DS: "dep", Ents: []*kit.Ent{e("d2", 0, map[string]any{p + ":j0": []any{p + ":m1"}})}})
	c.sync(0)
	c.write(c18Op{K: "write", DS: "dep", Ents: []*kit.Ent{e("d2", 1, nil)}})
	c.sync(2) // delivery 1: m1 (removed link, first dependency); delivery 2: m0 (second dependency) is refused once
}

// F35 (fixed): with the source's LatestOnly option the changes of a dependency
// were read latest-only as well. The lookup of removed first-hop links goes
// back only to the change before the page; when the version that removed a
// link is superseded by a later one before the job runs, it was skipped and
// the main entity it used to link to was never emitted.
func TestVerifProbe_F35(t *testing.T) {
	defer kit.CleanupScratch()
	h := newVJHub(vjOpts{})
	defer h.close()
	p := h.P[0]
	j0 := p + ":j0"
	cfg := c18Cfg{Hops: []c18Hop{{DS: "main", Pred: j0, Inverse: false}}, Via: "json", Batch: 1, LatestOnly: true}
	c := newC18M(t, h, cfg)
	none := map[string]any{}
	m2, m3, d0, d2 := p+":m2", p+":m3", p+":d0", p+":d2"
	c.write(c18Op{K: "write", DS: "main", Ents: []*kit.Ent{{ID: m2, Props: none, Refs: none}}})
	c.write(c18Op{K: "write", DS: "dep", Ents: []*kit.Ent{{ID: d0, Props: none, Refs: map[string]any{j0: []any{m3, m2}}}}})
	c.sync(0)
	// d0 loses its link to m2 in a version that is superseded before the job runs again
	c.write(c18Op{K: "write", DS: "dep", Ents: []*kit.Ent{{ID: d0, Props: none, Refs: map[string]any{j0: m3}, Deleted: true}}})
	c.write(c18Op{K: "write", DS: "dep", Ents: []*kit.Ent{{ID: d2, Props: none, Refs: none}, {ID: d0, Props: none, Refs: map[string]any{j0: m3}}}})
	c.sync(0) // m2 (as linked at the previous run) must be emitted
}
