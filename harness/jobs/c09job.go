package jobs

// C09, job part: a fullsync JOB whose run fails or is killed is an abandoned
// sync: it deletes nothing, neither when it fails nor later; the next run that
// completes deletes exactly what that completed run did not contain.
//
// Real FullSyncPipeline, real DatasetSource / UnionDatasetSource and
// DatasetSink (the machinery of the C08 check): generated source histories
// interleaved with fullsync runs; faults: sink error at batch i, KillJob at
// batch boundary i (verifhook.Fault("job.sink")).
//
// Oracle after a run that did NOT end successfully: an entity that was live in
// the sink before the run is still live afterwards, unless the source holds a
// deleted version of that id (only copying a deleted source version can
// legitimately tombstone a sink entity; a not-latest-only source replays older
// versions, so any deleted version in the member's feed counts). After the
// closing fault-free run: sink latest view == source latest view.

import (
	"fmt"
	"sort"
	"testing"

	"pgregory.net/rapid"

	kit "github.com/mimiro-io/datahub/internal/verifkit"
)

func c09jLive(es []*kit.Ent) map[string]bool {
	out := map[string]bool{}
	for _, e := range es {
		if !e.Deleted {
			out[e.ID] = true
		}
	}
	return out
}

// c09jAbandoned: entities tombstoned by a run that did not complete.
func c09jAbandoned(cfg c08Cfg, liveBefore map[string]bool, o *c08Obs) string {
	srcDeleted := map[string]bool{}
	for _, m := range cfg.Members {
		for _, e := range o.Src[m.Name] {
			if e.Deleted {
				srcDeleted[e.ID] = true
			}
		}
	}
	var bad []string
	for _, e := range o.SinkLatest {
		if e.Deleted && liveBefore[e.ID] && !srcDeleted[e.ID] {
			bad = append(bad, e.ID)
		}
	}
	sort.Strings(bad)
	if len(bad) > 0 {
		return fmt.Sprintf("ABANDONED-SYNC-DELETED the fullsync run ended with %q, yet %v (live in the sink before the run, never deleted in the source) are marked deleted in the sink", o.LastError, bad)
	}
	return ""
}

func TestVerif_C09_jobfault(t *testing.T) {
	defer kit.S().Flush()
	defer kit.CleanupScratch()
	rapid.Check(t, func(t *rapid.T) {
		cfg := c08GenCfg(t)
		cfg.JobType = JobTypeFull
		h := newVJHub(vjOpts{})
		defer h.close()
		j, err := c08Setup(h, cfg)
		if err != nil {
			t.Fatalf("VERIF-INFRA job setup: %v", err)
		}
		pool := c08Pool(h.P, cfg)
		cs := &c08Case{Cfg: cfg}
		cls := map[string]bool{"jobsync": true, "src:" + cfg.Kind: true}
		fail := func(format string, a ...any) {
			t.Fatalf("%s\nVERIF-CASE-BEGIN\n%s\nVERIF-CASE-END", fmt.Sprintf(format, a...), c08CaseText(cs))
		}
		failedWithLive, completedAfterFail, failedBefore := false, false, false
		doRun := func(op c08Op) {
			cs.Hist = append(cs.Hist, op)
			kit.Journal(cs)
			liveBefore := c09jLive(h.latest(c08Sink))
			o := c08Run(h, j, cfg, op, "run", len(cs.Hist)-1)
			if o.Panic != "" {
				fail("job run panicked: %s", o.Panic)
			}
			if !o.Ran {
				fail("VERIF-INFRA job did not run (no new job result)")
			}
			if o.LastError != "" {
				cls["jobsync-run-failed-"+op.Fault] = true
				if len(liveBefore) > 0 {
					failedWithLive = true
				}
				failedBefore = true
				if s := c09jAbandoned(cfg, liveBefore, o); s != "" {
					fail("%s", s)
				}
				return
			}
			cls["jobsync-run-completed"] = true
			if failedBefore {
				completedAfterFail = true
			}
			if s := c08CheckLatest(cfg, o); s != "" {
				fail("after a completed fullsync run: %s", s)
			}
		}
		defer func() {
			var cl []string
			for k := range cls {
				cl = append(cl, k)
			}
			sort.Strings(cl)
			kit.S().Case(cs, failedWithLive && completedAfterFail, cl...)
			kit.JournalDone()
		}()
		t.Repeat(map[string]func(*rapid.T){
			"write": func(t *rapid.T) {
				op := c08GenWrite(t, pool, cfg)
				cs.Hist = append(cs.Hist, op)
				kit.Journal(cs)
				if err := h.write(op.DS, op.Ents); err != nil {
					fail("VERIF-INFRA source write failed: %v", err)
				}
			},
			"run": func(t *rapid.T) {
				op := c08Op{K: "run"}
				o := c08Observe(h, cfg, "pre", len(cs.Hist))
				nb := 0
				for _, m := range cfg.Members {
					nb += (len(o.Src[m.Name]) + cfg.Batch - 1) / cfg.Batch
				}
				if nb > 0 {
					op.Fault = rapid.SampledFrom([]string{"", "sinkerr", "sinkerr", "storeerr", "kill"}).Draw(t, "fault")
					if op.Fault != "" {
						op.At = rapid.IntRange(1, nb+1).Draw(t, "at")
					}
				}
				doRun(op)
			},
		})
		doRun(c08Op{K: "run"})
	})
}
