import json,os,re,glob
desc={l.split('\t')[0]:l.rstrip('\n').split('\t')[1:] for l in open('/tmp/intake/desc6.tsv')}
try: rc=json.load(open('/tmp/intake/recheck6.json'))
except Exception: rc={}
special={
 'C15-6c':dict(first={'C15':'silent','C13':'silent'},by=['C15'],how='local names that begin like a scheme (httpStatus, httpd/vhost-1, ...) in the generator pools: valid payload rejected / pulled page not stored as denoted',hist='missed in the first run; check extended, see DESIGN.md 13.7'),
 'C17-6b':dict(first={'C17':'silent'},by=['C17'],how='reRun cases with a fullsync job type: execution 2 happened after execution 1 ended as "kill"',hist='missed in the first run; check extended, see DESIGN.md 13.7'),
 'C03-6a':dict(first={'C03':'silent','C06':'caught'},by=['C06'],how='C06: ASOF-REL (transaction beside a batch); C03 has no transaction waiting for a lock, same as for C01-3a',hist='caught in the first run (by C06, C03 silent)'),
 'C15-6a':dict(first={'C15':'silent','C13':'caught'},by=['C13'],how='C13 burst of namespaces introduced at the same instant, restart: PERMANENCE',hist='caught in the first run (by C13, C15 silent: one request at a time)'),
}
rows=[]
for sid,(chg,needs) in desc.items():
    d='/verif/seeded/'+sid
    c=json.load(open('/tmp/intake/%s.confirm.json'%sid))
    ev=open('/tmp/intake/%s.eval.txt'%sid).read()
    lines=[l for l in ev.splitlines() if re.match(r'^C\d+ exit=',l)]
    first={}
    how=[]
    for l in lines:
        m=re.match(r'^(C\d+) exit=(\d+) violations=(\d+) wall=\S+ ?(.*)',l)
        pid,ex,nv,msg=m.group(1),int(m.group(2)),int(m.group(3)),m.group(4)
        first[pid]='caught' if ex==1 and nv>0 else ('inconclusive' if ex==2 else 'silent')
        if first[pid]=='caught': how.append('%s: %s'%(pid,msg[:140]))
    suite_ok=c.get('suite_passes_with_change')
    note=''
    if not suite_ok:
        r=rc.get(sid,{})
        if r and all(r.values()):
            suite_ok=True
            note='first (parallel, machine heavily loaded) run failed in timing-dependent specs of %s; those packages re-run alone: pass'%', '.join(sorted(r))
        else:
            note='re-run pending or failing: %s'%r
    meta={'id':sid,'round':6,'breaks_property':sid[:3],'change':chg,'needs_to_manifest':needs,
      'demonstration':sorted(os.path.basename(x) for x in glob.glob(d+'/*_test.go')),
      'confirmed':{'how':'lib/seedconfirm.py in a scratch worktree of /repo HEAD (removed afterwards), go test in a private network namespace',
        'demo_passes_without_change':c.get('demo_passes_without_change'),'patch_applies':c.get('patch_applies'),'builds':c.get('builds'),
        'existing_suite_passes_with_change':suite_ok,'suite_note':note,'demo_fails_with_change':c.get('demo_fails_with_change'),'demo_failure':c.get('demo_failure','')[:300]},
      'checks_run':'lib/seedeval.py patch.diff %s quick'%','.join(first),
      'first_run':first,'caught_by':[p for p,v in first.items() if v=='caught'],'caught_how':'; '.join(how),'history':'caught in the first run'}
    if sid in special:
        s=special[sid]; meta['first_run']=s['first']; meta['caught_by']=s['by']; meta['caught_how']=s['how']; meta['history']=s['hist']
    json.dump(meta,open(d+'/meta.json','w'),indent=1)
    fr=meta['history'].split(';')[0] if meta['history'].startswith('caught') else '**missed**'
    rows.append('| %s | %s; %s | %s | %s |'%(sid,chg,needs,fr,(', '.join(meta['caught_by'])+': '+meta['caught_how'])[:170].replace('|','/')))
    print(sid,suite_ok,meta['caught_by'])
open('/tmp/intake/rows6.md','w').write('\n'.join(rows)+'\n')
