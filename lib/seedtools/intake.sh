#!/bin/bash
# usage: intake3.sh C16 a [extra checks comma list]   (round 6)
ID=$1; L=$2; EXTRA=$3
SRC=/tmp/seedout6/$ID/$L; DST=/verif/seeded/$ID-6$L
[ -f $SRC/patch.diff ] || { echo "$ID-6$L: no patch"; exit 0; }
mkdir -p $DST
cp $SRC/patch.diff $SRC/notes.md $DST/ 2>/dev/null
cp $SRC/*_test.go $DST/
cd /verif
python3 lib/seedconfirm.py $DST > /tmp/intake/$ID-6$L.confirm.json 2> /tmp/intake/$ID-6$L.confirm.err
CHECKS=$ID; [ -n "$EXTRA" ] && CHECKS=$ID,$EXTRA
python3 lib/seedeval.py $DST/patch.diff $CHECKS quick > /tmp/intake/$ID-6$L.eval.txt 2>&1
echo "$ID-6$L done"
