import json,glob,os,subprocess,re,sys,time
from concurrent.futures import ThreadPoolExecutor
out_path='/tmp/intake/reeval.json'
res={}
if os.path.exists(out_path): res=json.load(open(out_path))
items=[]
for d in sorted(glob.glob('/verif/seeded/*/')):
    sid=os.path.basename(d.rstrip('/'))
    mp=os.path.join(d,'meta.json')
    if not os.path.exists(mp): continue
    m=json.load(open(mp))
    cb=m.get('caught_by') or []
    if isinstance(cb,str): cb=re.findall(r'C\d\d',cb)
    cb=[c for c in cb if re.match(r'^C\d\d$',c)]
    if not cb: 
        res.setdefault(sid,{'checks':[],'result':'no check claimed'}); continue
    if sid in res and res[sid].get('result') in ('caught',): continue
    items.append((sid,cb[:2]))
print(len(items),'to evaluate',flush=True)
def work(it):
    sid,cb=it
    r=subprocess.run(['nice','-n','10','python3','/verif/lib/seedeval.py','/verif/seeded/%s/patch.diff'%sid,','.join(cb),'quick'],capture_output=True,text=True)
    lines=[l for l in r.stdout.splitlines() if re.match(r'^(C\d+ exit=|PATCH)',l)]
    caught=any(re.match(r'C\d+ exit=1 violations=([1-9]\d*)',l) for l in lines)
    result='caught' if caught else ('patch does not apply' if any(l.startswith('PATCH') for l in lines) else ('inconclusive' if any(' exit=2 ' in l for l in lines) else 'silent'))
    return sid,{'checks':cb,'result':result,'lines':[l[:160] for l in lines]}
with ThreadPoolExecutor(max_workers=int(sys.argv[1]) if len(sys.argv)>1 else 2) as ex:
    for sid,r in ex.map(work,items):
        res[sid]=r
        json.dump(res,open(out_path,'w'),indent=1)
        print(sid,r['result'],flush=True)
print('DONE',flush=True)
