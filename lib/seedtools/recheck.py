import json,glob,re,subprocess,os,sys
res={}
redo=[]
for f in sorted(glob.glob('/tmp/intake/C*-6*.confirm.json')):
    sid=os.path.basename(f).split('.')[0]
    try: d=json.load(open(f))
    except Exception as e: redo.append(sid); continue
    if not d.get('patch_applies'): redo.append(sid); continue
    key=[k for k in d if k.startswith('suite_passes')]
    if not key or d[key[0]]: continue
    pk=re.findall(r'FAIL\s+github.com/mimiro-io/datahub(/internal/\S+)',d.get('suite_tail',''))
    if not pk: pk=['/internal/jobs','/internal/server']
    res[sid]=sorted(set(pk))
print(res,redo,flush=True)
out={}
for sid in redo:
    r=subprocess.run(['python3','/verif/lib/seedconfirm.py','/verif/seeded/'+sid],capture_output=True,text=True)
    open('/tmp/intake/%s.confirm.json'%sid,'w').write(r.stdout[r.stdout.index('{'):] if '{' in r.stdout else r.stdout)
    print(sid,'redone',flush=True)
    try:
        d=json.loads(r.stdout[r.stdout.index('{'):])
        key=[k for k in d if k.startswith('suite_passes')]
        if key and not d[key[0]]:
            pk=re.findall(r'FAIL\s+github.com/mimiro-io/datahub(/internal/\S+)',d.get('suite_tail',''))
            res[sid]=sorted(set(pk)) or ['/internal/jobs','/internal/server']
    except Exception as e: print(sid,'redo parse',e)
for sid,pks in res.items():
    for pk in pks:
        ok=False
        for attempt in range(4):
            r=subprocess.run(['python3','/verif/lib/seedconfirm.py','/verif/seeded/'+sid,'--only-pkg',pk],capture_output=True,text=True)
            try:
                j=json.loads(r.stdout[r.stdout.index('{'):])
                k=[x for x in j if x.startswith('suite_passes')][0]
                ok=j[k]
            except Exception as e:
                ok=False
            print(sid,pk,'attempt',attempt,ok,flush=True)
            if ok: break
        out.setdefault(sid,{})[pk]=ok
        json.dump(out,open('/tmp/intake/recheck6.json','w'),indent=1)
print('DONE',flush=True)
