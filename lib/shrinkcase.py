#!/usr/bin/env python3
"""Delta-debugging shrinker for saved JSON cases (development aid and part of the
replay workflow: rapid's own shrinker runs under a time budget and can stop at
a long history; this one works on the saved case file and needs no rapid).

  lib/shrinkcase.py <test-binary> <-test.run regexp> <case.json> <out.json> [--sig REGEX] [--env K=V ...]

The case is re-executed through the harness' VERIF_REPLAY_CASE entry. A candidate
is kept when the test still fails and (with --sig) its output matches REGEX.
Lists anywhere in the case are shrunk (ddmin per list, repeated to a fixpoint),
dict entries of "props"/"refs" are dropped one at a time.
"""
import copy, json, os, re, subprocess, sys, tempfile


def main():
    a = sys.argv[1:]
    binp, runre, casep, outp = a[:4]
    sig, env = None, dict(os.environ)
    i = 4
    while i < len(a):
        if a[i] == "--sig":
            sig = re.compile(a[i + 1]); i += 2
        elif a[i] == "--env":
            k, v = a[i + 1].split("=", 1); env[k] = v; i += 2
        else:
            i += 1
    case = json.load(open(casep))
    tmpd = tempfile.mkdtemp(prefix="shrink")
    runs = [0]

    def fails(c):
        runs[0] += 1
        p = os.path.join(tmpd, "case.json")
        json.dump(c, open(p, "w"))
        e = dict(env, VERIF_REPLAY_CASE=p, VERIF_STATS="", VERIF_JOURNAL="")
        try:
            r = subprocess.run([binp, "-test.run", runre, "-test.count", "1"], env=e, cwd=tmpd,
                               capture_output=True, text=True, timeout=300)
        except subprocess.TimeoutExpired:
            return False
        out = r.stdout + r.stderr
        if r.returncode == 0 or "VERIF-INFRA" in out:
            return False
        return sig.search(out) is not None if sig else True

    if not fails(case):
        print("case does not fail"); return 1

    def paths(c, pre=()):
        out = []
        if isinstance(c, list):
            out.append(pre)
            for k, v in enumerate(c):
                out += paths(v, pre + (k,))
        elif isinstance(c, dict):
            if pre and pre[-1] in ("props", "refs"):
                out.append(pre)
            for k, v in c.items():
                out += paths(v, pre + (k,))
        return out

    def get(c, p):
        for k in p:
            c = c[k]
        return c

    changed = True
    while changed:
        changed = False
        for p in paths(case):
            try:
                cur = get(case, p)
            except (KeyError, IndexError):
                continue
            if isinstance(cur, dict):
                for k in list(cur):
                    c2 = copy.deepcopy(case)
                    del get(c2, p)[k]
                    if fails(c2):
                        case = c2; changed = True
                continue
            n = len(cur)
            chunk = max(1, n // 2)
            while chunk >= 1 and len(get(case, p)) > 0:
                lst = get(case, p)
                k = 0
                progressed = False
                while k < len(lst):
                    c2 = copy.deepcopy(case)
                    l2 = get(c2, p)
                    del l2[k:k + chunk]
                    if fails(c2):
                        case = c2; lst = get(case, p); changed = True; progressed = True
                    else:
                        k += chunk
                if chunk == 1 and not progressed:
                    break
                chunk = chunk // 2 if chunk > 1 else (1 if progressed else 0)
    json.dump(case, open(outp, "w"), indent=1)
    print("shrunk in %d runs -> %s" % (runs[0], outp))
    return 0


if __name__ == "__main__":
    sys.exit(main())
