#!/usr/bin/env python3
"""Confirms a seeded change before it is kept under /verif/seeded/:

  lib/seedconfirm.py <dir with patch.diff and *_test.go demo> [--skip-jobs]

In a scratch worktree of /repo's HEAD (removed afterwards):
  1. the demonstration passes on the unchanged code,
  2. the patch applies and `go build ./...` succeeds,
  3. the repository's tests (./internal/..., the packages of the pinned suite) pass with the patch,
  4. the demonstration fails with the patch.
Prints a JSON object with the four outcomes. internal/jobs uses fixed ports:
run confirmations of several changes with --skip-jobs in parallel and the jobs
package afterwards one at a time (--only-jobs).
"""
import glob, json, os, re, shutil, subprocess, sys

ENV = dict(os.environ, GOFLAGS="-mod=mod", GOPROXY="off", GOSUMDB="off", GOTOOLCHAIN="local")
PKGDIR = {"server": "internal/server", "jobs": "internal/jobs", "dataset": "internal/service/dataset",
          "security": "internal/security", "web": "internal/web", "source": "internal/jobs/source",
          "namespace": "internal/service/namespace", "entity": "internal/service/entity", "middlewares": "internal/web/middlewares",
          "conf": "internal/conf", "content": "internal/content", "datahub": ".", "main": "."}


def netns(cmd):
    """Runs go test in a private network namespace when possible: the repository's tests bind fixed
    ports (7777, 25555) and collide with any other copy of the suite running on the machine."""
    if cmd[:2] == ["go", "test"] and subprocess.run(["unshare", "-n", "true"], capture_output=True).returncode == 0:
        import shlex
        return ["unshare", "-n", "sh", "-c", "ip link set lo up; exec " + " ".join(shlex.quote(c) for c in cmd)]
    return cmd


def run(cmd, cwd, timeout=1500):
    cmd = netns(cmd)
    try:
        r = subprocess.run(cmd, cwd=cwd, env=ENV, capture_output=True, text=True, timeout=timeout)
        return r.returncode, r.stdout + r.stderr
    except subprocess.TimeoutExpired as e:
        return 124, (e.stdout or "") + "\nTIMEOUT"


def main():
    d = os.path.abspath(sys.argv[1])
    skip_jobs, only_jobs = "--skip-jobs" in sys.argv, "--only-jobs" in sys.argv or "--only-pkg" in sys.argv
    wt = "/tmp/verif-seedconfirm-%d" % os.getpid()
    subprocess.run(["git", "-C", "/repo", "worktree", "add", "--detach", "-q", wt, "HEAD"], check=True)
    res = {"dir": d}
    try:
        demos = [f for f in glob.glob(os.path.join(d, "*_test.go"))]
        placed = []
        for f in demos:
            pk = re.search(r"^package (\w+)", open(f).read(), re.M).group(1)
            pk = pk[:-5] if pk.endswith("_test") else pk
            dst = os.path.join(wt, PKGDIR[pk], os.path.basename(f))
            shutil.copyfile(f, dst)
            placed.append((dst, "./" + PKGDIR[pk]))
        names = []
        for f in demos:
            names += re.findall(r"^func (Test\w+)\(", open(f).read(), re.M)
        runre = "^(" + "|".join(names) + ")$"
        pkgs = sorted(set(p for _, p in placed))

        def demo():
            rc, out = run(["go", "test", "-tags", "verif", "-vet=off", "-count=1", "-run", runre] + pkgs, wt, 900)
            return rc, out
        if not only_jobs:
            rc, out = demo()
            res["demo_passes_without_change"] = rc == 0
            if rc != 0:
                res["demo_without_tail"] = out[-1500:]
        rc, out = run(["git", "apply", os.path.join(d, "patch.diff")], wt)
        if rc != 0:
            rc, out = run(["git", "apply", "-3", os.path.join(d, "patch.diff")], wt)
            if rc == 0:
                run(["git", "reset", "-q"], wt)
                res["patch_note"] = "applied with a three-way merge (the tree has moved on since the change was written)"
        res["patch_applies"] = rc == 0
        if rc != 0:
            res["apply_err"] = out[-500:]
            print(json.dumps(res, indent=1))
            return 1
        rc, out = run(["go", "build", "./..."], wt)
        res["builds"] = rc == 0
        # the suite without the demo files
        for dst, _ in placed:
            os.rename(dst, dst + ".off")
        rc, out = run(["go", "list", "./internal/..."], wt)
        allp = [p for p in out.split() if p.startswith("github.com")]
        if skip_jobs:
            allp = [p for p in allp if not p.endswith("/internal/jobs")]
        if only_jobs and "--only-pkg" not in sys.argv:
            allp = [p for p in allp if p.endswith("/internal/jobs")]
        if "--only-pkg" in sys.argv:
            suffix = sys.argv[sys.argv.index("--only-pkg") + 1]
            allp = [p for p in allp if p.endswith(suffix)]
            only_jobs = True
        rc, out = run(["go", "test", "-vet=off", "-count=1", "-timeout", "25m"] + allp, wt, 1700)
        res["suite_passes_with_change" + ("_without_jobs_pkg" if skip_jobs else "_jobs_pkg_only" if only_jobs else "")] = rc == 0
        if rc != 0:
            res["suite_tail"] = "\n".join(l for l in out.splitlines() if re.match(r"^(ok|FAIL|---|panic)", l))[-1500:]
        for dst, _ in placed:
            os.rename(dst + ".off", dst)
        if not only_jobs:
            rc, out = demo()
            res["demo_fails_with_change"] = rc != 0
            m = re.findall(r"^\s+\S+_test\.go:\d+: (.*)", out, re.M)
            res["demo_failure"] = (m[0] if m else out[-300:])[:400]
    finally:
        subprocess.run(["git", "-C", "/repo", "worktree", "remove", "--force", wt])
    print(json.dumps(res, indent=1))
    return 0


if __name__ == "__main__":
    sys.exit(main())
