#!/usr/bin/env python3
"""Runs checks against a seeded change without touching /repo.

  lib/seedeval.py <patch.diff> <ID>[,<ID>...] [quick|thorough] [--seed N] [--keep]

A scratch worktree of /repo's HEAD is created under /tmp/verif-seedeval-<pid>,
the patch is applied there, the named checks are run with VERIF_REPO pointing
at it (the driver then builds into its own .build-<hash> directory), and the
worktree and that build directory are removed afterwards. Prints one line per
check: ID, exit code, first violation line of the shard output. Evidence and replay files of such runs go to the scratch build
directory (they describe a mutant, not /repo).
"""
import hashlib, os, re, shutil, subprocess, sys, time

VERIF = os.path.dirname(os.path.dirname(os.path.abspath(__file__)))


def main():
    a = [x for x in sys.argv[1:] if not x.startswith("--")]
    patch, ids = os.path.abspath(a[0]), a[1].split(",")
    tier = a[2] if len(a) > 2 else "quick"
    seed = "1"
    if "--seed" in sys.argv:
        seed = sys.argv[sys.argv.index("--seed") + 1]
    wt = "/tmp/verif-seedeval-%d" % os.getpid()
    subprocess.run(["git", "-C", "/repo", "worktree", "add", "--detach", "-q", wt, "HEAD"], check=True)
    rc_all = 0
    try:
        r = subprocess.run(["git", "-C", wt, "apply", patch], capture_output=True, text=True)
        if r.returncode != 0:
            # the tree has moved on since the change was written (hooks, repairs): three-way merge
            r = subprocess.run(["git", "-C", wt, "apply", "-3", patch], capture_output=True, text=True)
            if r.returncode == 0:
                subprocess.run(["git", "-C", wt, "reset", "-q"], capture_output=True, text=True)
        if r.returncode != 0:
            print("PATCH DOES NOT APPLY:", r.stderr.strip())
            return 3
        build = os.path.join(VERIF, ".build-" + hashlib.md5(wt.encode()).hexdigest()[:8])
        for pid in ids:
            t0 = time.time()
            env = dict(os.environ, VERIF_REPO=wt, VERIF_SEED=seed)
            r = subprocess.run([os.path.join(VERIF, "check"), pid, tier], env=env, cwd=VERIF, capture_output=True, text=True)
            first = ""
            m = re.search(r"\[rapid\] failed after \d+ tests?: (.*)", r.stderr) or re.search(r"^\s+\S+\.go:\d+: ((?!\[rapid\]).{20,})", r.stderr, re.M)
            if m:
                first = m.group(1)[:300]
            elif r.returncode != 0:
                first = (r.stderr.strip().splitlines() or [""])[-1][:300]
            nviol = len(re.findall(r"^VIOLATION", r.stdout, re.M))
            print("%s exit=%d violations=%d wall=%.0fs %s" % (pid, r.returncode, nviol, time.time() - t0, first), flush=True)
            if "--verbose" in sys.argv:
                print(r.stderr[-6000:])
            rc_all = max(rc_all, r.returncode)
        if "--keep" not in sys.argv:
            shutil.rmtree(build, ignore_errors=True)
    finally:
        subprocess.run(["git", "-C", "/repo", "worktree", "remove", "--force", wt])
    return 0


if __name__ == "__main__":
    sys.exit(main())
