"""Per-property configuration of the /verif driver.

Each property's configuration lives in lib/props.d/<ID>.json:
  pkg        harness package (key of PACKAGES) whose test binary runs the check
  run        -test.run regexp
  level      evidence level (exploration | fault_enumeration)
  technique, level_text, level_note, rule, assumptions   texts for MANIFEST/evidence
  quick / thorough: {shards, checks (-rapid.checks), steps (-rapid.steps), timeout (s), env {..}}
"""
import glob, json, os

HERE = os.path.dirname(os.path.abspath(__file__))

# harness/<sub> -> where it is compiled into /repo's package tree (by overlay)
PACKAGES = {
    "kit": {"dir": "internal/verifkit", "virtual": True, "lib": True},
    "checks": {"dir": "internal/verifchecks", "virtual": True},
    "jobs": {"dir": "internal/jobs"},
    "dataset": {"dir": "internal/service/dataset"},
    "server": {"dir": "internal/server"},
    "security": {"dir": "internal/security"},
    "web": {"dir": "internal/web"},
}

# properties not claimed, with the reason (none: every property has a check or is under construction)
NOT_APPLICABLE = {}

# commits in /repo that add verif-tagged hooks
HOOK_COMMITS = ["87c6d7a", "b0d1f5a", "a9b19f9", "53d4471"]

# properties whose check is finished and registered in MANIFEST.json
READY = ["C%02d" % i for i in range(1, 21)]

PROPS = {}
for f in sorted(glob.glob(os.path.join(HERE, "props.d", "*.json"))):
    PROPS[os.path.basename(f)[:-5]] = json.load(open(f))
