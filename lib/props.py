"""Per-property configuration of the /verif driver."""

# harness/<sub> -> where it is compiled into /repo's package tree (by overlay)
PACKAGES = {
    "kit": {"dir": "internal/verifkit", "virtual": True, "lib": True},
    "checks": {"dir": "internal/verifchecks", "virtual": True},
    "jobs": {"dir": "internal/jobs"},
    "dataset": {"dir": "internal/service/dataset"},
    "server": {"dir": "internal/server"},
}

NOT_APPLICABLE = {}
HOOK_COMMITS = []

PROPS = {
    "C01": {
        "pkg": "checks", "run": "^TestVerif_C01$", "level": "exploration",
        "technique": "stateful property-based testing (rapid state machine) against a reference model",
        "level_text": "Generated write histories (hundreds of histories x ~20-40 steps per run) compared step by step with an executable reference model through every read path (listing unpaged/paged/HTTP, scoped and merged lookup). Sampling, not proof; small pools make id/length/flag collisions the common case.",
        "level_note": "Trusts the reference model in harness/kit/model.go as a transcription of the statement; merged lookups are compared as per-key multisets (merge order not asserted).",
        "rule": "rapid state machine over a hub with datasets a,b,c: batches (store/parser/HTTP, 1-14 entities, ids drawn with replacement from a pool of 5, engineered equal-serialized-length rewrites, delete/un-delete flips, identical rewrites) and multi-dataset transactions (store, contextual store, HTTP); after every step listing (one call, paged, HTTP) and scoped/merged lookups are compared with the reference model. Non-trivial = history contains an overwrite with different content, an in-batch repeat, an un-delete, the same id in >=2 datasets or an equal-length rewrite; distinct by hash of the op list.",
        "assumptions": ["reference model (harness/kit/model.go) transcribes the statement", "Store.Delete() (wipe) not generated"],
        "quick": {"shards": 8, "checks": 40, "steps": 20, "timeout": 300},
        "thorough": {"shards": 16, "checks": 600, "steps": 40, "timeout": 3000},
    },
}
