"""Per-property configuration of the /verif driver."""

# harness/<sub> -> where it is compiled into /repo's package tree (by overlay)
PACKAGES = {
    "kit": {"dir": "internal/verifkit", "virtual": True, "lib": True},
    "checks": {"dir": "internal/verifchecks", "virtual": True},
    "jobs": {"dir": "internal/jobs"},
    "dataset": {"dir": "internal/service/dataset"},
    "server": {"dir": "internal/server"},
}

NOT_APPLICABLE = {}
HOOK_COMMITS = []

PROPS = {
    "C01": {
        "pkg": "checks", "run": "^TestVerif_C01$", "level": "exploration",
        "technique": "stateful property-based testing (rapid state machine) against a reference model",
        "level_text": "Generated write histories (hundreds of histories x ~20-40 steps per run) compared step by step with an executable reference model through every read path (listing unpaged/paged/HTTP, scoped and merged lookup). Sampling, not proof; small pools make id/length/flag collisions the common case.",
        "level_note": "Trusts the reference model in harness/kit/model.go as a transcription of the statement; merged lookups are compared as per-key multisets (merge order not asserted).",
        "rule": "rapid state machine over a hub with datasets a,b,c: batches (store/parser/HTTP, 1-14 entities, ids drawn with replacement from a pool of 5, engineered equal-serialized-length rewrites, delete/un-delete flips, identical rewrites) and multi-dataset transactions (store, contextual store, HTTP); after every step listing (one call, paged, HTTP) and scoped/merged lookups are compared with the reference model. Non-trivial = history contains an overwrite with different content, an in-batch repeat, an un-delete, the same id in >=2 datasets or an equal-length rewrite; distinct by hash of the op list.",
        "assumptions": ["reference model (harness/kit/model.go) transcribes the statement", "Store.Delete() (wipe) not generated"],
        "quick": {"shards": 8, "checks": 40, "steps": 20, "timeout": 300},
        "thorough": {"shards": 16, "checks": 600, "steps": 40, "timeout": 3000},
    },
    "C02": {
        "pkg": "checks", "run": "^TestVerif_C02$", "level": "exploration",
        "technique": "stateful property-based testing (rapid state machine) against a reference model, with token-carrying reader cursors interleaved with writes",
        "level_text": "Generated write histories interleaved with four independent token-carrying readers (store API and HTTP, full and latest-only, limits 0-5), reverse paging and since-beyond-end probes; every page is compared with the model feed position by position.",
        "level_note": "Trusts the reference model; change positions are opaque (only 'resume exactly' is asserted).",
        "rule": "rapid state machine over datasets a,b: batches/transactions as in C01 interleaved with readerStep(cursor,limit) for 4 cursors, pagedFeed (store and HTTP), reverse paging and since-beyond-end; oracle: feed from zero == model feed (one entry per stored version, identical rewrites add nothing), cursor sequences are prefixes of the model feed and complete after a short page, tokens do not move on empty pages, latest-only pages deliver only current versions and all of them once caught up, reverse == reversed forward. Non-trivial = a page boundary inside a commit, a redundant write, or a cursor with >=3 pages that straddles a write; distinct by op-list hash.",
        "assumptions": ["reference model transcribes the statement", "reads are issued between writes (no concurrent reader here; see C05)"],
        "quick": {"shards": 8, "checks": 40, "steps": 25, "timeout": 300},
        "thorough": {"shards": 16, "checks": 600, "steps": 50, "timeout": 3000},
    },
    "C03": {
        "pkg": "checks", "run": "^TestVerif_C03$", "level": "exploration",
        "technique": "stateful property-based testing against a reference model plus a metamorphic transpose relation (outgoing vs incoming)",
        "level_text": "Generated reference-heavy histories; after every step all start x predicate x direction x scope queries are compared with the model, incoming/outgoing answers must be mutual transposes, and paged queries (store continuations and POST /query) must return the same set once.",
        "level_note": "Trusts the reference model's definition of the relation set (taken from the statement); page sizes are not asserted, only the union over pages.",
        "rule": "rapid state machine over datasets a,b,c with up to 3 reference keys per entity (single/array values, 3 predicates, 5 ids): after every write a full sweep of 5 starts x (wildcard+3 predicates) x 2 directions x 5 scopes unpaged, transpose check, limit-1/limit-2 paged sweeps (store and HTTP), plus drawn paged queries. Non-trivial = history has >=2 predicates between one pair, an id live in one dataset and deleted in another, or a changed reference set; distinct by op-list hash.",
        "assumptions": ["reference model transcribes the statement", "queries whose predicate was never stored answer 'could not load predicate id' and are treated as the empty set"],
        "quick": {"shards": 8, "checks": 30, "steps": 15, "timeout": 300},
        "thorough": {"shards": 16, "checks": 400, "steps": 30, "timeout": 3000},
    },
}
