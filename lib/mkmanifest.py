#!/usr/bin/env python3
"""Regenerates /verif/MANIFEST.json from lib/props.py (single source of truth)."""
import json, os, sys
VERIF = os.path.dirname(os.path.dirname(os.path.abspath(__file__)))
sys.path.insert(0, os.path.join(VERIF, "lib"))
from props import PROPS, NOT_APPLICABLE, HOOK_COMMITS, READY  # noqa
PROPS = {k: v for k, v in PROPS.items() if k in READY}

ids = [json.loads(l)["id"] for l in open(os.path.join(VERIF, "properties.jsonl"))]
checks = []
for pid in ids:
    if pid not in PROPS:
        continue
    c = PROPS[pid]
    checks.append({
        "property_id": pid,
        "quick_cmd": "./check %s quick" % pid,
        "thorough_cmd": "./check %s thorough" % pid,
        "evidence_file": "/verif/evidence/%s.json" % pid,
        "replay_cmd_template": "./check %s --replay {path}" % pid,
        "engine": "rapid-harness",
        "level_claimed": {"category": c["level"], "text": c["level_text"], "design_ref": "DESIGN.md section 4, " + pid},
        "level_note": c["level_note"],
        "technique": c["technique"],
    })
na = [{"property_id": pid, "reason": NOT_APPLICABLE.get(pid, "check not built yet in this framework (under construction)")}
      for pid in ids if pid not in PROPS]
m = {
    "version": 1,
    "setup_cmd": "./check --build",
    "hooks": {
        "guard": "verif",
        "enable": "go test -tags verif (the driver builds every harness binary with -tags verif from /repo's working tree, harness sources injected with -overlay)",
        "baseline_off_cmd": "cd /repo && GOFLAGS=-mod=mod GOPROXY=off GOSUMDB=off go test -json -vet=off -count=1 -timeout 25m ./...",
        "source_commits": HOOK_COMMITS,
        "add_only": True,
    },
    "engines": [
        {"name": "rapid-harness", "path": "/verif/harness", "serves_properties": sorted(PROPS),
         "kind_free_text": "property-based testing: pgregory.net/rapid v1.3.0 state machines and generators compiled into /repo's packages by build overlay; reference models, round trips, metamorphic relations as oracles; python driver ./check shards by seed and merges evidence"},
    ],
    "checks": checks,
    "not_applicable": na,
    "notes": "All checks: exit 0 held / exit 1 VIOLATION line / exit 2 inconclusive (infrastructure). Known findings: known_findings.jsonl.",
}
json.dump(m, open(os.path.join(VERIF, "MANIFEST.json"), "w"), indent=1)
print("MANIFEST.json: %d checks, %d not_applicable" % (len(checks), len(na)))
